"""E9 - sensitivity / specificity self-test of the rules (thorough tier and development aid).

Each variant is an edit of a scratch copy of the *current* tree (never /repo itself): 'break'
variants must be reported by the named rule, 'equiv' variants (behaviour-preserving rewrites) must
stay silent.  Variants are compiled (py_compile) and analysed, never executed.  A variant whose
anchor text is absent from the current tree is skipped and counted.

    python sa/selftest.py [PROP ...] [-j N] [-v]
"""
from __future__ import annotations

import importlib
import io
import os
import shutil
import sys
import tempfile
from concurrent.futures import ProcessPoolExecutor
from contextlib import redirect_stdout
from pathlib import Path

sys.path.insert(0, str(Path(__file__).resolve().parent.parent))

from sa.core import AnalysisError, Project, REPO  # noqa: E402
from sa.report import Ctx  # noqa: E402


def load_variants(props=None) -> list:
    out = []
    vdir = Path(__file__).parent / 'variants'
    for path in sorted(vdir.glob('c*.py')):
        pid = path.stem.upper()
        if props and pid not in props:
            continue
        mod = importlib.import_module(f'sa.variants.{path.stem}')
        for v in mod.VARIANTS:
            v = dict(v)
            v.setdefault('prop', pid)
            out.append(v)
    return out


def load_seeded(props=None) -> list:
    """Independently seeded changes (sub-agents, confirmed with tools/seed_verify.py) as 'break' variants of
    their property, and the confirmed behaviour-preserving refactorings as 'equiv' variants of EVERY property."""
    import json
    out = []
    root = Path(__file__).resolve().parent.parent
    for m in sorted((root / 'seeded').glob('*/meta.json')):
        meta = json.loads(m.read_text())
        if props and meta['property'] not in props:
            continue
        out.append({'id': 'seeded:' + m.parent.name, 'kind': 'break', 'prop': meta['property'],
                    'patch': str(m.parent / 'patch.diff')})
    for m in sorted((root / 'seeded_equiv').glob('*/meta.json')):
        for pid in sorted(props) if props else [f'C{i:02d}' for i in range(1, 21)]:
            out.append({'id': f'refactoring:{m.parent.name}', 'kind': 'equiv', 'prop': pid,
                        'patch': str(m.parent / 'patch.diff')})
    # hand-written syntax stress (tools/stress_equiv.py --save): constructs the pinned tree does not use
    for m in sorted((root / 'stress_equiv').glob('*/meta.json')):
        for pid in sorted(props) if props else [f'C{i:02d}' for i in range(1, 21)]:
            out.append({'id': f'stress:{m.parent.name}', 'kind': 'equiv', 'prop': pid,
                        'patch': str(m.parent / 'patch.diff')})
    return out


def apply_variant(v, root: Path) -> str:
    """Returns '' on success, or the reason the variant is skipped."""
    if 'patch' in v:
        import subprocess
        r = subprocess.run(['patch', '-p1', '-s', '-f', '-d', str(root), '-i', v['patch']],
                           capture_output=True, text=True)
        if r.returncode != 0:
            return 'patch does not apply to the current tree'
        for path in (root / 'src').rglob('*.py'):
            try:
                compile(path.read_text(encoding='utf-8'), str(path), 'exec')
            except SyntaxError as err:
                return f'variant does not compile: {err}'
        return ''
    edits = v.get('edits') or [(v['file'], v['old'], v['new'])]
    for rel, old, new in edits:
        path = root / 'src' / 'ampycloud' / rel
        if not path.exists():
            return f'file missing: {rel}'
        text = path.read_text(encoding='utf-8')
        if text.count(old) != 1:
            return f'anchor text found {text.count(old)} times in {rel}'
        path.write_text(text.replace(old, new), encoding='utf-8')
    for rel in {e[0] for e in edits}:
        path = root / 'src' / 'ampycloud' / rel
        try:
            compile(path.read_text(encoding='utf-8'), str(path), 'exec')  # compiled, never run
        except SyntaxError as err:
            return f'variant does not compile: {err}'
    return ''


def run_variant(v) -> dict:
    tmp = Path(tempfile.mkdtemp(prefix='sa_variant_'))
    try:
        shutil.copytree(REPO / 'src', tmp / 'src')
        skip = apply_variant(v, tmp)
        if skip:
            return {'id': v['id'], 'prop': v['prop'], 'kind': v['kind'], 'result': 'skipped', 'why': skip}
        mod = importlib.import_module(f'sa.props.{v["prop"].lower()}')
        buf = io.StringIO()
        ctx = None
        try:
            with redirect_stdout(buf):
                ctx = Ctx(v['prop'], 'quick', level=getattr(mod, 'LEVEL', 'other'),
                          project=Project(repo=tmp))
                mod.check(ctx)
            viol = [o for o in ctx.obligations if o['status'] == 'violation']   # known findings are not new reports
            err = None
            if ctx.floor_failures and not viol:
                err = '%s: %s' % ctx.floor_failures[0]
        except AnalysisError as e:
            # as in check.py: violations reported before a rule gave up are the result of the run
            viol = [o for o in ctx.obligations if o['status'] == 'violation'] if ctx is not None else []
            err = None if viol else f'{e.rule}: {e.why}'
        except Exception as e:  # pylint: disable=broad-except
            viol, err = [], f'internal error: {type(e).__name__}: {e}'
        rules = sorted({o['rule'] for o in viol})
        if v['kind'] == 'break':
            want = v.get('rule')
            hit = bool(viol) and (want is None or any(r.startswith(want) for r in rules))
            res = 'caught' if hit else ('analysis-error' if err else 'MISSED')
        else:
            res = 'silent' if not viol and not err else ('analysis-error' if err else 'FALSE-ALARM')
        return {'id': v['id'], 'prop': v['prop'], 'kind': v['kind'], 'result': res, 'rules': rules,
                'error': err, 'first': (viol[0]['detail'][:200] if viol else '')}
    finally:
        shutil.rmtree(tmp, ignore_errors=True)


def run_all(props=None, jobs=None) -> list:
    variants = load_variants(props) + load_seeded(props)
    jobs = jobs or min(16, os.cpu_count() or 4)
    if jobs == 1 or len(variants) < 3:
        return [run_variant(v) for v in variants]
    with ProcessPoolExecutor(max_workers=jobs) as pool:
        return list(pool.map(run_variant, variants))


def summarize(results) -> dict:
    s = {}
    for r in results:
        s[r['result']] = s.get(r['result'], 0) + 1
    return s


def main(argv):
    props = {a.upper() for a in argv if not a.startswith('-')}
    verbose = '-v' in argv
    results = run_all(props or None)
    bad = 0
    for r in results:
        flag = r['result'] in ('MISSED', 'FALSE-ALARM') or (r['result'] == 'analysis-error')
        bad += flag
        if verbose or flag or r['result'] == 'skipped':
            print(f"{r['prop']} {r['kind']:5} {r['id']:45} {r['result']:14} {r.get('rules', '')} "
                  f"{r.get('error') or r.get('why') or ''} {r.get('first', '')[:110] if verbose else ''}")
    print(summarize(results))
    return 1 if bad else 0


if __name__ == '__main__':
    sys.exit(main(sys.argv[1:]))
