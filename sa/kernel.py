"""E7 - numeric kernel analyser.

Evaluates a provenance term that depends on ONE real variable over an abstract domain: the input
interval is partitioned into pieces; on each piece the value is  scale * K(a*v + b) + offset  with
K in {id, floor, ceil, round} and exact rational coefficients.  NumPy masked assignments (functional
update chains produced by the executor) are read element-wise:  out[c] = e[c]  ==  if c: out = e.
Arithmetic is exact-real (fractions); IEEE rounding within an ulp of a boundary is outside the model.
"""
from __future__ import annotations

import math
from fractions import Fraction as F

from . import terms as T
from .core import AnalysisError
from .terms import tag

INF = float('inf')


class Unsupported(AnalysisError):
    pass


class MaskMismatch(Unsupported):
    """out[c1] = f(val[c2]) with c1 != c2: the values written are not those of the rows they are written to."""


class NestedRounding(Unsupported):
    """outer(inner(x) * s): two roundings in a row that do not collapse into one."""

    def __init__(self, rule, inner, outer, term):
        super().__init__(rule, f'{outer}() applied to an already {inner}-ed, rescaled value: '
                               f'{T.show(term, maxlen=120)}')
        self.inner, self.outer = inner, outer


# ---------------------------------------------------------------------- pieces
def piece(lo, lc, hi, hc):
    return (lo, lc, hi, hc)


def nonempty(p) -> bool:
    lo, lc, hi, hc = p
    if lo < hi:
        return True
    return lo == hi and lc and hc


def show_piece(p) -> str:
    lo, lc, hi, hc = p
    f = lambda x: str(x) if isinstance(x, float) else (str(x.numerator) if x.denominator == 1 else str(float(x)))  # noqa: E731
    if lo == hi:
        return '{' + f(lo) + '}'
    return ('[' if lc else '(') + f(lo) + ', ' + f(hi) + (']' if hc else ')')


def intersect(p, q):
    lo = max(p[0], q[0])
    lc = p[1] if p[0] > q[0] else (q[1] if q[0] > p[0] else (p[1] and q[1]))
    hi = min(p[2], q[2])
    hc = p[3] if p[2] < q[2] else (q[3] if q[2] < p[2] else (p[3] and q[3]))
    r = (lo, lc, hi, hc)
    return r if nonempty(r) else None


def split(p, r, left_closed_at_r: bool):
    """(p restricted to v < r or v <= r, the rest of p)."""
    left = intersect(p, (-INF, False, r, left_closed_at_r))
    right = intersect(p, (r, not left_closed_at_r, INF, False))
    return left, right


# ---------------------------------------------------------------------- abstract values
def num(kind, a, b, scale=F(1), offset=F(0)):
    if kind == 'id':
        return ('num', 'id', scale * a, scale * b + offset, F(1), F(0))
    if a == 0:
        inner = b
        k = {'floor': math.floor, 'ceil': math.ceil, 'round': lambda x: _round_half_even(x)}[kind](inner)
        return ('num', 'id', F(0), scale * k + offset, F(1), F(0))
    return ('num', kind, a, b, scale, offset)


def _round_half_even(x):
    fl = math.floor(x)
    d = x - fl
    if d < F(1, 2):
        return fl
    if d > F(1, 2):
        return fl + 1
    return fl if fl % 2 == 0 else fl + 1


def const(c):
    return num('id', F(0), F(c))


def is_const(v):
    return v[0] == 'num' and v[1] == 'id' and v[2] == 0


def is_integer_valued(v) -> bool:
    if v[0] != 'num':
        return False
    if v[1] == 'id':
        return v[2] == 0 and v[3].denominator == 1
    return v[4].denominator == 1 and v[5].denominator == 1


def inner_range(v, p):
    """Range of a*v+b over piece p: (lo, lo_attained, hi, hi_attained)."""
    _, kind, a, b, _, _ = v
    lo, lc, hi, hc = p
    def at(x):
        return a * x + b if x not in (INF, -INF) else (INF if (a > 0) == (x == INF) else -INF) if a != 0 else b
    if a >= 0:
        return at(lo), lc, at(hi), hc
    return at(hi), hc, at(lo), lc


def value_range(v, p):
    """(min, min_attained, max, max_attained) of the abstract value over piece p (integer aware)."""
    _, kind, a, b, scale, offset = v
    il, ila, ih, iha = inner_range(v, p)
    if kind == 'id':
        return il, ila, ih, iha
    if il == -INF or ih == INF:
        klo, khi = il, ih
    else:
        if kind == 'floor':
            klo = math.floor(il)
            khi = math.floor(ih) if (iha or F(ih).denominator != 1) else ih - 1
            if il == ih:
                khi = klo
        elif kind == 'ceil':
            klo = math.ceil(il) if (ila or F(il).denominator != 1) else il + 1
            khi = math.ceil(ih)
            if il == ih:
                klo = khi
        else:  # round: nearest, ties to even (NumPy); an excluded end point that is a tie does not count
            def tie(x):
                return F(x - F(1, 2)).denominator == 1
            klo = _round_half_even(il) if (ila or not tie(il)) else il + F(1, 2)
            khi = _round_half_even(ih) if (iha or not tie(ih)) else ih - F(1, 2)
            if khi < klo:
                khi = klo
    lo_v, hi_v = scale * klo + offset, scale * khi + offset
    if scale < 0:
        lo_v, hi_v = hi_v, lo_v
    return lo_v, True, hi_v, True


# ---------------------------------------------------------------------- evaluator
class Kernel:
    def __init__(self, var, rule='E7'):
        self.var = var          # the term that stands for the input variable
        self.rule = rule

    def bad(self, t, why=''):
        raise Unsupported(self.rule, f'term outside the numeric-kernel subset {why}: {T.show(t, maxlen=160)}')

    # value evaluation ---------------------------------------------------
    def ev(self, t, p):
        """-> list of (piece, abstract value)"""
        if t == self.var:
            return [(p, num('id', F(1), F(0)))]
        tg = tag(t)
        if tg == 'c':
            v = t[1]
            if isinstance(v, bool):
                return [(p, ('bool', v))]
            if isinstance(v, (int, float)):
                if isinstance(v, float) and (math.isnan(v)):
                    return [(p, ('nan',))]
                if isinstance(v, float) and math.isinf(v):
                    return [(p, ('inf', v > 0))]
                return [(p, const(F(v)))]
            if isinstance(v, str):
                return [(p, ('str', v))]
            if v is None:
                return [(p, ('none',))]
            self.bad(t)
        if tg == 'g':
            if t[1] in ('numpy.nan', 'math.nan', 'numpy.NaN'):
                return [(p, ('nan',))]
            if t[1] in ('numpy.inf', 'math.inf'):
                return [(p, ('inf', True))]
            self.bad(t)
        if tg == 'vals':
            return self.ev(t[1], p)
        if tg == 'phi':
            out = []
            # evaluate guards where possible; otherwise all alternatives must agree
            decided = []
            undecided = False
            for g, v in t[1]:
                try:
                    decided.append((self.evb(g, p), v))
                except Unsupported:
                    undecided = True
                    break
            if not undecided:
                res = []
                for parts, v in decided:
                    for (pp, bv) in parts:
                        if bv:
                            res.extend(self.ev(v, pp))
                return _merge(res)
            alts = [self.ev(v, p) for _, v in t[1]]
            first = alts[0]
            for other in alts[1:]:
                if _merge(other) != _merge(first):
                    self.bad(t, '(phi alternatives differ and the guards are not numeric)')
            return first
        if tg == 'ifexp':
            return self.ev(('phi', ((t[1], t[2]), (T.mk_not(t[1]), t[3]))), p)
        if tg == 'list' and len(t[1]) == 1:
            return self.ev(t[1][0], p)
        if tg == 'mask':
            return self.ev(t[1], p)    # element-wise reading; alignment is checked by the caller
        if tg == 'sub':
            if T.is_const(t[2]) and t[2][1] == 0:
                return self.ev(t[1], p)   # [0] of a one-element array
            self.bad(t)
        if tg == 'upd':
            old, target, value = t[1], t[2], t[3]
            if tag(target) != 'mask' or target[1] != ('it',):
                self.bad(t, '(store is not a masked assignment)')
            cond = T.subst(target[2], {('it',): old})
            out = []
            for pp, bv in self.evb(cond, p):
                if bv:
                    # masks used inside the value must be this very condition
                    for m in _top_masks(value):
                        if m[2] != cond:
                            raise MaskMismatch(self.rule, 'value selected with a different mask than the target: '
                                               f'{T.show(m[2], maxlen=80)} vs {T.show(cond, maxlen=80)}')
                    out.extend(self.ev(value, pp))
                else:
                    out.extend(self.ev(old, pp))
            return _merge(out)
        if tg == 'bin':
            return self._bin(t, p)
        if tg == 'un' and t[1] == '-':
            return [(pp, self._scale(v, F(-1), t)) for pp, v in self.ev(t[2], p)]
        if tg == 'call' and tag(t[1]) == 'g':
            q = t[1][1]
            a = t[2]
            if q in ('numpy.array', 'numpy.asarray', 'numpy.atleast_1d', 'builtins.float', 'numpy.float64',
                     'numpy.squeeze') and a:
                return self.ev(a[0], p)
            if q in ('numpy.full_like', 'numpy.full') and len(a) >= 2:
                return self.ev(a[1], p)
            if q in ('numpy.zeros_like',):
                return [(p, const(0))]
            if q in ('numpy.ones_like',):
                return [(p, const(1))]
            if q in ('numpy.floor', 'math.floor'):
                return [(pp, self._step('floor', v, t)) for pp, v in self.ev(a[0], p)]
            if q in ('numpy.ceil', 'math.ceil'):
                return [(pp, self._step('ceil', v, t)) for pp, v in self.ev(a[0], p)]
            if q in ('numpy.round', 'numpy.rint', 'numpy.around', 'builtins.round') and len(a) == 1:
                return [(pp, self._step('round', v, t)) for pp, v in self.ev(a[0], p)]
            if q in ('numpy.round', 'numpy.around', 'builtins.round') and len(a) == 2 and T.is_const(a[1]) \
                    and isinstance(a[1][1], int):
                k = F(10) ** a[1][1]
                return [(pp, self._scale(self._step('round', self._scale(v, k, t), t), 1 / k, t))
                        for pp, v in self.ev(a[0], p)]
            if q in ('builtins.int', 'numpy.trunc', 'math.trunc', 'numpy.fix'):
                return self._trunc(a[0], p, t)
            if q == 'numpy.where' and len(a) == 3:
                out = []
                for pp, bv in self.evb(a[0], p):
                    out.extend(self.ev(a[1] if bv else a[2], pp))
                return _merge(out)
            if q in ('numpy.clip',) and len(a) == 3:
                return self._minmax('max', self._minmax_terms('min', a[0], a[2], p, t), a[1], t)
            if q in ('numpy.minimum', 'numpy.fmin', 'builtins.min') and len(a) == 2:
                return self._minmax_terms('min', a[0], a[1], p, t)
            if q in ('numpy.maximum', 'numpy.fmax', 'builtins.max') and len(a) == 2:
                return self._minmax_terms('max', a[0], a[1], p, t)
            if q in ('numpy.abs', 'builtins.abs', 'numpy.fabs'):
                out = []
                for pp, v in self.ev(a[0], p):
                    for p2, b in self._cmp_num(v, 'lt', const(0), pp, t):
                        out.append((p2, self._scale(v, F(-1), t) if b else v))
                return _merge(out)
        if tg == 'mcall':
            if t[2] == 'astype' and t[3]:
                ty = t[3][0]
                if ty in (('g', 'builtins.int'), ('g', 'numpy.int64'), ('g', 'numpy.int32'), T.C('int')):
                    return self._trunc(t[1], p, t)
                if ty in (('g', 'builtins.float'), ('g', 'numpy.float64'), T.C('float')):
                    return self.ev(t[1], p)
            if t[2] in ('copy', 'flatten', 'ravel', 'item', 'squeeze'):
                return self.ev(t[1], p)
        if tg == 'fmt':
            return [(pp, ('fmt', v, t[2], t[3])) for pp, v in self.ev(t[1], p)]
        if tg == 'fstr':
            parts = [self.ev(x, p) for x in t[1]]
            if len(parts) == 1:
                return parts[0]
            self.bad(t)
        self.bad(t)

    def _minmax_terms(self, which, x, y, p, t):
        out = []
        for p1, vx in self.ev(x, p):
            for p2, vy in self.ev(y, p1):
                out.extend(self._pick(which, vx, vy, p2, t))
        return _merge(out)

    def _minmax(self, which, parts, y, t):
        out = []
        for p1, vx in parts:
            for p2, vy in self.ev(y, p1):
                out.extend(self._pick(which, vx, vy, p2, t))
        return _merge(out)

    def _pick(self, which, vx, vy, p, t):
        out = []
        for pp, lt in self._cmp_num(vx, 'lt', vy, p, t):
            take_x = lt if which == 'min' else not lt
            out.append((pp, vx if take_x else vy))
        return out

    def _trunc(self, inner, p, t):
        out = []
        for pp, v in self.ev(inner, p):
            if v[0] != 'num':
                self.bad(t)
            if is_integer_valued(v):
                out.append((pp, v))
                continue
            if v[1] != 'id':
                self.bad(t, '(int() of a non-integer stepped value)')
            # trunc = floor for x >= 0, ceil for x < 0
            for p2, neg in self._cmp_num(v, 'lt', const(0), pp, t):
                out.append((p2, self._step('ceil' if neg else 'floor', v, t)))
        return _merge(out)

    def _step(self, kind, v, t):
        if v[0] == 'nan':
            return v
        if v[0] != 'num':
            self.bad(t)
        if is_integer_valued(v):
            return v          # floor/ceil/round of an integer-valued expression
        if v[1] != 'id':
            # floor(floor(x) / n) == floor(x / n), ceil(ceil(x) / n) == ceil(x / n) for a positive integer n
            if v[1] == kind and kind in ('floor', 'ceil') and v[5] == 0 and v[4] > 0 and (1 / v[4]).denominator == 1:
                return num(kind, v[2] * v[4], v[3] * v[4])
            raise NestedRounding(self.rule, v[1], kind, t)
        return num(kind, v[2], v[3])

    def _scale(self, v, k, t):
        if v[0] == 'nan':
            return v
        if v[0] != 'num':
            self.bad(t)
        _, kind, a, b, s, o = v
        if kind == 'id':
            return num('id', a * k, b * k)
        return ('num', kind, a, b, s * k, o * k)

    def _bin(self, t, p):
        op = t[1]
        out = []
        for p1, x in self.ev(t[2], p):
            for p2, y in self.ev(t[3], p1):
                out.append((p2, self._arith(op, x, y, t)))
        return _merge(out)

    def _arith(self, op, x, y, t):
        if x[0] == 'nan' or y[0] == 'nan':
            return ('nan',)
        if x[0] == 'str' and y[0] == 'str' and op == '+':
            return ('str', x[1] + y[1])
        if x[0] != 'num' or y[0] != 'num':
            self.bad(t)
        if op in ('+', '-'):
            sg = 1 if op == '+' else -1
            if x[1] == 'id' and y[1] == 'id':
                return num('id', x[2] + sg * y[2], x[3] + sg * y[3])
            if is_const(y):
                return ('num', x[1], x[2], x[3], x[4], x[5] + sg * y[3])
            if is_const(x):
                return ('num', y[1], y[2], y[3], sg * y[4], x[3] + sg * y[5])
            self.bad(t, '(sum of two stepped values)')
        if op == '*':
            if is_const(y):
                return self._scale(x, y[3], t)
            if is_const(x):
                return self._scale(y, x[3], t)
            self.bad(t, '(product of two non-constant values)')
        if op == '/':
            if is_const(y):
                if y[3] == 0:
                    self.bad(t, '(division by zero)')
                return self._scale(x, 1 / y[3], t)
            self.bad(t, '(division by a non-constant)')
        self.bad(t)

    # boolean evaluation ---------------------------------------------------
    def evb(self, t, p):
        """-> list of (piece, bool)"""
        tg = tag(t)
        if tg == 'c' and isinstance(t[1], bool):
            return [(p, t[1])]
        if tg == 'not':
            return [(pp, not b) for pp, b in self.evb(t[1], p)]
        if tg == 'and':
            res = [(p, True)]
            for x in t[1]:
                nxt = []
                for pp, b in res:
                    if not b:
                        nxt.append((pp, False))
                    else:
                        nxt.extend(self.evb(x, pp))
                res = nxt
            return _mergeb(res)
        if tg == 'or':
            res = [(p, False)]
            for x in t[1]:
                nxt = []
                for pp, b in res:
                    if b:
                        nxt.append((pp, True))
                    else:
                        nxt.extend(self.evb(x, pp))
                res = nxt
            return _mergeb(res)
        if tg == 'call' and tag(t[1]) == 'g' and t[1][1] in ('numpy.all', 'numpy.any', 'builtins.all',
                                                             'builtins.any', 'builtins.bool') and t[2]:
            return self.evb(t[2][0], p)
        if tg == 'call' and tag(t[1]) == 'g' and t[1][1] in ('numpy.isnan', 'math.isnan'):
            return [(pp, v[0] == 'nan') for pp, v in self.ev(t[2][0], p)]
        if tg == 'vals':
            return self.evb(t[1], p)
        if tg == 'cmp' and t[1] in ('lt', 'le', 'eq', 'ne'):
            out = []
            for p1, x in self.ev(t[2], p):
                for p2, y in self.ev(t[3], p1):
                    out.extend(self._cmp_num(x, t[1], y, p2, t))
            return _mergeb(out)
        if tg in ('p', 'bin', 'un', 'sub', 'mask', 'call', 'mcall', 'c', 'g', 'upd', 'phi') and not (tg == 'c' and isinstance(t[1], str)):
            # truthiness of a number: x != 0 (NaN is truthy)
            out = []
            for p1, x in self.ev(t, p):
                for p2, z in self.ev(T.C(0), p1):
                    out.extend(self._cmp_num(x, 'ne', z, p2, t))
            return _mergeb(out)
        raise Unsupported(self.rule, f'condition outside the numeric-kernel subset: {T.show(t, maxlen=160)}')

    def _cmp_num(self, x, op, y, p, t):
        if x[0] == 'nan' or y[0] == 'nan':
            return [(p, op == 'ne')]
        if x[0] == 'inf' or y[0] == 'inf':
            if x[0] == 'inf' and y[0] == 'num':
                pos = x[1]
                return [(p, {'lt': not pos, 'le': not pos, 'eq': False, 'ne': True}[op])]
            if y[0] == 'inf' and x[0] == 'num':
                pos = y[1]
                return [(p, {'lt': pos, 'le': pos, 'eq': False, 'ne': True}[op])]
            self.bad(t)
        if x[0] != 'num' or y[0] != 'num':
            self.bad(t)
        # bring to  lhs op const
        flip = {'lt': 'gt', 'le': 'ge', 'eq': 'eq', 'ne': 'ne'}
        if x[1] == 'id' and y[1] == 'id':
            a, b = x[2] - y[2], x[3] - y[3]
            return self._affine_cmp(a, b, op, p)
        if is_const(y):
            return self._step_cmp(x, op, y[3], p, t)
        if is_const(x):
            return self._step_cmp(y, flip[op], x[3], p, t)
        self.bad(t, '(comparison of two stepped values)')

    def _affine_cmp(self, a, b, op, p):
        """a*v + b  op  0 on piece p."""
        if op in ('gt', 'ge'):
            return self._affine_cmp(-a, -b, {'gt': 'lt', 'ge': 'le'}[op], p)
        if a == 0:
            val = {'lt': b < 0, 'le': b <= 0, 'eq': b == 0, 'ne': b != 0}[op]
            return [(p, val)]
        r = -b / a
        out = []
        if op in ('eq', 'ne'):
            left, rest = split(p, r, False)
            if left:
                out.append((left, op == 'ne'))
            if rest:
                pt, right = split(rest, r, True)
                if pt:
                    out.append((pt, op == 'eq'))
                if right:
                    out.append((right, op == 'ne'))
            return out
        # a v + b < 0  <=>  v < r (a>0)  or  v > r (a<0)
        if a > 0:
            left, right = split(p, r, op == 'le')
            if left:
                out.append((left, True))
            if right:
                out.append((right, False))
        else:
            left, right = split(p, r, op != 'le')
            if left:
                out.append((left, False))
            if right:
                out.append((right, True))
        return out

    def _step_cmp(self, x, op, c, p, t):
        """scale*K(a v+b)+offset  op  c."""
        _, kind, a, b, s, o = x
        lo, _, hi, _ = value_range(x, p)
        test = {'lt': lambda u: u < c, 'le': lambda u: u <= c, 'gt': lambda u: u > c,
                'ge': lambda u: u >= c, 'eq': lambda u: u == c, 'ne': lambda u: u != c}[op]
        if kind == 'id':
            return self._affine_cmp(a, b - c, op, p)
        if lo == hi:
            return [(p, test(lo))]
        if op in ('lt', 'le', 'gt', 'ge') and (test(lo) == test(hi)) and op not in ('eq', 'ne'):
            return [(p, test(lo))]
        if s <= 0:
            self.bad(t, '(comparison on a stepped value with non-positive scale)')
        k = (c - o) / s          # K(inner) op k
        if kind == 'floor':
            thr, iop = {'ge': (math.ceil(k), 'ge'), 'gt': (math.floor(k) + 1, 'ge'),
                        'le': (math.floor(k) + 1, 'lt'), 'lt': (math.ceil(k), 'lt')}.get(op, (None, None))
        elif kind == 'ceil':
            thr, iop = {'le': (math.floor(k), 'le'), 'lt': (math.ceil(k) - 1, 'le'),
                        'gt': (math.floor(k), 'gt'), 'ge': (math.ceil(k) - 1, 'gt')}.get(op, (None, None))
        else:
            return self._round_cmp(a, b, op, k, p, t)
        if thr is None:
            self.bad(t, '(comparison on a stepped value: unsupported operator)')
        return self._affine_cmp(a, b - thr, iop, p)

    def _round_cmp(self, a, b, op, k, p, t):
        """round(a v + b) op k, ties to even: round(x) >= m  <=>  x > m - 1/2, or x == m - 1/2 and m even."""
        if op in ('eq', 'ne'):
            if F(k).denominator != 1:
                return [(p, op == 'ne')]
            m = int(k)
            out = []
            for pp, ge in self._round_cmp(a, b, 'ge', F(m), p, t):
                if not ge:
                    out.append((pp, op == 'ne'))
                    continue
                for p2, ge1 in self._round_cmp(a, b, 'ge', F(m + 1), pp, t):
                    out.append((p2, (not ge1) if op == 'eq' else ge1))
            return _mergeb(out)
        if op in ('lt', 'le'):
            neg = {'lt': 'ge', 'le': 'gt'}[op]
            return [(pp, not bv) for pp, bv in self._round_cmp(a, b, neg, k, p, t)]
        m = math.ceil(k) if op == 'ge' else math.floor(k) + 1      # round(x) >= m
        tie = F(m) - F(1, 2)
        out = []
        for pp, below in self._affine_cmp(a, b - tie, 'lt', p):
            if below:
                out.append((pp, False))
                continue
            for p2, at in self._affine_cmp(a, b - tie, 'eq', pp):
                out.append((p2, (m % 2 == 0) if at else True))
        return _mergeb(out)


def _top_masks(t):
    """Masks applied in t, not descending into older states of an update chain."""
    out, stack = [], [t]
    while stack:
        cur = stack.pop()
        if not isinstance(cur, tuple):
            continue
        if tag(cur) == 'mask':
            out.append(cur)
            stack.append(cur[1])
            continue
        if tag(cur) == 'upd':
            continue
        stack.extend(x for x in (cur[1:] if cur and isinstance(cur[0], str) else cur) if isinstance(x, tuple))
    return out


def _merge(parts):
    parts = [x for x in parts if nonempty(x[0])]
    parts.sort(key=lambda x: (x[0][0], not x[0][1]))
    out = []
    for p, v in parts:
        if out and out[-1][1] == v and out[-1][0][2] == p[0] and (out[-1][0][3] or p[1]) \
                and not (out[-1][0][3] and p[1] and False):
            q = out[-1][0]
            out[-1] = ((q[0], q[1], p[2], p[3]), v)
        else:
            out.append((p, v))
    return out


def _mergeb(parts):
    return _merge(parts)


# ---------------------------------------------------------------------- analyses on the result
def describe(parts):
    out = []
    for p, v in parts:
        if v[0] == 'num':
            _, kind, a, b, s, o = v
            core = f'{float(a):g}*v' + (f'{float(b):+g}' if b else '') if a else f'{float(b):g}'
            txt = core if kind == 'id' else f'{kind}({core})'
            if kind != 'id' and (s != 1 or o != 0):
                txt = f'{float(s):g}*{txt}' + (f'{float(o):+g}' if o else '')
        elif v[0] == 'fmt':
            txt = f'format({describe([(p, v[1])])[0]["value"]}, {v[2]})'
        else:
            txt = repr(v)
        out.append({'piece': show_piece(p), 'value': txt})
    return out


def monotone_violations(parts):
    """Piecewise non-decreasing: within pieces (sign of scale*a) and across boundaries."""
    bad = []
    nums = [(p, v) for p, v in parts if v[0] == 'num']
    for p, v in nums:
        if v[2] * v[4] < 0:
            bad.append(f'decreasing on {show_piece(p)}')
    for (p1, v1), (p2, v2) in zip(nums, nums[1:]):
        hi1 = value_range(v1, p1)[2]
        lo2 = value_range(v2, p2)[0]
        if hi1 > lo2:
            bad.append(f'drops from {float(hi1):g} on {show_piece(p1)} to {float(lo2):g} on {show_piece(p2)}')
    return bad
