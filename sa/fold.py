"""E6 - finite-state fold extraction.

For a function of the shape "initialise; one loop over the input sequence; return the accumulator"
the loop body (as provenance terms produced by the abstract executor) is turned into a transducer:
loop-carried scalars are kept exactly, append-only lists are abstracted by the observers the body
applies to them (count(const), len), the loop element ranges over a finite alphabet.  The reachable
states are enumerated in the checker's own term semantics; the analysed function is never run.
"""
from __future__ import annotations

from collections import deque

from . import terms as T
from .core import AnalysisError
from .terms import tag


class _OutOfRange(AnalysisError):
    pass


class Fold:
    def __init__(self, summ, ex, param: str, rule: str):
        self.summ, self.ex, self.param, self.rule = summ, ex, param, rule
        self.func = summ.func
        self._extract()

    # ------------------------------------------------------------------ extraction
    def _extract(self) -> None:
        ret = T.peel(self.summ.ret)
        if tag(ret) != 'loopres':
            raise AnalysisError(self.rule, f'{self.func.qname}: return value is not a loop '
                                           f'accumulator ({T.show(ret, maxlen=120)})')
        self.lid = ret[1]
        self.out_var = ret[2]
        loop = self.ex.loops[self.lid]
        it = T.peel(loop.iter)
        if it != ('p', self.param):
            raise AnalysisError(self.rule, f'{self.func.qname}: loop does not run over parameter '
                                           f'{self.param!r} ({T.show(it, maxlen=120)})')
        # no other loop in the function (or in the local functions expanded into it)
        others = [l for l in self.ex.loops.values() if l.id != self.lid and
                  (l.func is self.func or l.func.qname.startswith(self.func.qname + '.<locals>.'))]
        if others:
            raise AnalysisError(self.rule, f'{self.func.qname}: more than one loop')
        # loop-carried variables as recorded by the executor at the end of the loop body (they may live in a local
        # function / generator expanded at its call site, so the environment of the outer function is not enough)
        self.vars = {nm: {'init': init, 'body': body} for nm, (init, body) in loop.carried.items()
                     if body != ('lphi', self.lid, nm) or nm == self.out_var}
        if self.out_var not in self.vars:
            raise AnalysisError(self.rule, 'accumulator not loop-carried')
        # classify
        self.lists, self.scalars = {}, {}
        for nm, d in self.vars.items():
            init = d['init']
            if tag(init) == 'list' and not init[1]:
                self.lists[nm] = d
            elif T.is_const(init) and isinstance(init[1], (int, bool)):
                self.scalars[nm] = d
            elif nm == self.out_var:
                raise AnalysisError(self.rule, f'accumulator initial value unsupported: '
                                               f'{T.show(init)}')
            else:
                self.scalars[nm] = d  # may be irrelevant; evaluated lazily
        # observers used on list variables
        self.observers = []  # (list var, kind, arg)
        for d in self.vars.values():
            for sub in T.walk(d['body']):
                ob = self._observer_of(sub)
                if ob and ob not in self.observers:
                    self.observers.append(ob)
        # every use of a list lphi must be inside an observer or as the append base
        for nm in self.lists:
            self._check_list_uses(nm)
        # relevance slice: variables that can influence the output
        self.relevant = self._relevant()

    def _observer_of(self, t):
        if tag(t) == 'mcall' and t[2] == 'count' and tag(t[1]) == 'lphi' and t[1][1] == self.lid \
                and len(t[3]) == 1 and T.is_const(t[3][0]):
            return (t[1][2], 'count', t[3][0][1])
        if tag(t) == 'call' and t[1] == ('g', 'builtins.len') and len(t[2]) == 1 \
                and tag(t[2][0]) == 'lphi' and t[2][0][1] == self.lid:
            return (t[2][0][2], 'len', None)
        if tag(t) == 'call' and t[1] == ('g', 'builtins.sum') and len(t[2]) == 1 \
                and tag(t[2][0]) == 'lphi' and t[2][0][1] == self.lid:
            return (t[2][0][2], 'count', True)
        return None

    def _appends(self, nm, term):
        """Decompose the body term of list var nm into [(guard, [elements])] (append-only)."""
        alts = term[1] if tag(term) == 'phi' else ((T.TRUE, term),)
        out = []
        for g, t in alts:
            if tag(t) == 'phi':
                for g2, els in self._appends(nm, t):
                    out.append((T.mk_and([g, g2]), els))
                continue
            els = self._append_elems(nm, t)
            if els is None:
                raise AnalysisError(self.rule, f'accumulator {nm!r} is not append-only: '
                                               f'{T.show(t, maxlen=160)}')
            out.append((g, els))
        return out

    def _append_elems(self, nm, t):
        lphi = ('lphi', self.lid, nm)
        if t == lphi:
            return []
        if tag(t) == 'bin' and t[1] == '+' and tag(t[3]) == 'list':
            base = self._append_elems(nm, t[2])
            return None if base is None else base + list(t[3][1])
        if tag(t) == 'mcall' and t[2] == 'append' and len(t[3]) == 1:
            base = self._append_elems(nm, t[1])
            return None if base is None else base + [t[3][0]]
        if tag(t) == 'mcall' and t[2] == 'extend' and len(t[3]) == 1 and tag(t[3][0]) == 'list':
            base = self._append_elems(nm, t[1])
            return None if base is None else base + list(t[3][0][1])
        return None

    def _check_list_uses(self, nm) -> None:
        lphi = ('lphi', self.lid, nm)

        def strip(t):
            # remove allowed contexts, then lphi must not remain
            if self._observer_of(t):
                return T.NONE
            return t
        for vn, d in self.vars.items():
            body = d['body']
            if vn == nm:
                for _, els in self._appends(nm, body):
                    for e in els:
                        if T.contains(self._strip_obs(e), lambda x: x == lphi):
                            raise AnalysisError(self.rule, f'list {nm!r} read directly')
                guards = [g for g, _ in (body[1] if tag(body) == 'phi' else ())]
                for g in guards:
                    if T.contains(self._strip_obs(g), lambda x: x == lphi):
                        raise AnalysisError(self.rule, f'list {nm!r} read directly in a guard')
            else:
                if T.contains(self._strip_obs(body), lambda x: x == lphi):
                    raise AnalysisError(self.rule, f'list {nm!r} read directly by {vn!r}')

    def _strip_obs(self, t):
        mapping = {}
        for sub in T.walk(t):
            if self._observer_of(sub):
                mapping[sub] = ('obs',)
        return T.subst(t, mapping) if mapping else t

    def _relevant(self) -> set:
        rel = {self.out_var}
        changed = True
        while changed:
            changed = False
            for nm in list(rel):
                body = self.vars[nm]['body']
                for sub in T.walk(body):
                    if tag(sub) == 'lphi' and sub[1] == self.lid and sub[2] not in rel \
                            and sub[2] in self.vars:
                        rel.add(sub[2])
                        changed = True
        return rel

    # ------------------------------------------------------------------ semantics (checker-defined)
    def init_state(self) -> tuple:
        st = []
        for nm in sorted(self.relevant):
            if nm in self.lists:
                st.append(tuple(0 for ob in self.observers if ob[0] == nm))
            else:
                init = self.vars[nm]['init']
                if not T.is_const(init):
                    raise AnalysisError(self.rule, f'initial value of {nm!r} not constant')
                st.append(init[1])
        return tuple(st)

    def _env_of(self, state):
        return dict(zip(sorted(self.relevant), state))

    def step(self, state, sym):
        """(outputs appended to the accumulator, next state)."""
        env = self._env_of(state)
        new = {}
        outputs = None
        for nm in sorted(self.relevant):
            body = self.vars[nm]['body']
            if nm in self.lists:
                chosen = None
                for g, els in self._appends(nm, body):
                    if self._eval(g, env, sym) is True:
                        if chosen is not None:
                            raise AnalysisError(self.rule, 'overlapping branch guards')
                        chosen = [self._eval(e, env, sym) for e in els]
                if chosen is None:
                    raise AnalysisError(self.rule, 'no branch guard holds')
                obs = [ob for ob in self.observers if ob[0] == nm]
                cur = list(env[nm])
                for i, ob in enumerate(obs):
                    if ob[1] == 'len':
                        cur[i] += len(chosen)
                    else:
                        cur[i] += sum(1 for x in chosen if x is ob[2] or
                                      (x == ob[2] and type(x) is type(ob[2])))
                new[nm] = tuple(cur)
                if nm == self.out_var:
                    outputs = tuple(chosen)
            else:
                new[nm] = self._eval(body, env, sym)
        return outputs, tuple(new[nm] for nm in sorted(self.relevant))

    def _eval(self, t, env, sym):
        tg = tag(t)
        if tg == 'c':
            return t[1]
        if tg == 'lv' and t[1] == self.lid and t[2] == 'elem':
            return sym
        if tg == 'lphi' and t[1] == self.lid:
            v = env[t[2]]
            if t[2] in self.lists:
                raise AnalysisError(self.rule, f'list {t[2]!r} used as a value')
            return v
        ob = self._observer_of(t)
        if ob:
            idx = [o for o in self.observers if o[0] == ob[0]].index(ob)
            return env[ob[0]][idx]
        if tg == 'phi':
            hit = [v for g, v in t[1] if self._eval(g, env, sym) is True]
            if len(hit) != 1:
                raise AnalysisError(self.rule, 'phi guards not exclusive/exhaustive')
            return self._eval(hit[0], env, sym)
        if tg == 'cmp':
            a, b = self._eval(t[2], env, sym), self._eval(t[3], env, sym)
            return {'lt': a < b, 'le': a <= b, 'eq': a == b, 'ne': a != b}[t[1]] \
                if t[1] in ('lt', 'le', 'eq', 'ne') else self._bad(t)
        if tg in ('and', 'or'):
            # conjuncts are kept in canonical, not in source order: a lookup that is out of range in one operand is
            # harmless when another operand decides the outcome (that operand is the guard written in front of it)
            vals, oob = [], None
            for x in t[1]:
                try:
                    vals.append(bool(self._eval(x, env, sym)))
                except _OutOfRange as err:
                    oob = err
            decided = (False in vals) if tg == 'and' else (True in vals)
            if decided:
                return tg == 'or'
            if oob is not None:
                raise oob
            return tg == 'and'
        if tg == 'sub' and (tag(t[1]) in ('list', 'tuple') or (T.is_const(t[1]) and isinstance(t[1][1], tuple))):
            items = [x[1] for x in t[1][1]] if tag(t[1]) in ('list', 'tuple') else list(t[1][1])
            if tag(t[1]) in ('list', 'tuple') and not all(T.is_const(x) for x in t[1][1]):
                return self._bad(t)
            i = self._eval(t[2], env, sym)
            if not isinstance(i, int) or isinstance(i, bool) or not -len(items) <= i < len(items):
                raise _OutOfRange(self.rule, f'lookup {T.show(t, maxlen=100)} out of range for index {i!r} (IndexError)')
            return items[i]
        if tg == 'not':
            return not self._eval(t[1], env, sym)
        if tg == 'bin':
            a, b = self._eval(t[2], env, sym), self._eval(t[3], env, sym)
            if t[1] == '+':
                return a + b
            if t[1] == '-':
                return a - b
            if t[1] == '*':
                return a * b
            if t[1] == '//':
                return a // b
            if t[1] == '%':
                return a % b
            return self._bad(t)
        if tg == 'un' and t[1] == '-':
            return -self._eval(t[2], env, sym)
        if tg == 'ifexp':
            return self._eval(t[2] if self._eval(t[1], env, sym) else t[3], env, sym)
        if tg == 'call' and t[1] in (('g', 'builtins.min'), ('g', 'builtins.max')):
            vals = [self._eval(x, env, sym) for x in t[2]]
            return min(vals) if t[1][1].endswith('min') else max(vals)
        if tg == 'call' and t[1] in (('g', 'builtins.bool'), ('g', 'builtins.int')) and len(t[2]) == 1:
            v = self._eval(t[2][0], env, sym)
            return bool(v) if t[1][1].endswith('bool') else int(v)
        return self._bad(t)

    def _bad(self, t):
        raise AnalysisError(self.rule, f'term outside the fold subset: {T.show(t, maxlen=160)}')


def explore(fold: Fold, alphabet, observer_init, observer_step, bound: int = 10000):
    """BFS over (implementation state, observer state).
    observer_step(obs, sym, outputs) -> (new obs, error message or None).
    Returns (states, transitions, counterexample or None, sample transitions)."""
    init = (fold.init_state(), observer_init)
    seen = {init: None}
    todo = deque([init])
    ntrans = 0
    samples = []
    while todo:
        cur = todo.popleft()
        ist, obs = cur
        for sym in alphabet:
            outs, nist = fold.step(ist, sym)
            nobs, err = observer_step(obs, sym, outs)
            ntrans += 1
            if len(samples) < 12:
                samples.append({'state': repr(ist), 'symbol': sym, 'output': list(outs),
                                'next': repr(nist)})
            if err:
                trace = [sym]
                back = cur
                while seen[back] is not None:
                    back, s = seen[back]
                    trace.append(s)
                return len(seen), ntrans, {'input': trace[::-1], 'error': err,
                                           'output_at_last_step': list(outs)}, samples
            nxt = (nist, nobs)
            if nxt not in seen:
                seen[nxt] = (cur, sym)
                if len(seen) > bound:
                    raise AnalysisError(fold.rule, f'more than {bound} reachable abstract states')
                todo.append(nxt)
    return len(seen), ntrans, None, samples
