"""The documented entry points of ampycloud (DESIGN.md, Appendix A).  The rules anchor in these functions and treat
calls to them as atomic; every *other* function of the package is a helper: the analyses look through it (it is
expanded at its call sites, parameters bound to the arguments), so that extracting a block into a new function - in
the same module or in another one - or inlining one changes nothing of what the rules see."""
from __future__ import annotations

import ast

ANCHORS = {
    'ampycloud.core.run', 'ampycloud.core.metar', 'ampycloud.core.demo', 'ampycloud.core.set_prms',
    'ampycloud.core.reset_prms', 'ampycloud.core.copy_prm_file',
    'ampycloud.icao.significant_cloud',
    'ampycloud.wmo.perc2okta', 'ampycloud.wmo.okta2code', 'ampycloud.wmo.okta2symb', 'ampycloud.wmo.height2code',
    'ampycloud.scaler.shift_and_scale', 'ampycloud.scaler.minmax_scale', 'ampycloud.scaler.minrange2minmax',
    'ampycloud.scaler.step_scale', 'ampycloud.scaler.convert_kwargs', 'ampycloud.scaler.apply_scaling',
    'ampycloud.utils.utils.check_data_consistency', 'ampycloud.utils.utils.tmp_seed',
    'ampycloud.utils.utils.adjust_nested_dict', 'ampycloud.utils.utils.calc_base_height',
    'ampycloud.layer.scores2nrl', 'ampycloud.layer.best_gmm', 'ampycloud.layer.ncomp_from_gmm',
    'ampycloud.cluster.agglomerative_cluster', 'ampycloud.cluster.clusterize',
    'ampycloud.fluffer.get_fluffiness',
    'ampycloud.dynamic.get_default_prms',
    'ampycloud.logger.log_func_call',
    'ampycloud.plots.core.diagnostic', 'ampycloud.plots.secondary.scaling_fcts',
    'ampycloud.plots.tools.set_mplstyle', 'ampycloud.plots.tools.texify', 'ampycloud.plots.tools.get_scaling_kwargs',
    'ampycloud.plots.tools.style_pth', 'ampycloud.plots.tools.valid_styles',
}
OPAQUE_MODULES = ('ampycloud.utils.mocker', 'ampycloud.__main__', 'ampycloud.logger', 'ampycloud.version',
                  'ampycloud.plots.')
PUBLIC_CLASSES = ('ampycloud.data.CeiloChunk', 'ampycloud.data.AbstractChunk', 'ampycloud.plots.diagnostics.DiagnosticPlot')


_PUB: dict = {}


def _public_class(project, cls) -> bool:
    """Is cls one of the public classes, or a base / mixin one of them inherits from?  (Every method of any other class
    - a private helper class used by composition - is a helper, its constructor included.)"""
    key = (id(project), cls.qname)
    if key not in _PUB:
        out = cls.qname in PUBLIC_CLASSES
        for pq in PUBLIC_CLASSES:
            k = project.classes.get(pq)
            if k is not None and any(b.qname == cls.qname for b in project.mro(k)):
                out = True
        _PUB[key] = out
    return _PUB[key]


def is_helper(project, q: str) -> bool:
    """A package function the analyses look through (not a documented anchor, not a public stage method)."""
    f = project.funcs.get(q)
    if f is None or q in ANCHORS or '<locals>' in q:
        return False
    mod = f.module.name
    if any(mod == m or (m.endswith('.') and mod.startswith(m)) for m in OPAQUE_MODULES):
        return False
    if f.cls is not None and _public_class(project, f.cls):
        # methods of the chunk / plot classes (or of a mixin they inherit from): only private ones are helpers (the public
        # ones are stage entry points)
        if not (f.name.startswith('_') and not f.name.startswith('__')):
            return False
    if any(d.endswith('contextmanager') for d in f.decorators):
        return False
    if any(isinstance(n, ast.YieldFrom) for n in ast.walk(f.node)):
        return False
    return True
