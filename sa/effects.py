"""E1 call graph and E4 effects (mutation / ownership, global reads, RNG, matplotlib state)."""
from __future__ import annotations

from collections import defaultdict

from . import terms as T
from .anchors import is_helper
from .core import AnalysisError, Project
from .symexec import Executor, Event
from .terms import tag

PRMS_GLOBAL = 'ampycloud.dynamic.AMPYCLOUD_PRMS'

# external callables whose result aliases (reaches into) an argument: name -> arg index
ALIAS_FUNCS = {'builtins.getattr': 0, 'builtins.vars': 0, 'builtins.iter': 0, 'builtins.next': 0,
               'builtins.reversed': 0, 'builtins.enumerate': 0, 'builtins.zip': 0,
               'numpy.asarray': 0, 'numpy.ravel': 0, 'numpy.reshape': 0, 'numpy.squeeze': 0,
               'numpy.atleast_1d': 0, 'numpy.atleast_2d': 0, 'numpy.transpose': 0}
ALIAS_METHODS = {'get', 'setdefault', 'items', 'values', 'keys', '__getitem__', 'view', 'reshape',
                 'ravel', 'squeeze', 'transpose', 'swapaxes', 'by_key'}
SHALLOW_COPY_FUNCS = {'copy.copy', 'builtins.dict', 'builtins.list', 'builtins.tuple', 'builtins.set',
                      'builtins.sorted', 'collections.OrderedDict'}
DEEP_COPY_FUNCS = {'copy.deepcopy'}
DICT_PARAM_NAMES = {'prms', 'ref_dict', 'new_dict', 'kwargs', 'dt_kwargs', 'height_kwargs',
                    'layer_base_params', 'req_cols', 'user_prms', 'default_prms', 'full_prms'}


VALUE_RETURNING_MUTATORS = {'setdefault', 'pop', 'popitem'}


class Effects:
    def __init__(self, project: Project):
        self.p = project
        self.ex = Executor(project)
        self.summ = {}
        for q, f in project.funcs.items():
            self.summ[q] = self.ex.run(f)
        self._build_callgraph()
        self._mut = None
        self._ret_alias = None
        self._deep = {}
        self._deep_sites = {}

    # ------------------------------------------------------------------ events
    def events(self, q: str) -> list:
        """All events of function q (its own statements and the property getters it reads)."""
        return self.summ[q].events

    def own_events(self, q: str) -> list:
        return [e for e in self.summ[q].events if not e.ctx]

    def deep(self, q: str, binding=None):
        """Summary of q with the *private helpers of its own module* expanded at their call sites
        (so that extracting a helper, or inlining one, does not change what the rules see)."""
        key = (q, tuple(sorted((binding or {}).items())))
        if key not in self._deep:
            f = self.p.funcs[q]
            mod = f.module.name

            def inline(cq, depth):
                cf = self.p.funcs.get(cq)
                return cq != q and (is_helper(self.p, cq) or (
                    cf is not None and cf.module.name == mod and cf.name.startswith('_')
                    and not cf.name.startswith('__')))
            ex = Executor(self.p, inline=inline, max_depth=7)
            self._deep[key] = (ex, ex.run(f, binding or {}))
        return self._deep[key]

    def deep_events(self, q: str, binding=None) -> list:
        """Events of q and of the private same-module helpers it calls (property getters excluded),
        in execution order."""
        ex, s = self.deep(q, binding)
        out = []
        for e in s.events:
            if all(not self.p.funcs[fr.callee].is_property for fr in e.ctx if fr.callee in self.p.funcs):
                out.append(e)
        return out

    def deep_sites(self, callee: str) -> list:
        """[(entry qname, call event)]: the calls of `callee` as seen from the documented entry points that reach it
        (stage methods and anchors), with every helper in between expanded - the guard of the event is then the whole
        condition under which the entry point gets there."""
        from .anchors import ANCHORS, PUBLIC_CLASSES
        if callee in self._deep_sites:
            return self._deep_sites[callee]
        entries = [q for q in self.summ if (q in ANCHORS or (
            self.p.funcs[q].cls is not None and self.p.funcs[q].cls.qname in PUBLIC_CLASSES
            and not self.p.funcs[q].name.startswith('_') and not self.p.funcs[q].is_property)) and q != callee]
        out, seen = [], set()
        for q in sorted(entries):
            if callee not in self.reachable([q], include_possible=False):
                continue
            for e in self.deep_events(q):
                if e.kind == 'call' and tag(e.call) == 'call' and e.call[1] == ('g', callee):
                    key = (id(e.node), T.key(e.guard))
                    if key not in seen:
                        seen.add(key)
                        out.append((q, e))
        self._deep_sites[callee] = out
        return out

    def deep_loops(self, q: str, binding=None) -> dict:
        return self.deep(q, binding)[0].loops

    def all_events(self):
        for q in self.summ:
            for e in self.own_events(q):
                yield q, e

    def anchor_events(self):
        """(function, event) over the functions that are not helpers, each with its helpers expanded: a who-may rule then
        judges a helper where it is used (its parameters bound, under the caller's name), never on its own."""
        if not hasattr(self, '_anchor_events'):
            out = []
            for q in sorted(self.summ):
                if is_helper(self.p, q) or '<locals>' in q:
                    continue
                seen = set()
                for e in self.deep_events(q):
                    key = (id(e.node), e.kind, e.ctx and id(e.ctx[-1].node))
                    if key in seen:
                        continue
                    seen.add(key)
                    out.append((q, e))
            self._anchor_events = out
        return self._anchor_events

    # ------------------------------------------------------------------ call graph
    def _build_callgraph(self) -> None:
        self.callees = defaultdict(set)   # q -> set of qnames (package and external)
        self.callers = defaultdict(set)
        self.sites = defaultdict(list)    # callee q -> [(caller q, event)]
        self.possible = defaultdict(set)  # CHA edges for untyped receivers
        meth_index = defaultdict(set)
        for k in self.p.classes.values():
            for nm, m in k.methods.items():
                meth_index[nm].add(m.qname)
        for q in self.summ:
            for e in self.own_events(q):
                if e.kind not in ('call', 'propget'):
                    continue
                c = e.call
                head = None
                if tag(c) == 'call' and tag(c[1]) == 'g':
                    head = c[1][1]
                    if head in self.p.classes:
                        init = self.p.find_method(self.p.classes[head], '__init__')
                        if init is not None:
                            self._edge(q, init.qname, e)
                elif tag(c) == 'mcall':
                    for cand in meth_index.get(c[2], ()):
                        self.possible[q].add(cand)
                    head = f'?.{c[2]}'
                if head:
                    self._edge(q, head, e)
            # decorators are calls too
            f = self.p.funcs[q]
            for d in f.decorators:
                if d in self.p.funcs:
                    self.callees[q].add(d)

    def _edge(self, a, b, e) -> None:
        self.callees[a].add(b)
        self.callers[b].add(a)
        self.sites[b].append((a, e))

    def reachable(self, entries, include_possible=True) -> set:
        seen, todo = set(), [e for e in entries]
        while todo:
            q = todo.pop()
            if q in seen or q not in self.summ:
                continue
            seen.add(q)
            todo.extend(c for c in self.callees[q] if c in self.summ)
            if include_possible:
                todo.extend(self.possible[q])
            # nested functions are part of their parents
            todo.extend(n for n in self.summ if n.startswith(q + '.<locals>.'))
        return seen

    def processing_entries(self) -> list:
        out = ['ampycloud.core.run', 'ampycloud.core.metar']
        for cq in ('ampycloud.data.CeiloChunk', 'ampycloud.data.AbstractChunk'):
            k = self.p.classes.get(cq)
            if k is None:
                raise AnalysisError('E1', f'anchor class vanished: {cq}')
            for nm, m in k.methods.items():
                out.append(m.qname)
        return out

    # ------------------------------------------------------------------ ownership
    def dictish(self, t, func=None) -> bool:
        r = T.root(t)
        tg = tag(r)
        if tg == 'g':
            return r[1] == PRMS_GLOBAL
        if tg == 'prm' or tag(t) == 'prm':
            return True
        if tg == 'attr' and r[2] == '_prms':
            return True
        if tg == 'p':
            nm = r[1].lstrip('*')
            if nm in DICT_PARAM_NAMES:
                return True
            if func is not None:
                for a in func.node.args.args + func.node.args.kwonlyargs:
                    if a.arg == nm and a.annotation is not None:
                        import ast as _ast
                        txt = _ast.unparse(a.annotation)
                        if 'dict' in txt.lower():
                            return True
        if tg in ('dict', 'kwrest'):
            return True
        if tg == 'call' and tag(r[1]) == 'g' and (
                r[1][1].endswith('get_default_prms') or r[1][1].endswith('.load')
                or r[1][1].endswith('safe_load') or r[1][1] in ('builtins.dict',)):
            return True
        if tg == 'call' and tag(r[1]) == 'g' and r[1][1] in DEEP_COPY_FUNCS | SHALLOW_COPY_FUNCS \
                and r[2]:
            return self.dictish(r[2][0], func)
        if tg == 'mcall' and r[2] == 'copy':
            return self.dictish(r[1], func)
        return False

    def origin(self, t, deep: bool, func, _depth=0) -> set:
        """Set of (root term, deep) that a mutation of `t` (at top level if not deep, below otherwise)
        may modify.  Fresh objects give the empty set."""
        if _depth > 40:
            return {(('unk', 'depth'), deep)}
        rec = lambda x, d: self.origin(x, d, func, _depth + 1)  # noqa: E731
        tg = tag(t)
        if tg in ('p', 'g', 'free'):
            return {(t, deep)}
        if tg == 'attr':
            if tag(t[1]) == 'p' and t[1][1] == 'self':
                return {(t, deep)}
            return rec(t[1], True)
        if tg == 'prm':
            return {(('attr', ('p', 'self'), '_prms'), True)}
        if tg in ('col', 'sub', 'cell'):
            return rec(t[1], True)
        if tg == 'acc':
            return rec(t[2], deep)
        if tg in ('mask', 'cols', 'rows', 'vals', 'index', 'columns'):
            return set()
        if tg == 'upd':
            return rec(t[1], deep)
        if tg == 'phi':
            out = set()
            for _, v in t[1]:
                out |= rec(v, deep)
            return out
        if tg == 'loopres':
            return rec(t[3], deep) | rec(t[4], deep)
        if tg == 'lphi':
            loop = self.ex.loops.get(t[1])
            if loop is not None and t[2] in loop.init:
                return rec(loop.init[t[2]], deep)
            return set()
        if tg == 'lv':
            loop = self.ex.loops.get(t[1])
            if loop is not None and loop.iter is not None:
                return rec(loop.iter, True)
            return set()
        if tg in ('kwrest',):
            return rec(t[1], True) if deep else set()
        if tg == 'kwget':
            return rec(t[1], True)
        if tg == 'ifexp':
            return rec(t[2], deep) | rec(t[3], deep)
        if tg == 'withval':
            return set()
        if tg == 'bound':
            return rec(t[1], True)
        if tg == 'call':
            fn = t[1]
            if tag(fn) == 'g':
                q = fn[1]
                if q in DEEP_COPY_FUNCS:
                    return set()
                if q in SHALLOW_COPY_FUNCS:
                    if deep and t[2] and self.dictish(t[2][0], func):
                        return rec(t[2][0], True)
                    return set()
                if q in ALIAS_FUNCS and len(t[2]) > ALIAS_FUNCS[q]:
                    return rec(t[2][ALIAS_FUNCS[q]], True)
                if q in self.p.funcs or q in self.p.classes:
                    return self._call_origin(q, t[2], t[3], deep, func, _depth)
                return set()
            return set()
        if tg == 'mcall':
            if t[2] == 'copy':
                if deep and self.dictish(t[1], func):
                    return rec(t[1], True)
                return set()
            if t[2] in ALIAS_METHODS:
                return rec(t[1], True)
            if t[2] in ('fit',):
                return rec(t[1], deep)
            # in-place style rewrites produced by the executor keep identity
            return set()
        if tg == 'lc':
            # {k: copy.copy(v) for k, v in X.items()} / [x for x in X]: the container is new, its elements are
            # those of X unless each one is deep-copied
            if not deep:
                return set()
            out = set()
            cvs = [x for x in T.walk(t[2]) if tag(x) == 'cv']
            if not cvs:
                return set()
            protected = T.subst(t[2], {c: ('fresh',) for c in T.walk(t[2])
                                       if tag(c) == 'call' and tag(c[1]) == 'g' and c[1][1] in DEEP_COPY_FUNCS})
            if not T.contains(protected, lambda x: tag(x) == 'cv'):
                return set()
            for it, _ in t[3]:
                out |= rec(it, True)
            return out
        if tg == 'bin':
            # list + list, array arithmetic: new object; the elements of a concatenation of lists are those of the operands
            if deep and t[1] == '+' and any(tag(x) in ('list', 'tuple', 'lc') for x in (t[2], t[3])):
                return rec(t[2], True) | rec(t[3], True)
            return set()
        if tg in ('list', 'tuple', 'set'):
            # a literal container is new; what it holds is what was put in
            if not deep:
                return set()
            out = set()
            for x in t[1]:
                out |= rec(x, True)
            return out
        return set()

    def _call_origin(self, q, args, kws, deep, func, _depth) -> set:
        """Roots the result of a package call may alias (from the callee's return-alias summary)."""
        if q in self.p.classes:
            return set()
        out = set()
        ra = (self._ret_alias or {}).get(q, set())
        if not ra:
            return out
        binding = self._bind(self.p.funcs[q], args, kws)
        for (rk, pdeep) in ra:
            if rk[0] == 'param' and rk[1] in binding:
                out |= self.origin(binding[rk[1]], deep or pdeep, func, _depth + 1)
            elif rk[0] == 'global':
                out.add((('g', rk[1]), deep or pdeep))
            elif rk[0] == 'self' and 'self' in binding:
                out |= self.origin(('attr', binding['self'], rk[1]), deep or pdeep, func, _depth + 1)
        return out

    def _bind(self, f, args, kws):
        a = f.node.args
        names = [x.arg for x in a.posonlyargs + a.args]
        b = {}
        for nm, v in zip(names, args):
            b[nm] = v
        for k, v in kws:
            if k is not None:
                b[k] = v
            elif a.kwarg is not None:
                b[a.kwarg.arg] = ('kwrest', v)
        return b

    def mutation_events(self, q: str) -> list:
        """[(event, base term, deep?)] for the direct mutations in q's own statements."""
        out = []
        for e in self.own_events(q):
            if e.kind in ('store', 'del', 'mutcall'):
                out.append((e, e.base, False))
            elif e.kind == 'aug':
                # x += y on a name mutates lists/arrays in place; on attributes/subscripts it is a store
                out.append((e, e.base, False))
            elif e.kind == 'call' and tag(e.call) == 'mcall' and e.call[2] in VALUE_RETURNING_MUTATORS and \
                    not (e.call[2] == 'pop' and tag(T.peel(e.call[1])) in ('col', 'mask', 'vals')):
                # d.setdefault(k, v) / xs.pop() inside an expression: the receiver is modified as well
                out.append((e, e.call[1], False))
            elif e.kind == 'call' and tag(e.call) == 'call' and e.call[1] == ('g', 'builtins.next') and e.call[2]:
                # next(it) advances the iterator: a module-level itertools.count() / generator is shared state
                out.append((e, e.call[2][0], False))
        return out

    def compute_mutations(self) -> None:
        if self._mut is not None:
            return
        self._mut = {q: set() for q in self.summ}       # q -> {(rootkey, deep)}
        self._mut_why = {q: {} for q in self.summ}      # q -> {(rootkey, deep): (event, via)}
        self._ret_alias = {q: set() for q in self.summ}
        for _ in range(12):
            changed = False
            for q, s in self.summ.items():
                f = self.p.funcs[q]
                # return aliases
                for want_deep in (False, True):
                    for (r, deep) in self.origin(s.ret, want_deep, f):
                        if tag(r) in ('p', 'g', 'attr'):
                            key = (self._key(r), deep)
                            if key not in self._ret_alias[q]:
                                self._ret_alias[q].add(key)
                                changed = True
                # direct mutations
                for e, base, deep in self.mutation_events(q):
                    if e.kind == 'aug' and tag(e.target) != 'attr' and e.base == e.target \
                            and not self._aug_mutates(e):
                        continue
                    for (r, d) in self.origin(base, deep, f):
                        changed |= self._add_mut(q, r, d, e, None)
                # mutations through package callees
                for e in self.own_events(q):
                    if e.kind not in ('call', 'propget') or tag(e.call) != 'call' \
                            or tag(e.call[1]) != 'g':
                        continue
                    cq = e.call[1][1]
                    if cq in self.p.classes:
                        init = self.p.find_method(self.p.classes[cq], '__init__')
                        if init is None:
                            continue
                        cf, args = init, (('new', cq, ''),) + tuple(e.call[2])
                    elif cq in self.p.funcs:
                        cf, args = self.p.funcs[cq], e.call[2]
                    else:
                        continue
                    binding = self._bind(cf, args, e.call[3])
                    for (rk, d) in list(self._mut[cf.qname]):
                        if rk[0] == 'param':
                            if rk[1] in binding:
                                for (r2, d2) in self.origin(binding[rk[1]], d, f):
                                    changed |= self._add_mut(q, r2, d2, e, cf.qname)
                        elif rk[0] == 'global':
                            changed |= self._add_mut_key(q, rk, d, e, cf.qname)
                        elif rk[0] == 'self':
                            recv = binding.get('self')
                            if recv is not None:
                                for (r2, d2) in self.origin(('attr', recv, rk[1]), d, f):
                                    changed |= self._add_mut(q, r2, d2, e, cf.qname)
            if not changed:
                break

    def _aug_mutates(self, e: Event) -> bool:
        """`name op= value`: in place only for lists / arrays; numbers and strings rebind."""
        v = e.value
        if tag(v) == 'bin':
            rhs = v[3]
            if tag(rhs) in ('list',) or (tag(v[2]) in ('list', 'loopres', 'lphi') and tag(rhs) == 'list'):
                return True
            if T.is_const(rhs) and isinstance(rhs[1], (int, float, str, bool)):
                return False
            if tag(rhs) == 'fstr' or tag(v[2]) == 'fstr':
                return False
            if T.is_const(v[2]):
                return False
        if tag(v) == 'list':
            return True
        # unknown right-hand side (could be an array): only parameters / globals matter
        return tag(T.root(e.base)) in ('p', 'g')

    def _key(self, r):
        tg = tag(r)
        if tg == 'p':
            return ('param', r[1])
        if tg == 'g':
            return ('global', r[1])
        if tg == 'attr':
            return ('self', r[2])
        if tg == 'free':
            return ('free', r[1])
        return ('other', T.show(r, maxlen=60))

    def _add_mut(self, q, r, deep, e, via) -> bool:
        return self._add_mut_key(q, self._key(r), deep, e, via)

    def _add_mut_key(self, q, key, deep, e, via) -> bool:
        k = (key, deep)
        if k in self._mut[q]:
            return False
        self._mut[q].add(k)
        self._mut_why[q][k] = (e, via)
        return True

    def mutations(self, q: str) -> dict:
        self.compute_mutations()
        return {k: self._mut_why[q][k] for k in self._mut[q]}

    def explain(self, q: str, key) -> list:
        """Chain of (function, event) from q down to the statement that performs the mutation."""
        self.compute_mutations()
        out, seen = [], set()
        cur_q, cur_k = q, key
        while (cur_q, cur_k) not in seen:
            seen.add((cur_q, cur_k))
            why = self._mut_why[cur_q].get(cur_k)
            if why is None:
                break
            e, via = why
            out.append((cur_q, e))
            if via is None:
                break
            # find the callee key that produced it
            nxt = None
            for k2 in self._mut[via]:
                nxt = k2 if nxt is None else nxt
                if k2[0][0] == cur_k[0][0] == 'global' and k2[0] == cur_k[0]:
                    nxt = k2
                    break
            if nxt is None:
                break
            cur_q, cur_k = via, nxt
        return out

    # ------------------------------------------------------------------ generic scans
    def terms_of(self, e: Event):
        for nm in ('target', 'value', 'call', 'base', 'guard'):
            v = getattr(e, nm)
            if v is not None:
                yield nm, v

    def global_reads(self, gq: str):
        """[(function q, event, context description)] for every own event whose terms mention the
        global gq (stores *to* the global's own binding excluded)."""
        out = []
        g = ('g', gq)
        for q, e in self.anchor_events():
            for nm, v in self.terms_of(e):
                if nm == 'guard':
                    continue
                if T.contains(v, lambda x: x == g):
                    out.append((q, e, nm))
                    break
        return out
