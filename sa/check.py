"""Entry point:  check.py <ID> [--tier quick|thorough] [--replay <path>]

exit 0  every obligation of the property discharged on the current tree (known findings printed)
exit 1  + 'VIOLATION property=<id> replay=<path>'  an obligation failed on a construct not listed
exit 2  + 'ANALYSIS-ERROR ...'  the analysis could not be carried out (fail-closed, never a pass)
"""
from __future__ import annotations

import argparse
import importlib
import json
import os
import sys
import traceback
from pathlib import Path

sys.path.insert(0, str(Path(__file__).resolve().parent.parent))

from sa.core import AnalysisError  # noqa: E402
from sa.report import Ctx  # noqa: E402


def self_validate(ctx, prop) -> None:
    """E9: the rules of this property against edited scratch copies of the current tree - breaking
    variants must be reported, behaviour-preserving ones must stay silent (analysed, never executed)."""
    from sa import selftest
    results = selftest.run_all({prop})
    summary = selftest.summarize(results)
    ctx.extra['self_validation'] = {
        'variants': len(results), 'summary': summary,
        'results': [{k: r.get(k) for k in ('id', 'kind', 'result', 'rules')} for r in results]}
    for r in results:
        if r['result'] in ('caught', 'silent'):
            ctx.ok('E9', f"variant {r['id']} ({r['kind']}): {r['result']}"
                         + (f" by {','.join(r.get('rules') or [])}" if r['kind'] == 'break' else ''), '')
    bad = [r for r in results if r['result'] in ('MISSED', 'FALSE-ALARM', 'analysis-error')]
    if bad:
        raise AnalysisError('E9', 'self-validation of the rules failed on the current tree: ' + '; '.join(
            f"{r['id']} -> {r['result']} {r.get('error') or ''}" for r in bad[:5]))


def main(argv=None) -> int:
    ap = argparse.ArgumentParser()
    ap.add_argument('prop')
    ap.add_argument('--tier', default=os.environ.get('VERIF_TIER') or 'quick',
                    choices=['quick', 'thorough'])
    ap.add_argument('--replay', default=None)
    args = ap.parse_args(argv)
    prop = args.prop.upper()
    try:
        mod = importlib.import_module(f'sa.props.{prop.lower()}')
    except ModuleNotFoundError:
        print(f'ANALYSIS-ERROR property={prop} rule=E8 no check registered')
        return 2
    try:
        ctx = Ctx(prop, args.tier, level=getattr(mod, 'LEVEL', 'other'), replay=args.replay)
        try:
            mod.check(ctx)
        except AnalysisError as err:
            # a rule could not be evaluated. When earlier rules have already reported violations the run ends as a
            # report of those (the construct that stopped the later rule is usually the one they name); on a tree
            # without violations it stays an analysis error (exit 2), like a missed floor
            if not any(o['status'] == 'violation' for o in ctx.obligations):
                raise
            print(f'NOTE property={prop} rule={err.rule} could not be evaluated after the violations below: {err.why}')
            return ctx.finish()
        if args.tier == 'thorough':
            if hasattr(mod, 'thorough'):
                mod.thorough(ctx)
            self_validate(ctx, prop)
        if args.replay:
            rec = json.loads(Path(args.replay).read_text())
            print(f'REPLAY rule={rec.get("rule")} function={rec.get("function")}')
            print(f'  recorded: {rec.get("statement")}')
            now = [o for o in ctx.obligations if o['rule'] == rec.get('rule')
                   and o.get('function') == rec.get('function')
                   and o.get('statement') == rec.get('statement')]
            for o in now:
                print(f'  now: status={o["status"]} loc={o["loc"]} {o["detail"]}')
                print('  facts: ' + json.dumps(o.get('facts', {}), default=str)[:2000])
            if not now:
                print('  now: this rule instance no longer fails (or no longer exists)')
        return ctx.finish()
    except AnalysisError as err:
        print(f'ANALYSIS-ERROR property={prop} rule={err.rule} {err.why}')
        return 2
    except Exception:  # pylint: disable=broad-except
        traceback.print_exc()
        print(f'ANALYSIS-ERROR property={prop} rule=E8 internal error (traceback above)')
        return 2


if __name__ == '__main__':
    sys.exit(main())
