"""E0 - loader and resolver.

Parses every module of the package under analysis (never imports it), builds module / class /
function tables and resolves names and attribute chains to canonical dotted names.
Pure standard library.
"""
from __future__ import annotations

import ast
import builtins
import os
from dataclasses import dataclass, field
from pathlib import Path
from typing import Optional

REPO = Path(os.environ.get('VERIF_REPO', '/repo'))
PKG = 'ampycloud'


class AnalysisError(Exception):
    """The analysis itself cannot proceed (anchor vanished, unsupported construct, floor missed).
    Mapped to exit code 2, never to a VIOLATION."""

    def __init__(self, rule: str, why: str):
        super().__init__(f'{rule}: {why}')
        self.rule = rule
        self.why = why


@dataclass
class Func:
    qname: str
    node: ast.FunctionDef
    module: 'Module'
    cls: Optional['Klass'] = None
    decorators: list = field(default_factory=list)  # resolved decorator names
    local_imports: dict = field(default_factory=dict)
    parent: Optional['Func'] = None  # enclosing function for nested defs

    @property
    def name(self) -> str:
        return self.node.name

    @property
    def is_property(self) -> bool:
        return 'builtins.property' in self.decorators

    @property
    def is_static(self) -> bool:
        return 'builtins.staticmethod' in self.decorators

    @property
    def params(self) -> list:
        a = self.node.args
        return [x.arg for x in a.posonlyargs + a.args]

    def loc(self, node: Optional[ast.AST] = None) -> str:
        n = node if node is not None and hasattr(node, 'lineno') else self.node
        return f'{self.module.relpath}:{n.lineno}'


@dataclass
class Klass:
    qname: str
    node: ast.ClassDef
    module: 'Module'
    bases: list = field(default_factory=list)  # resolved base names
    methods: dict = field(default_factory=dict)  # name -> Func
    class_attrs: dict = field(default_factory=dict)  # name -> ast value


@dataclass
class Module:
    name: str
    path: Path
    relpath: str
    tree: ast.Module
    source: str
    imports: dict = field(default_factory=dict)  # local name -> dotted target
    star_imports: list = field(default_factory=list)
    functions: dict = field(default_factory=dict)  # name -> Func
    classes: dict = field(default_factory=dict)  # name -> Klass
    globals: dict = field(default_factory=dict)  # name -> list of ast value nodes (assignments)
    is_pkg: bool = False


def _abs_module(cur: str, is_pkg: bool, level: int, mod: Optional[str]) -> str:
    if level == 0:
        return mod or ''
    parts = cur.split('.')
    if not is_pkg:
        parts = parts[:-1]
    if level > 1:
        parts = parts[:-(level - 1)]
    if mod:
        parts = parts + mod.split('.')
    return '.'.join(parts)


class Project:
    """All modules of the package, parsed from the current working tree."""

    def __init__(self, repo: Path = REPO, pkg: str = PKG):
        self.repo = Path(repo)
        self.pkg = pkg
        self.src = self.repo / 'src' / pkg
        if not self.src.is_dir():
            raise AnalysisError('E0', f'package source directory missing: {self.src}')
        self.modules: dict[str, Module] = {}
        self.funcs: dict[str, Func] = {}
        self.classes: dict[str, Klass] = {}
        self.renamed: dict[str, str] = {}      # actual qualified name -> the name the rules know the function by
        self._load()
        self._apply_wanted_names()

    # ------------------------------------------------------------------ loading
    def _load(self) -> None:
        for path in sorted(self.src.rglob('*.py')):
            rel = path.relative_to(self.src.parent)
            parts = list(rel.with_suffix('').parts)
            is_pkg = parts[-1] == '__init__'
            if is_pkg:
                parts = parts[:-1]
            name = '.'.join(parts)
            source = path.read_text(encoding='utf-8')
            try:
                tree = ast.parse(source, filename=str(path))
            except SyntaxError as err:
                raise AnalysisError('E0', f'cannot parse {path}: {err}') from err
            for parent in ast.walk(tree):
                for child in ast.iter_child_nodes(parent):
                    child._parent = parent  # type: ignore[attr-defined]
            mod = Module(name=name, path=path, relpath=str(path.relative_to(self.repo)),
                         tree=tree, source=source, is_pkg=is_pkg)
            self.modules[name] = mod
        for mod in self.modules.values():
            self._index_module(mod)
        # star imports need all modules indexed first
        for mod in self.modules.values():
            for target in mod.star_imports:
                tmod = self.modules.get(target)
                if tmod is None:
                    continue
                for nm in self._public_names(tmod):
                    mod.imports.setdefault(nm, self._canon(f'{target}.{nm}'))
        for mod in self.modules.values():
            self._resolve_decorators_and_bases(mod)

    def _public_names(self, mod: Module) -> list:
        names = [n for n in list(mod.functions) + list(mod.classes) + list(mod.globals)
                 + list(mod.imports) if not n.startswith('_')]
        return names

    def _index_imports(self, mod: Module, body_nodes, table: dict, stars: Optional[list]) -> None:
        for node in body_nodes:
            if isinstance(node, ast.Import):
                for al in node.names:
                    if al.asname:
                        table[al.asname] = al.name
                    else:
                        table[al.name.split('.')[0]] = al.name.split('.')[0]
            elif isinstance(node, ast.ImportFrom):
                base = _abs_module(mod.name, mod.is_pkg, node.level, node.module)
                for al in node.names:
                    if al.name == '*':
                        if stars is not None:
                            stars.append(base)
                        continue
                    table[al.asname or al.name] = f'{base}.{al.name}'

    def _index_module(self, mod: Module) -> None:
        self._index_imports(mod, [n for n in ast.walk(mod.tree)
                                  if isinstance(n, (ast.Import, ast.ImportFrom))
                                  and isinstance(getattr(n, '_parent', None), ast.Module)],
                            mod.imports, mod.star_imports)
        # imports nested in if/try at module level
        for n in ast.walk(mod.tree):
            if isinstance(n, (ast.Import, ast.ImportFrom)) and self._enclosing_func(n) is None \
                    and not isinstance(getattr(n, '_parent', None), ast.Module):
                self._index_imports(mod, [n], mod.imports, mod.star_imports)
        for node in mod.tree.body:
            self._index_stmt(mod, node)

    def _index_stmt(self, mod: Module, node: ast.AST) -> None:
        if isinstance(node, (ast.FunctionDef, ast.AsyncFunctionDef)):
            self._add_func(mod, node, None, None)
        elif isinstance(node, ast.ClassDef):
            k = Klass(qname=f'{mod.name}.{node.name}', node=node, module=mod)
            mod.classes[node.name] = k
            self.classes[k.qname] = k
            for sub in node.body:
                if isinstance(sub, (ast.FunctionDef, ast.AsyncFunctionDef)):
                    f = self._add_func(mod, sub, k, None)
                    k.methods[sub.name] = f
                elif isinstance(sub, ast.Assign):
                    for t in sub.targets:
                        if isinstance(t, ast.Name):
                            k.class_attrs[t.id] = sub.value
                elif isinstance(sub, ast.AnnAssign) and isinstance(sub.target, ast.Name) \
                        and sub.value is not None:
                    k.class_attrs[sub.target.id] = sub.value
        elif isinstance(node, ast.Assign):
            for t in node.targets:
                for nm in ast.walk(t):
                    if isinstance(nm, ast.Name):
                        mod.globals.setdefault(nm.id, []).append(node.value)
        elif isinstance(node, ast.AnnAssign) and isinstance(node.target, ast.Name):
            mod.globals.setdefault(node.target.id, []).append(node.value)
        elif isinstance(node, ast.AugAssign) and isinstance(node.target, ast.Name):
            mod.globals.setdefault(node.target.id, []).append(node.value)
        elif isinstance(node, (ast.If, ast.Try, ast.With, ast.For, ast.While)):
            for sub in ast.iter_child_nodes(node):
                if isinstance(sub, ast.stmt):
                    self._index_stmt(mod, sub)

    def _add_func(self, mod: Module, node, cls: Optional[Klass], parent: Optional[Func]) -> Func:
        if cls is not None:
            q = f'{cls.qname}.{node.name}'
        elif parent is not None:
            q = f'{parent.qname}.<locals>.{node.name}'
        else:
            q = f'{mod.name}.{node.name}'
        f = Func(qname=q, node=node, module=mod, cls=cls, parent=parent)
        if cls is None and parent is None:
            mod.functions[node.name] = f
        self.funcs[q] = f
        for sub in ast.walk(node):
            if sub is node:
                continue
            if isinstance(sub, (ast.Import, ast.ImportFrom)) and self._enclosing_func(sub) is node:
                self._index_imports(mod, [sub], f.local_imports, None)
            if isinstance(sub, (ast.FunctionDef, ast.AsyncFunctionDef)) \
                    and self._enclosing_func(sub) is node:
                self._add_func(mod, sub, None, f)
        return f

    @staticmethod
    def _enclosing_func(node: ast.AST):
        cur = getattr(node, '_parent', None)
        while cur is not None:
            if isinstance(cur, (ast.FunctionDef, ast.AsyncFunctionDef, ast.Lambda)):
                return cur
            cur = getattr(cur, '_parent', None)
        return None

    def _resolve_decorators_and_bases(self, mod: Module) -> None:
        for f in [x for x in self.funcs.values() if x.module is mod]:
            decs = []
            for d in f.node.decorator_list:
                target = d.func if isinstance(d, ast.Call) else d
                r = self.resolve_static(mod, target, f.parent)
                # property setters: @x.setter
                decs.append(r or ast.unparse(target))
            f.decorators = decs
        for k in mod.classes.values():
            k.bases = [self.resolve_static(mod, b, None) or ast.unparse(b) for b in k.node.bases]

    # ---------------------------------------------------------------- names the rules know
    _WANTED = None

    @classmethod
    def wanted_names(cls) -> set:
        """Every qualified name of the package that the checker's own sources mention (anchors of rules)."""
        if cls._WANTED is None:
            import re
            out = set()
            here = Path(__file__).resolve().parent
            for path in sorted(here.rglob('*.py')):
                if 'variants' in path.parts:
                    continue
                out.update(re.findall(r"""['"](%s(?:\.\w+)+)['"]""" % PKG, path.read_text(encoding='utf-8')))
            cls._WANTED = out
        return cls._WANTED

    def _apply_wanted_names(self) -> None:
        """A function that a rule is anchored on keeps the name the rule knows when it has been moved to a private module
        and imported back (`from ._metar import okta2code` in wmo.py), or moved to a base class / mixin of the class it
        was a method of: it is registered - and referred to everywhere - under the name it is reachable by."""
        for w in sorted(self.wanted_names()):
            if w in self.funcs or w in self.classes or w in self.modules:
                continue
            head, _, tail = w.rpartition('.')
            target = None
            if head in self.modules and tail in self.modules[head].imports:
                t = self._canon(self.modules[head].imports[tail])
                if t in self.funcs:
                    target = self.funcs[t]
            if target is None:
                k = self.classes.get(head) or self.classes.get(self._canon(head))
                if k is not None:
                    target = self.find_method(k, tail)
                    if target is None:
                        # moved up: defined by a base class of a class that used to define it? (nothing to do) / moved
                        # down to every subclass is not a move we follow
                        pass
            if target is None or target.qname == w:
                continue
            self._rename(target, w)

    def _rename(self, f: 'Func', new: str) -> None:
        old = f.qname
        for q in [q for q in self.funcs if q == old or q.startswith(old + '.<locals>.')]:
            g = self.funcs.pop(q)
            nq = new + q[len(old):]
            g.qname = nq
            self.funcs[nq] = g
            self.renamed[q] = nq

    # ---------------------------------------------------------------- resolving
    def _canon(self, dotted: str) -> str:
        """Follow re-exports inside the package: a.b.c where a.b is a package module and c an
        import alias there -> its target."""
        seen = set()
        while dotted not in seen:
            seen.add(dotted)
            dotted = self.renamed.get(dotted, dotted)
            if dotted in self.modules or dotted in self.funcs or dotted in self.classes:
                return dotted
            head, _, tail = dotted.rpartition('.')
            if not head:
                return dotted
            # resolve the head first (e.g. ampycloud.utils -> package), then look tail up
            chead = self._canon(head) if head not in self.modules else head
            hmod = self.modules.get(chead)
            if hmod is not None:
                if tail in hmod.imports:
                    dotted = hmod.imports[tail]
                    continue
                if f'{chead}.{tail}' in self.modules:
                    return f'{chead}.{tail}'
                return f'{chead}.{tail}'
            if chead != head:
                dotted = f'{chead}.{tail}'
                continue
            return dotted
        return dotted

    def resolve_static(self, mod: Module, expr: ast.AST, func: Optional[Func]) -> Optional[str]:
        """Dotted canonical name of a Name/Attribute chain, using import tables only (no local
        dataflow). None when the base is a local variable or an unsupported expression."""
        if isinstance(expr, ast.Name):
            nm = expr.id
            f = func
            while f is not None:
                if nm in f.local_imports:
                    return self._canon(f.local_imports[nm])
                f = f.parent
            if nm in mod.imports:
                return self._canon(mod.imports[nm])
            if nm in mod.functions or nm in mod.classes or nm in mod.globals:
                return self.renamed.get(f'{mod.name}.{nm}', f'{mod.name}.{nm}')
            if hasattr(builtins, nm):
                return f'builtins.{nm}'
            return None
        if isinstance(expr, ast.Attribute):
            base = self.resolve_static(mod, expr.value, func)
            if base is None:
                return None
            return self._canon(f'{base}.{expr.attr}')
        return None

    # ---------------------------------------------------------------- class helpers
    def mro(self, cls: Klass) -> list:
        out, todo = [], [cls]
        while todo:
            k = todo.pop(0)
            if k in out:
                continue
            out.append(k)
            for b in k.bases:
                if b in self.classes:
                    todo.append(self.classes[b])
        return out

    def find_method(self, cls: Klass, name: str) -> Optional[Func]:
        for k in self.mro(cls):
            if name in k.methods:
                return k.methods[name]
        return None

    def find_class_attr(self, cls: Klass, name: str):
        for k in self.mro(cls):
            if name in k.class_attrs:
                return k, k.class_attrs[name]
        return None

    def func(self, qname: str, rule: str = 'E0') -> Func:
        f = self.funcs.get(qname)
        if f is None:
            raise AnalysisError(rule, f'anchor function vanished: {qname}')
        return f

    def klass(self, qname: str, rule: str = 'E0') -> Klass:
        k = self.classes.get(qname)
        if k is None:
            raise AnalysisError(rule, f'anchor class vanished: {qname}')
        return k

    def stats(self) -> dict:
        return {'modules': len(self.modules), 'functions': len(self.funcs),
                'classes': len(self.classes),
                'loc': sum(m.source.count('\n') for m in self.modules.values())}
