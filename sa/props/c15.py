"""C15 - input screening rejects exactly the documented conditions and normalises the rest."""
from sa.rules import screening, ownership, indexing

LEVEL = 'other'


def check(ctx):
    screening.refusals(ctx, 'C15-R1')
    screening.normalisation(ctx, 'C15-R2')
    screening.required_columns(ctx, 'C15-R4')
    ownership.entry_points(ctx, 'C15-R2')
    indexing.name_keyed_operations(ctx, 'C15-R5')
    ctx.undecided += ['that dtype coercion cannot fail for "coercible" inputs; pandas merge semantics for NaN keys',
                      'that pandas duplicated()/merge compute what their documentation says (A1)']
