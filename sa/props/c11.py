"""C11 - running never modifies caller data, caller parameters or the global parameters."""
from sa.rules import ownership
from sa.rules.params import global_read_discipline

LEVEL = 'other'


def check(ctx):
    ownership.entry_points(ctx, 'C11-R1')
    ownership.global_prms_writers(ctx, 'C11-R2')
    ownership.snapshot_never_mutated(ctx, 'C11-R3')
    ownership.owned_fields(ctx, 'C11-R4')
    # R5: 'later edits of the global parameters do not affect an existing chunk': nothing on the processing path reads
    # the live dictionary, except the one deep copy that makes the snapshot
    global_read_discipline(ctx, 'C11-R5')
    ctx.undecided += ['adjust_nested_dict stores the caller\'s leaf objects by reference: a list-valued '
                      'leaf (MIN_SEP_VALS) of the snapshot is shared with the caller\'s dictionary; '
                      'ampycloud never writes it (R3), which is what the property asks']
    ctx.assumptions += ['frames and arrays derived by pandas/NumPy operations are new objects; '
                        'copy.copy/dict()/.copy() of a dictionary share nested values (shallow)']
