"""C10 - the outcome depends only on the four column values, not on index labels or layout."""
from sa.rules import indexing, screening

LEVEL = 'other'


def check(ctx):
    indexing.data_index_state(ctx, 'C10-R1')
    indexing.label_ops_elsewhere(ctx, 'C10-R1')
    indexing.no_positional_columns(ctx, 'C10-R2')
    screening.normalisation(ctx, 'C10-R3', 'C10-R3')
    screening.required_columns(ctx, 'C10-R3')
    indexing.name_keyed_operations(ctx, 'C10-R4')
    indexing.positions_are_not_labels(ctx, 'C10-R5')
    indexing.no_column_ranges(ctx, 'C10-R6')
    ctx.undecided += ['value equality of coerced dtypes (e.g. integer dt cast to float is exact only up to 2**53)']
    ctx.assumptions += ['a frame whose index was reset has unique labels; row filters and sorts keep labels unique; '
                        'boolean-Series selection and .loc[labels] are label-aligned (pandas semantics, A1)']
