"""C08 - failures are AmpycloudError only; guard discipline in front of third-party numerics.
Totality / termination of pandas, scikit-learn, statsmodels is NOT claimed (not statically decidable)."""
from sa.rules import exceptions, baseheight, indexing, scaling, typestate

LEVEL = 'other'


def check(ctx):
    exceptions.only_ampycloud_errors(ctx, 'C08-R1')
    exceptions.clustering_precondition(ctx, 'C08-R2')
    exceptions.mixture_preconditions(ctx, 'C08-R2')
    exceptions.fluffer_precondition(ctx, 'C08-R2')
    exceptions.percentile_precondition(ctx, 'C08-R2')
    exceptions.empty_selection_reductions(ctx, 'C08-R2')
    baseheight.routine_internals(ctx, 'C08-R2')
    exceptions.okta_is_python_int(ctx, 'C08-R2')
    exceptions.chunk_never_empty(ctx, 'C08-R2')
    exceptions.decorators_pass_through(ctx, 'C08-R3')
    exceptions.raw_input_validated_first(ctx, 'C08-R4')
    indexing.data_index_state(ctx, 'C08-R5')
    indexing.name_keyed_operations(ctx, 'C08-R5')
    indexing.positions_are_not_labels(ctx, 'C08-R5')
    exceptions.locals_bound_before_use(ctx, 'C08-R6')
    exceptions.patterns_are_literals(ctx, 'C08-R7')
    # R8: non-detections stay non-detections through the scalings: find_slices picks the rows to cluster on the scaled
    # copy and writes the labels through the unscaled one (a length mismatch is a pandas ValueError)
    scaling.nan_safe(ctx, 'C08-R8')
    # R9: the selection handed to the base routine is never empty - all members, or the members without the excluded
    # ceilometers only when more than MAX_HITS_OKTA0 (>= 0) of them remain (an empty one is refused: valid data refused)
    baseheight.selection(ctx, 'C08-R9')
    # R10: a stage table is never used as a condition (pandas ValueError once the stage has run, = C14-T7)
    typestate.tables_have_no_truth_value(ctx, 'C08-R10')
    ctx.undecided += ['termination and totality of the third-party numerics for every accepted input',
                      'whether an assert can fire is a run-time question (asserts are listed as information)']
