"""C12 - all documented ways of setting parameters are equivalent; reset restores all."""
from sa.rules import params, exceptions

LEVEL = 'other'


def check(ctx):
    params.global_read_discipline(ctx, 'C12-R1')
    params.merge_routine(ctx, 'C12-R2')
    params.reset_fresh(ctx, 'C12-R3')
    params.no_from_import(ctx, 'C12-R4')
    params.yaml_keys(ctx, 'C12-R5')
    params.set_prms_refusals(ctx, 'C12-R6')
    exceptions.locals_bound_before_use(ctx, 'C12-R7', scope='params')
    params.same_loader(ctx, 'C12-R8')
    params.stateless_routes(ctx, 'C12-R9')
    ctx.undecided += ['equality of YAML-loaded values and Python literals of the same spelling',
                      'that ruamel/yaml loaders return equal objects for equal files']
    ctx.assumptions += ['copy.deepcopy returns an object sharing no mutable state with its argument']
