"""C06 - groups, and layers split from one group, respect the minimum separation (structural part)."""
from sa.rules import separation, baseheight

LEVEL = 'other'


def check(ctx):
    separation.time_ordered_arguments(ctx, 'C06-R1')
    separation.same_selection_at_decision_time(ctx, 'C06-R2')
    separation.merge_strictness(ctx, 'C06-R3')
    separation.min_sep_lookup(ctx, 'C06-R4')
    separation.no_write_after_merge(ctx, 'C06-R5')
    baseheight.parameter_binding(ctx, 'C06-R6')
    separation.remerge_bookkeeping(ctx, 'C06-R7')
    ctx.undecided += ['the numerical separation itself; re-merged mixture components (excluded by the property); '
                      'that the base of a merged group stays between the bases of its parts']
