"""C04 - base height = configured percentile, inside the layer, never coded upward (structural part)."""
from sa.rules import baseheight, wmo, metarize, rounding, params, ownership

LEVEL = 'other'


def check(ctx):
    baseheight.parameter_binding(ctx, 'C04-R1')
    baseheight.selection(ctx, 'C04-R2')
    baseheight.routine_internals(ctx, 'C04-R3')
    baseheight.statistics_columns(ctx, 'C04-R4')
    wmo.height2code_kernel(ctx, 'C04-R5')
    metarize.sorted_before_significance(ctx, 'C04-R6')
    baseheight.fluffiness_sign(ctx, 'C04-R7')
    rounding.lookback_rounding(ctx, 'C04-R8')
    # R9: the percentile, look-back and exclusion list asked for per call are the ones used (= C12-R2: every value of a
    # known key is taken over, an empty list included)
    params.merge_routine(ctx, 'C04-R9')
    # R10: one set of base-height parameters for all three tables of a chunk: the chunk owns its snapshot (= C11-R4)
    ownership.owned_fields(ctx, 'C04-R10')
    ctx.undecided += ['numerical equality with the percentile; finiteness of the LOWESS output',
                      'flooring within one ulp of a x00 ft boundary (exact-real model)',
                      'that np.percentile of a non-empty selection lies between its minimum and maximum (A1)']
