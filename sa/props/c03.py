"""C03 - hit counts, percentages and oktas are what the hits imply."""
from sa.rules import amount, wmo, metarize, rounding, cropping

LEVEL = 'other'


def check(ctx):
    amount.hit_counts(ctx, 'C03-R1')
    amount.okta_chain(ctx, 'C03-R2')
    wmo.perc2okta_kernel(ctx, 'C03-R3')
    metarize.code_assembly(ctx, 'C03-R4')
    wmo.okta2code_table(ctx, 'C03-R4')
    rounding.perc_rounding(ctx, 'C03-R5')
    # R6: the total of measurements is that of the input: cropping above the MSA blanks first hits and VV hits (the
    # measurement stays, as a non-detection) and removes only second and higher hits
    cropping.crop_effects(ctx, 'C03-R6')
    ctx.extra['explanation'] = (
        'The count, percentage and okta cells are compared as provenance terms with the specification: per-ceilometer '
        'distinct time stamps summed over the distinct ceilometer names, ratio to the same count over the whole chunk, '
        'ordered 0 / 8 / binned chain in linear normal form; monotonicity in the count follows from the chain shape '
        'and from perc2okta being non-decreasing with range [0, 8] (kernel analysis). ')
    ctx.undecided += ['distinct measurements are those with distinct (ceilo, dt) values as NumPy compares floats',
                      'rounding errors of the percentage off the switching points of the okta binning (they cannot change the okta; on the switching points R5 shows the computation exact)']
