"""C05 - every hit is accounted for exactly once at every stage (structural part)."""
from sa.rules import accounting, typestate, indexing, separation, scaling, cropping, screening

LEVEL = 'other'


def check(ctx):
    accounting.id_spaces(ctx, 'C05-R1')
    accounting.totality(ctx, 'C05-R2')
    typestate.no_self_dependence(ctx, 'C05-R2')
    accounting.sentinels(ctx, 'C05-R3')
    accounting.write_back_masks(ctx, 'C05-R4')
    accounting.hits_immutable(ctx, 'C05-R6')
    indexing.data_index_state(ctx, 'C05-R6')
    accounting.ncomp_rewritten(ctx, 'C05-R7')
    separation.remerge_bookkeeping(ctx, 'C05-R8')
    accounting.split_when_counted(ctx, 'C05-R9')
    # R10: the heights handed to the slicing stay valid heights: the min-max scaling never divides by an empty range
    scaling.positive_span(ctx, 'C05-R10')
    # R11: a refused stage call leaves the per-hit ids and the tables as they were (otherwise they disagree afterwards)
    typestate.refusal_before_mutation(ctx, 'C05-R11')
    # R12: 'hits cropped above MSA + buffer excepted': what is cropped is decided by the chunk's own MSA and buffer (= C07-R1/R2)
    cropping.crop_effects(ctx, 'C05-R12')
    # R13: no hit is altered by the screening either (= C15-R2: casts and column drops only)
    screening.normalisation(ctx, 'C05-R13', 'C05-R13')
    # R14: 'every non-detection belongs to none': non-detections stay NaN through the scalings (= C19-R1), whichever mask
    # the labels are written through
    scaling.nan_safe(ctx, 'C05-R14')
    ctx.undecided += ['that scikit-learn returns one label per row; that every mixture component is populated '
                      '(run-time assert in layer.ncomp_from_gmm); that k sub-components give k layers numerically']
