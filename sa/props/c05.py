"""C05 - every hit is accounted for exactly once at every stage (structural part)."""
from sa.rules import accounting, typestate, indexing, separation, scaling

LEVEL = 'other'


def check(ctx):
    accounting.id_spaces(ctx, 'C05-R1')
    accounting.totality(ctx, 'C05-R2')
    typestate.no_self_dependence(ctx, 'C05-R2')
    accounting.sentinels(ctx, 'C05-R3')
    accounting.write_back_masks(ctx, 'C05-R4')
    accounting.hits_immutable(ctx, 'C05-R6')
    indexing.data_index_state(ctx, 'C05-R6')
    accounting.ncomp_rewritten(ctx, 'C05-R7')
    separation.remerge_bookkeeping(ctx, 'C05-R8')
    accounting.split_when_counted(ctx, 'C05-R9')
    # R10: the heights handed to the slicing stay valid heights: the min-max scaling never divides by an empty range
    scaling.positive_span(ctx, 'C05-R10')
    # R11: a refused stage call leaves the per-hit ids and the tables as they were (otherwise they disagree afterwards)
    typestate.refusal_before_mutation(ctx, 'C05-R11')
    ctx.undecided += ['that scikit-learn returns one label per row; that every mixture component is populated '
                      '(run-time assert in layer.ncomp_from_gmm); that k sub-components give k layers numerically']
