"""C19 - scalings: structural part (NaN-safety, do/undo inverse, increasing forward map, min range)."""
from sa.rules import scaling

LEVEL = 'other'


def check(ctx):
    scaling.nan_safe(ctx, 'C19-R1')
    scaling.inverse_pairs(ctx, 'C19-R2')
    scaling.minrange(ctx, 'C19-R4')
    scaling.continuity_offset_guard(ctx, 'C19-R5')
    ctx.undecided += ['continuity of step scaling across its steps and the agreement of the inverse bin edges '
                      '(edges_out) with do(edges_in): a consistent off-by-one in both offset computations is invisible '
                      'to the algebraic inverse check', 'that min-max scaling lands in [0, 1] numerically',
                      'floating-point round-trip error of undo(do(x))']
    ctx.assumptions += ['scale > 0, max_val > min_val, step scales > 0 (A5); exact-real arithmetic']
