"""C19 - scalings: structural part (NaN-safety, do/undo inverse, increasing forward map, min range, continuity and edge agreement of step scaling)."""
from sa.rules import scaling

LEVEL = 'other'


def check(ctx):
    scaling.stateless(ctx, 'C19-R9')
    scaling.nan_safe(ctx, 'C19-R1')
    scaling.inverse_pairs(ctx, 'C19-R2')
    scaling.minrange(ctx, 'C19-R4')
    scaling.interval_contains_data(ctx, 'C19-R10')
    scaling.continuity_offset_guard(ctx, 'C19-R5')
    scaling.step_continuity(ctx, 'C19-R6')
    scaling.given_parameters_honoured(ctx, 'C19-R7')
    scaling.routine_defaults_and_dispatch(ctx, 'C19-R8')
    scaling.forward_and_backward_sets_distinct(ctx, 'C19-R11')
    scaling.rescaling_passes_parameters_on(ctx, 'C19-R12')
    ctx.undecided += ['step scaling with more than 5 step edges (the property quantifies over 0..4; R6 instantiates 0..5)',
                      'that min-max scaling lands in [0, 1] numerically',
                      'floating-point round-trip error of undo(do(x))']
    ctx.assumptions += ['scale > 0, max_val > min_val, step scales > 0 (A5); exact-real arithmetic']
