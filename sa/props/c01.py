"""C01 - the METAR-like message is well-formed and obeys the ICAO layer selection."""
from sa.rules import message, metarize, significance, wmo, amount, ownership, baseheight

LEVEL = 'other'


def check(ctx):
    message.well_formed_exits(ctx, 'C01-R1')
    message.report_predicate(ctx, 'C01-R2')
    metarize.code_assembly(ctx, 'C01-R4')
    metarize.sorted_before_significance(ctx, 'C01-R5')
    metarize.table_writers(ctx, 'C01-R5')
    significance.selection_lemmas(ctx, 'C01-R6')
    amount.okta_chain(ctx, 'C01-R7')
    wmo.okta2code_table(ctx, 'C01-R7')
    wmo.height2code_kernel(ctx, 'C01-R8')
    # R9: the MSA the message is cut at is the MSA the hits were cropped with: the chunk owns its parameters (a snapshot
    # shared with the live dictionary lets a later edit move the cut under layers that were kept)
    ownership.owned_fields(ctx, 'C01-R9')
    # R10: the base that is compared with the MSA (reported below it, NSC at / above it) is computed from the member hits in
    # time order (= C04-R2): another order moves the look-back window and with it the base across the MSA
    baseheight.selection(ctx, 'C01-R10')
    ctx.extra['explanation'] = (
        'Proof by decomposition: the message is the blank-joined code cells selected by significant & base < MSA '
        '(R1-R3) from a table sorted by base before significance was computed (R5); the k-th flagged row has okta '
        '>= 2k-1 and there are at most three (R6, all okta sequences via the extracted transducer); code = '
        'abbreviation(okta) + digits(base) of the same row (R4), abbreviation in FEW/SCT/BKN/OVC for okta 1..8 and '
        'three non-decreasing digits for base in [0, 1e5) (R7, R8). ')
    ctx.undecided += ['numeric values of okta and base height themselves (C03 / C04)']
