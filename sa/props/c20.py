"""C20 - diagnostic plotting is free of side effects (totality of matplotlib is not claimed)."""
from sa.rules import plots, exceptions, scaling

LEVEL = 'other'


def check(ctx):
    plots.rc_untouched(ctx, 'C20-R1')
    plots.figure_lifecycle(ctx, 'C20-R2')
    plots.chunk_read_only(ctx, 'C20-R3')
    plots.cycles_modulo(ctx, 'C20-R4')
    plots.consumer_tables(ctx, 'C20-R5')
    plots.no_state_between_plots(ctx, 'C20-R6')
    exceptions.locals_bound_before_use(ctx, 'C20-R7', scope='plots')
    plots.string_arrays_wide_enough(ctx, 'C20-R8')
    plots.one_figure_per_plot(ctx, 'C20-R9')
    plots.optional_arguments_guarded(ctx, 'C20-R10')
    plots.labels_are_not_positions(ctx, 'C20-R11')
    # R12: the secondary axes are drawn with the scaling parameters derived from the chunk data, non-detections included:
    # the derivation is NaN-safe (= C19-R1), else the axis limits are NaN and matplotlib refuses to draw
    scaling.nan_safe(ctx, 'C20-R12')
    ctx.undecided += ['totality of the matplotlib calls themselves; exact file contents',
                      'that an exception inside the plotting code still closes the figure']
    ctx.assumptions += ['plt.style.context / rc_context restore rcParams on exit, including on exceptions']
