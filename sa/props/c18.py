"""C18 - WMO conversions: okta binning, okta abbreviations and height flooring."""
from sa.rules import wmo

LEVEL = 'other'


def check(ctx):
    wmo.okta2code_table(ctx, 'C18-R1')
    wmo.height2code_kernel(ctx, 'C18-R2')
    wmo.perc2okta_kernel(ctx, 'C18-R3')
    ctx.undecided += ['IEEE effects at bin edges and coding boundaries (exact-real model, A2)']
