"""C18 - WMO conversions: okta binning, okta abbreviations and height flooring."""
from sa.rules import wmo, rounding

LEVEL = 'other'


def check(ctx):
    wmo.okta2code_table(ctx, 'C18-R1')
    wmo.height2code_kernel(ctx, 'C18-R2')
    wmo.perc2okta_kernel(ctx, 'C18-R3')
    rounding.wmo_rounding(ctx, 'C18-R4')
    ctx.undecided += ['IEEE effects away from the switching points of floor / ceil / round (the kernels R2 / R3 are exact-real; R4 shows that on the switching points the floating-point computation is exact, so the two agree)']
