"""C13 - concurrent or interleaved chunks do not interfere (confinement argument).

R1  functions reachable from the processing path keep no state outside the chunk instance:
    no global/nonlocal, no write to module/class/function objects, no mutable default, no memo
    decorator, no read of a module-level object that anything writes (the parameter dictionary is
    covered by C12-R1: read once, as the argument of a deep copy).
R3  no function on the processing path flips an interpreter- or library-wide switch (warning filters, NumPy / pandas /
    scikit-learn options, locale, environment, logger levels, ...).
R2  helpers are pure: no public helper mutates an argument it does not own; chunk methods store only
    to their own instance or to fresh local objects.
"""
from sa.rules import confinement, ownership, determinism
from sa.rules.params import global_read_discipline

LEVEL = 'other'


def check(ctx):
    confinement.module_state(ctx, 'C13-R1')
    global_read_discipline(ctx, 'C13-R1')
    confinement.process_wide_switches(ctx, 'C13-R3')
    determinism.explicit_random_state(ctx, 'C13-R1')
    determinism.rng_confinement(ctx, 'C13-R1')
    ownership.helpers_pure(ctx, 'C13-R2')
    ownership.chunk_methods_confined(ctx, 'C13-R2')
    ctx.assumptions += ['third-party code (pandas, NumPy, scikit-learn, statsmodels) is thread-safe on '
                        'objects that are not shared (A4)']
    ctx.undecided += ['no schedule is enumerated: the argument is confinement (all working state is '
                      'reachable only from the chunk instance), which holds for every schedule']
