"""C16 - ceilometer names are labels only: renaming them changes nothing."""
from sa.rules import names

LEVEL = 'other'


def check(ctx):
    names.labels_only(ctx, 'C16-R1')
    names.order_insensitive_reductions(ctx, 'C16-R2')
    ctx.assumptions += ['EXCLUDE_FOR_BASE_HEIGHT_CALC is a list of names (A5): `name in list` is an equality test '
                        'against each entry, not a substring search']
    ctx.undecided += ['bit-identity of the results of two runs (rests on determinism, C09)']
