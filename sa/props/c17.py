"""C17 - significance flags implement the ICAO 1-3-5 rule for every okta sequence.

R1  the transducer extracted from icao.significant_cloud is bisimilar to the specification
    transducer (k = flags so far, saturating at 3; flag iff k < 3 and okta >= (1,3,5)[k]).
R2  every path through the loop body appends exactly one element; the accumulator is append-only
    and is what the function returns.
"""
from sa import terms as T
from sa.core import AnalysisError
from sa.fold import Fold, explore
from sa.symexec import Executor

LEVEL = 'model_checking'
ANCHOR = 'ampycloud.icao.significant_cloud'
THRESH = (1, 3, 5)


def extract(ctx, rule='C17-R1'):
    p = ctx.project
    f = p.func(ANCHOR, rule)
    from sa.rules.tables import summary
    ex, summ = summary(ctx, f)      # private helpers of icao.py expanded at their call sites
    ctx.saw(f)
    params = f.params
    if not params:
        raise AnalysisError(rule, 'significant_cloud takes no parameter')
    # R2: on every path the function returns the list its own loop has just built
    ret = T.peel(summ.ret)
    # R2 (memoised form): the flags come out of a helper that keeps its results between calls
    # (functools.lru_cache / cache): the list handed out is the cached object itself
    for _g, v in (ret[1] if T.tag(ret) == 'phi' else [(None, ret)]):
        v = T.peel(v)
        if T.tag(v) == 'call' and T.tag(v[1]) == 'g':
            try:
                callee = p.func(v[1][1], rule)
            except AnalysisError:
                continue
            memo = [d for d in callee.decorators
                    if d in ('functools.lru_cache', 'functools.cache', 'functools.cached_property')]
            if memo:
                ctx.saw(callee)
                ctx.violation('C17-R2', callee.qname, callee.node.name, callee.loc(),
                              f'significant_cloud returns the result of {callee.qname}, which is memoised ({memo[0]}): '
                              'the list handed out is the cached object itself, so it is not a function of this okta '
                              'sequence alone - a caller that edits the list it got changes the answer to the next '
                              'identical question (values and length)',
                              instance='significant_cloud returns its own accumulator on every path')
    if T.tag(ret) == 'phi':
        from dataclasses import replace
        own = [(g, v) for g, v in ret[1] if T.tag(T.peel(v)) == 'loopres']
        other = [(g, v) for g, v in ret[1] if T.tag(T.peel(v)) != 'loopres']
        if len(own) == 1:
            for g, v in other:
                ctx.violation('C17-R2', f.qname, f.node.name, f.loc(),
                              f'under {T.show(g, maxlen=100)} the function returns {T.show(v, maxlen=100)} instead of the flags '
                              'its loop has just computed: an object kept from an earlier call (or shared with one) is not a '
                              'function of this okta sequence alone - a caller that edits the list it got changes the answer '
                              'to the next identical question', instance='significant_cloud returns its own accumulator on every path')
            summ = replace(summ, ret=own[0][1])
    return f, Fold(summ, ex, params[0], rule)


def spec_step(k, sym):
    flag = k < 3 and sym >= THRESH[k]
    return (k + 1 if flag else k), flag


def check(ctx, alphabet=None):
    alphabet = alphabet or (list(range(0, 10)) if ctx.tier == 'thorough' else list(range(0, 9)))
    f, fold = extract(ctx)
    # ---- R2
    apps = fold._appends(fold.out_var, fold.vars[fold.out_var]['body'])
    for g, els in apps:
        ctx.check(len(els) == 1, 'C17-R2', f.qname, f.node.name, f.loc(),
                  f'a path through the loop body appends {len(els)} elements instead of one '
                  f'(guard {T.show(g, maxlen=120)})',
                  instance=f'append under {T.show(g, maxlen=100)}')
    # ---- R1 bisimulation with the specification
    def obs_step(k, sym, outs):
        nk, flag = spec_step(k, sym)
        if len(outs) != 1:
            return nk, f'{len(outs)} flags emitted for one layer'
        if outs[0] is not flag:
            return nk, (f'layer with okta {sym} after {k} flagged layer(s): implementation says '
                        f'{outs[0]!r}, 1-3-5 rule says {flag!r}')
        return nk, None
    states, trans, cex, samples = explore(fold, alphabet, 0, obs_step)
    ctx.extra.update({'states': states, 'transitions': trans, 'traces_validated_against_impl': 0,
                      'exhaustive': cex is None,
                      'explanation': 'The transducer is extracted from the AST of '
                                     'icao.significant_cloud on every run (no hand-written model, '
                                     'hence no traces to validate against the implementation); '
                                     f'product with the 1-3-5 specification over alphabet '
                                     f'{alphabet[0]}..{alphabet[-1]} explored exhaustively: all '
                                     'sequences of all lengths. '})
    for s in samples:
        ctx.sample(s)
    ctx.tables['carried_variables'] = {
        nm: {'init': T.show(d['init']), 'body': T.show(d['body'], maxlen=300)}
        for nm, d in fold.vars.items()}
    ctx.tables['observers'] = [list(map(str, o)) for o in fold.observers]
    ctx.check(cex is None, 'C17-R1', f.qname, f.node.name, f.loc(),
              f'not bisimilar to the 1-3-5 transducer: {cex}', facts=cex or {},
              instance=f'product automaton: {states} states, {trans} transitions',
              detail=f'{states} reachable product states, {trans} transitions')
    # R3: the flags published in the tables are exactly significant_cloud(okta column), nothing rewrites them
    from sa.rules import metarize
    metarize.sorted_before_significance(ctx, 'C17-R3')
    from sa.rules import significance, exceptions
    significance.only_metarize_writes_flags(ctx, 'C17-R4')
    # R5: significant_cloud is decorated: the decorator hands it the caller's arguments, untouched, and returns its result
    exceptions.decorators_pass_through(ctx, 'C17-R5')
    ctx.assumptions += ['okta values are integers (alphabet above); Python int/bool/list semantics '
                        'of the supported subset as encoded in sa/fold.py']
