"""C09 - results are reproducible and the global random state is left alone."""
from sa.rules import determinism, confinement

LEVEL = 'other'


def check(ctx):
    determinism.explicit_random_state(ctx, 'C09-R1')
    determinism.rng_confinement(ctx, 'C09-R2')
    determinism.tmp_seed_typestate(ctx, 'C09-R3')
    determinism.no_hash_order(ctx, 'C09-R4')
    determinism.nondeterminism_taint(ctx, 'C09-R5')
    determinism.no_uninitialised_memory(ctx, 'C09-R7')
    confinement.module_state(ctx, 'C09-R6')
    ctx.undecided += ['bitwise determinism inside scikit-learn / NumPy / pandas at a fixed thread count (A4)']
    ctx.assumptions += ['an estimator given an integer random_state does not touch the global generator',
                        'np.unique returns sorted values; dict iteration follows insertion order']
