"""C02 - lowest cloud layer and ceiling are never suppressed; NCD / NSC mean what they say."""
from sa.rules import message, significance, flag, metarize, params, ownership, screening

LEVEL = 'other'


def check(ctx):
    significance.never_suppressed(ctx, 'C02-R1')
    message.decision_table(ctx, 'C02-R2')
    flag.flag_definition(ctx, 'C02-R3')
    message.report_predicate(ctx, 'C02-R4')
    metarize.sorted_before_significance(ctx, 'C02-R4')
    # R5: the MSA asked for per call (None = no MSA included) is the MSA the chunk works with
    params.merge_routine(ctx, 'C02-R5')
    # R6: the MSA the message is cut at is the MSA the hits were cropped with (= C01-R9 / C11-R4)
    ownership.owned_fields(ctx, 'C02-R6')
    # R7: the screening hands the hits on as they came (casts and column drops only, = C15-R2): hits it blanks are missing
    # from the count that decides NCD / NSC
    screening.normalisation(ctx, 'C02-R7', 'C02-R7')
    # R8: the flags the NSC / NCD decision reads are those metarize computed: nobody else writes 'significant' (= C17-R4)
    significance.only_metarize_writes_flags(ctx, 'C02-R8')
    ctx.extra['explanation'] = (
        'With the table sorted by base (R4) and no row reported, a layer of >= 1 okta exists iff a significant row '
        'sits at/above the MSA, because the first >= 1 okta row is always flagged (R1); the exits of metar_msg are '
        'compared with the specification table over the atoms no-sets / some-row-reported / significant-row-at-or-'
        'above-MSA / high-cloud-flag (R2); the flag is raised iff more than MAX_HITS_OKTA0 hits were cropped (R3). ')
    ctx.undecided += ['numeric values of okta and base height themselves (C03 / C04)']
