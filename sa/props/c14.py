"""C14 - any order of stage calls raises AmpycloudError or gives the canonical result."""
from sa.rules import typestate

LEVEL = 'other'


def check(ctx):
    typestate.reads_guarded(ctx, 'C14-T1')
    typestate.later_facts_protected(ctx, 'C14-T2')
    typestate.refusal_before_mutation(ctx, 'C14-T3')
    typestate.no_self_dependence(ctx, 'C14-T4')
    typestate.own_column_only(ctx, 'C14-T5')
    typestate.queries_are_pure(ctx, 'C14-T6')
    typestate.tables_have_no_truth_value(ctx, 'C14-T7')
    typestate.no_hidden_stage_state(ctx, 'C14-T8')
    ctx.undecided += ['equality of recomputed tables with the canonical ones (rests on determinism, C09, '
                      'and on T4: a stage reads none of its own earlier output)']
