"""C07 - hits above MSA + buffer never influence the result; those at or below are kept intact."""
from sa.rules import cropping, flag, indexing

LEVEL = 'other'


def check(ctx):
    cropping.crop_effects(ctx, 'C07-R2')
    flag.flag_definition(ctx, 'C07-R3')
    cropping.no_escape(ctx, 'C07-R4')
    indexing.data_index_state(ctx, 'C07-R5')
    indexing.positions_are_not_labels(ctx, 'C07-R5')
    ctx.undecided += ['equality of the tables of two related runs (follows from determinism, C09, and from the above: '
                      'nothing above the limit survives into the chunk, everything else is untouched)']
