"""C07 - hits above MSA + buffer never influence the result; those at or below are kept intact."""
from sa.rules import cropping, flag, indexing, params, screening

LEVEL = 'other'


def check(ctx):
    cropping.crop_effects(ctx, 'C07-R2')
    flag.flag_definition(ctx, 'C07-R3')
    cropping.no_escape(ctx, 'C07-R4')
    indexing.data_index_state(ctx, 'C07-R5')
    indexing.positions_are_not_labels(ctx, 'C07-R5')
    # R6: 'with no MSA nothing is cropped': the MSA asked for per call (None included) is the one used (= C12-R2)
    params.merge_routine(ctx, 'C07-R6')
    # R7: the heights compared with the limit are the heights given (= C15-R2: the screening casts and drops columns only)
    screening.normalisation(ctx, 'C07-R7', 'C07-R7')
    ctx.undecided += ['equality of the tables of two related runs (follows from determinism, C09, and from the above: '
                      'nothing above the limit survives into the chunk, everything else is untouched)']
