"""E10 - definite assignment: a forward must-analysis over the statements of one function.

State = (set of local names bound on every path reaching this point, set of branch facts that hold here).
A *fact* is (dump of an `if` test, polarity); it is dropped as soon as one of the names the test reads is re-bound.
A name bound in one arm of an `if` only is remembered as bound *under that fact*, so the pair

    if cond: x = ...          if not cond: return
    ...                       x = ...        (other arm left the function)
    if cond: use(x)

is recognised (the two idioms of correlated branches in the repository's style).

Two grades of finding:
  * 'unbound'        the read is reached with the name unbound on a path that needs no loop to run zero times and no
                     exception to be raised;
  * 'loop-dependent' the only paths that leave the name unbound run a `for`/`while` body zero times or enter an
                     exception handler: whether that can happen is a question about run-time values, so it is
                     listed as information and never raised as a violation.
"""
from __future__ import annotations

import ast
from dataclasses import dataclass, field

_COMPLEMENT = {ast.NotEq: ast.Eq, ast.IsNot: ast.Is, ast.NotIn: ast.In}     # exact complements only
TOP = None      # state of unreachable code: everything bound


@dataclass
class St:
    bound: frozenset           # bound on every loop-free path
    weak: frozenset            # bound provided every loop met so far ran at least once / no handler entered
    facts: frozenset = frozenset()
    cond: frozenset = frozenset()      # (name, fact): name is bound whenever fact holds

    def bind(self, names, reads_of_fact):
        names = frozenset(names)
        if not names:
            return self
        facts = frozenset(f for f in self.facts if not (reads_of_fact(f) & names))
        cond = frozenset((n, f) for n, f in self.cond if not (reads_of_fact(f) & names))
        return St(self.bound | names, self.weak | names, facts, cond)

    def unbind(self, names):
        names = frozenset(names)
        return St(self.bound - names, self.weak - names, self.facts,
                  frozenset((n, f) for n, f in self.cond if n not in names))


def join(a, b):
    if a is TOP:
        return b
    if b is TOP:
        return a
    cond = set(a.cond & b.cond)
    # a name bound outright on one side and under a fact on the other stays bound under that fact
    for n, f in a.cond:
        if n in b.bound:
            cond.add((n, f))
    for n, f in b.cond:
        if n in a.bound:
            cond.add((n, f))
    return St(a.bound & b.bound, a.weak & b.weak, a.facts & b.facts, frozenset(cond))


@dataclass
class Finding:
    name: str
    node: ast.AST
    grade: str


def _targets(t, out):
    if isinstance(t, ast.Name):
        out.append(t.id)
    elif isinstance(t, (ast.Tuple, ast.List)):
        for e in t.elts:
            _targets(e, out)
    elif isinstance(t, ast.Starred):
        _targets(t.value, out)
    return out


def local_names(fn) -> set:
    """Names that are local to `fn` (bound somewhere in its own body, not declared global / nonlocal)."""
    out, declared = set(), set()

    def walk(node, top=True):
        for ch in ast.iter_child_nodes(node):
            if isinstance(ch, (ast.FunctionDef, ast.AsyncFunctionDef, ast.ClassDef)):
                out.add(ch.name)
                continue
            if isinstance(ch, ast.Lambda):
                continue
            if isinstance(ch, (ast.ListComp, ast.SetComp, ast.DictComp, ast.GeneratorExp)):
                # targets of the generators are local to the comprehension; a walrus inside binds in the function
                for w in ast.walk(ch):
                    if isinstance(w, ast.NamedExpr):
                        out.add(w.target.id)
                continue
            if isinstance(ch, (ast.Global, ast.Nonlocal)):
                declared.update(ch.names)
            elif isinstance(ch, ast.Name) and isinstance(ch.ctx, (ast.Store, ast.Del)):
                out.add(ch.id)
            elif isinstance(ch, (ast.Import, ast.ImportFrom)):
                for a in ch.names:
                    out.add((a.asname or a.name).split('.')[0])
            elif isinstance(ch, ast.ExceptHandler) and ch.name:
                out.add(ch.name)
            elif isinstance(ch, ast.MatchAs) and ch.name:
                out.add(ch.name)
            elif isinstance(ch, ast.MatchStar) and ch.name:
                out.add(ch.name)
            elif isinstance(ch, ast.MatchMapping) and ch.rest:
                out.add(ch.rest)
            walk(ch, False)
    walk(fn)
    return out - declared


class Definite:
    def __init__(self, fn, noreturn=None):
        self.fn = fn
        self.noreturn = noreturn            # predicate on ast.Call: the callee never returns (it always raises)
        self.end = None
        a = fn.args
        self.params = {x.arg for x in a.posonlyargs + a.args + a.kwonlyargs}
        if a.vararg:
            self.params.add(a.vararg.arg)
        if a.kwarg:
            self.params.add(a.kwarg.arg)
        self.locals = local_names(fn) - self.params
        self.findings: list[Finding] = []
        self.reads_checked = 0
        self._fact_reads: dict = {}
        self.breaks: list = []
        self.continues: list = []

    # -------------------------------------------------------------- helpers
    def reads_of_fact(self, f):
        return self._fact_reads.get(f[0], frozenset())

    def fact(self, test, pol):
        if isinstance(test, ast.UnaryOp) and isinstance(test.op, ast.Not):
            return self.fact(test.operand, not pol)
        if isinstance(test, ast.Compare) and len(test.ops) == 1 and isinstance(test.ops[0], tuple(_COMPLEMENT)):
            pos = ast.Compare(left=test.left, ops=[_COMPLEMENT[type(test.ops[0])]()], comparators=test.comparators)
            return self.fact(pos, not pol)
        key = ast.dump(test)
        if key not in self._fact_reads:
            self._fact_reads[key] = frozenset(n.id for n in ast.walk(test) if isinstance(n, ast.Name))
        if any(isinstance(n, (ast.Call, ast.NamedExpr, ast.Await, ast.Yield)) for n in ast.walk(test)) and \
                not self._pure_test(test):
            return None
        return (key, pol)

    @staticmethod
    def _pure_test(test) -> bool:
        """Calls in a test are accepted as repeatable when they are len / isinstance / membership style builtins."""
        for n in ast.walk(test):
            if isinstance(n, (ast.NamedExpr, ast.Await, ast.Yield)):
                return False
            if isinstance(n, ast.Call):
                f = n.func
                if not (isinstance(f, ast.Name) and f.id in ('len', 'isinstance', 'callable', 'hasattr', 'type',
                                                              'bool', 'int', 'float', 'str', 'abs', 'min', 'max')):
                    return False
        return True

    def add_facts(self, st, test, pol):
        """Facts known after `test` evaluated to `pol` (conjunctions / disjunctions are split)."""
        if st is TOP:
            return st
        fs = set()

        def split(t, pl):
            if isinstance(t, ast.UnaryOp) and isinstance(t.op, ast.Not):
                return split(t.operand, not pl)
            if isinstance(t, ast.BoolOp) and ((isinstance(t.op, ast.And) and pl) or (isinstance(t.op, ast.Or) and not pl)):
                for v in t.values:
                    split(v, pl)
                return
            f = self.fact(t, pl)
            if f is not None:
                fs.add(f)
        split(test, pol)
        # contradiction with a fact already held: this arm is unreachable
        for k, pl in fs:
            if (k, not pl) in st.facts:
                return TOP
        facts = st.facts | fs
        now = frozenset(n for n, f in st.cond if f in facts)
        return St(st.bound | now, st.weak | now, facts, st.cond)

    def is_bound(self, st, name):
        if st is TOP or name in st.bound:
            return 'yes'
        if any(n == name and f in st.facts for n, f in st.cond):
            return 'yes'
        if name in st.weak:
            return 'weak'
        return 'no'

    # -------------------------------------------------------------- expressions
    def expr(self, node, st):
        """Check the reads of `node` in evaluation order, return the state after it (walrus targets bound)."""
        if node is None or st is TOP:
            return st
        if isinstance(node, ast.Name):
            if isinstance(node.ctx, ast.Load) and node.id in self.locals:
                self.reads_checked += 1
                b = self.is_bound(st, node.id)
                if b != 'yes':
                    self.findings.append(Finding(node.id, node, 'unbound' if b == 'no' else 'loop-dependent'))
            return st
        if isinstance(node, ast.NamedExpr):
            st = self.expr(node.value, st)
            return st.bind([node.target.id], self.reads_of_fact)
        if isinstance(node, (ast.Lambda, ast.FunctionDef, ast.AsyncFunctionDef)):
            return st        # body runs at call time
        if isinstance(node, ast.BoolOp):
            st = self.expr(node.values[0], st)
            inner = st
            for i, v in enumerate(node.values[1:]):
                inner = self.add_facts(inner, node.values[i], isinstance(node.op, ast.And))
                inner = self.expr(v, inner)
            return st        # bindings of later operands are conditional
        if isinstance(node, ast.IfExp):
            st = self.expr(node.test, st)
            self.expr(node.body, self.add_facts(st, node.test, True))
            self.expr(node.orelse, self.add_facts(st, node.test, False))
            return st
        if isinstance(node, (ast.ListComp, ast.SetComp, ast.GeneratorExp, ast.DictComp)):
            inner = st
            own = []
            for g in node.generators:
                inner = self.expr(g.iter, inner)
                own += _targets(g.target, [])
                inner = inner.bind(own, self.reads_of_fact) if inner is not TOP else inner
                for c in g.ifs:
                    inner = self.expr(c, inner)
            shadow = set(own) & self.locals
            saved = self.locals
            self.locals = self.locals - shadow
            try:
                if isinstance(node, ast.DictComp):
                    self.expr(node.key, inner)
                    self.expr(node.value, inner)
                else:
                    self.expr(node.elt, inner)
            finally:
                self.locals = saved
            return st
        for ch in ast.iter_child_nodes(node):
            if not isinstance(ch, (ast.expr_context, ast.operator, ast.cmpop, ast.boolop, ast.unaryop)):
                st = self.expr(ch, st)
        return st

    # -------------------------------------------------------------- statements
    def block(self, stmts, st):
        for s in stmts:
            if st is TOP:
                break
            st = self.stmt(s, st)
        return st

    def stmt(self, s, st):
        rf = self.reads_of_fact
        if isinstance(s, (ast.FunctionDef, ast.AsyncFunctionDef, ast.ClassDef)):
            for d in s.decorator_list:
                st = self.expr(d, st)
            return st.bind([s.name], rf)
        if isinstance(s, ast.Assign):
            st = self.expr(s.value, st)
            for t in s.targets:
                st = self._store(t, st)
            return st
        if isinstance(s, ast.AnnAssign):
            if s.value is None:
                return st
            st = self.expr(s.value, st)
            return self._store(s.target, st)
        if isinstance(s, ast.AugAssign):
            st = self.expr(s.value, st)
            if isinstance(s.target, ast.Name):
                load = ast.copy_location(ast.Name(id=s.target.id, ctx=ast.Load()), s.target)
                st = self.expr(load, st)
            return self._store(s.target, st)
        if isinstance(s, (ast.Return, ast.Raise)):
            for ch in ast.iter_child_nodes(s):
                st = self.expr(ch, st)
            return TOP
        if isinstance(s, ast.Break):
            if self.breaks:
                self.breaks[-1].append(st)
            return TOP
        if isinstance(s, ast.Continue):
            if self.continues:
                self.continues[-1].append(st)
            return TOP
        if isinstance(s, ast.Delete):
            names = []
            for t in s.targets:
                if isinstance(t, ast.Name):
                    self.expr(ast.copy_location(ast.Name(id=t.id, ctx=ast.Load()), t), st)
                    names.append(t.id)
                else:
                    st = self.expr(t, st)
            return st.unbind(names)
        if isinstance(s, (ast.Import, ast.ImportFrom)):
            return st.bind([(a.asname or a.name).split('.')[0] for a in s.names], rf)
        if isinstance(s, ast.If):
            st = self.expr(s.test, st)
            a = self.block(s.body, self.add_facts(st, s.test, True))
            b = self.block(s.orelse, self.add_facts(st, s.test, False))
            return self._merge_if(s.test, st, a, b)
        if isinstance(s, (ast.For, ast.AsyncFor)):
            st = self.expr(s.iter, st)
            body_in = self._store(s.target, st)
            body_in = self._loop_entry(s.body, body_in)
            self.breaks.append([])
            self.continues.append([])
            mark = len(self.findings)
            body_out = self.block(s.body, body_in)
            brk = self.breaks.pop()
            self._carried(mark, [body_out] + self.continues.pop())
            # zero iterations: nothing of the body is bound; at least one: the body's bindings hold weakly
            after = self._weaken(st, body_out if body_out is not TOP else body_in)
            if s.orelse:
                after = self.block(s.orelse, after)
            for b in brk:
                after = join(after, b)
            return after
        if isinstance(s, ast.While):
            st = self.expr(s.test, st)
            forever = isinstance(s.test, ast.Constant) and bool(s.test.value)
            st = self._loop_entry(s.body, st, s.test)
            self.breaks.append([])
            self.continues.append([])
            mark = len(self.findings)
            body_out = self.block(s.body, self.add_facts(st, s.test, True))
            brk = self.breaks.pop()
            self._carried(mark, [body_out] + self.continues.pop())
            if forever:
                after = TOP
            else:
                after = self._weaken(st, body_out if body_out is not TOP else st)
                after = self.add_facts(after, s.test, False) if after is not TOP else after
                if s.orelse:
                    after = self.block(s.orelse, after)
            for b in brk:
                after = join(after, b)
            return after
        if isinstance(s, (ast.With, ast.AsyncWith)):
            for it in s.items:
                st = self.expr(it.context_expr, st)
                if it.optional_vars is not None:
                    st = self._store(it.optional_vars, st)
            return self.block(s.body, st)
        if isinstance(s, ast.Try) or s.__class__.__name__ == 'TryStar':
            body_out = self.block(s.body, st)
            if s.orelse and body_out is not TOP:
                body_out = self.block(s.orelse, body_out)
            outs = [body_out]
            for h in s.handlers:
                hin = self._weaken(st, body_out if body_out is not TOP else st)
                if h.type is not None:
                    hin = self.expr(h.type, hin)
                if h.name:
                    hin = hin.bind([h.name], rf)
                hout = self.block(h.body, hin)
                if hout is not TOP and h.name:
                    hout = hout.unbind([h.name])
                outs.append(hout)
            after = TOP
            for o in outs:
                after = join(after, o)
            if s.finalbody:
                fin_in = self._weaken(st, after if after is not TOP else st)
                fin_out = self.block(s.finalbody, fin_in)
                if fin_out is TOP:
                    return TOP
                if after is not TOP:
                    after = self.block(s.finalbody, after) if False else St(
                        after.bound | (fin_out.bound - fin_in.bound), after.weak | (fin_out.weak - fin_in.weak),
                        after.facts & fin_out.facts, after.cond)
            return after
        if isinstance(s, ast.Match):
            st = self.expr(s.subject, st)
            outs, exhaustive = [], False
            for c in s.cases:
                cin = st
                names = [n.name for n in ast.walk(c.pattern) if isinstance(n, (ast.MatchAs, ast.MatchStar)) and n.name]
                names += [n.rest for n in ast.walk(c.pattern) if isinstance(n, ast.MatchMapping) and n.rest]
                cin = cin.bind(names, rf)
                if c.guard is not None:
                    cin = self.expr(c.guard, cin)
                outs.append(self.block(c.body, cin))
                if c.guard is None and isinstance(c.pattern, ast.MatchAs) and c.pattern.pattern is None:
                    exhaustive = True
            after = TOP if exhaustive else st
            for o in outs:
                after = join(after, o)
            return after
        if isinstance(s, (ast.Global, ast.Nonlocal, ast.Pass)):
            return st
        if isinstance(s, ast.Assert):
            st = self.expr(s.test, st)
            if s.msg is not None:
                self.expr(s.msg, st)
            return self.add_facts(st, s.test, True)
        # Expr and anything else: evaluate the children in order
        for ch in ast.iter_child_nodes(s):
            st = self.expr(ch, st)
        if isinstance(s, ast.Expr) and isinstance(s.value, ast.Call) and self.noreturn is not None and self.noreturn(s.value):
            return TOP                      # `_refuse(msg)`: a helper that always raises ends the path like a raise
        return st

    def _carried(self, mark, ends):
        """A name read in a loop body before the body binds it may be protected by first-iteration logic
        (`if not first: use(prev)`): whether it is depends on run-time values, so the finding is informational."""
        later = set()
        for e in ends:
            if e is not TOP:
                later |= e.bound | e.weak
        for f in self.findings[mark:]:
            if f.grade == 'unbound' and f.name in later:
                f.grade = 'loop-dependent'

    def _loop_entry(self, body, st, test=None):
        """Entry state of a loop body on any iteration: the facts (and conditional bindings) that survive one
        silent pass over the body."""
        if st is TOP:
            return st
        saved = (self.findings, self.reads_checked)
        self.findings = []
        self.breaks.append([])
        self.continues.append([])
        try:
            first = self.add_facts(st, test, True) if test is not None else st
            out = self.block(body, first)
            conts = self.continues[-1]
        finally:
            self.breaks.pop()
            self.continues.pop()
            self.findings, self.reads_checked = saved
        again = st
        for o in [out] + conts:
            if o is not TOP:
                again = St(again.bound & o.bound | again.bound, again.weak, again.facts & o.facts,
                           frozenset(again.cond & o.cond))
        return again

    def _store(self, target, st):
        if st is TOP:
            return st
        names = _targets(target, [])
        # subscripts / attributes in a target read their base
        for n in ast.walk(target):
            if isinstance(n, (ast.Subscript, ast.Attribute)):
                st = self.expr(n.value, st)
                if isinstance(n, ast.Subscript):
                    st = self.expr(n.slice, st)
        return st.bind(names, self.reads_of_fact)

    @staticmethod
    def _weaken(before, after):
        """State after a region that may not have run (or not to its end): only `before` is certain, what the region
        binds is bound weakly."""
        if before is TOP:
            return TOP
        if after is TOP:
            return before
        return St(before.bound, before.weak | after.weak | after.bound, before.facts & after.facts, before.cond)

    def _merge_if(self, test, before, a, b):
        out = join(a, b)
        if out is TOP or a is TOP or b is TOP:
            return out
        cond = set(out.cond)
        fa, fb = self.fact(test, True), self.fact(test, False)
        split = not isinstance(test, ast.BoolOp)
        # the arm's own fact is still in its final state only if the arm re-bound none of the names the test reads
        for n in a.bound - b.bound:
            if fa is not None and split and fa in a.facts:
                cond.add((n, fa))
        for n in b.bound - a.bound:
            if fb is not None and split and fb in b.facts:
                cond.add((n, fb))
        return St(out.bound, out.weak | ((a.weak | a.bound) & (b.weak | b.bound)), out.facts, frozenset(cond))

    def run(self):
        st = St(frozenset(), frozenset())
        for d in self.fn.args.defaults + [x for x in self.fn.args.kw_defaults if x is not None]:
            pass        # evaluated in the enclosing scope
        self.end = self.block(self.fn.body, st)
        return self

    @property
    def never_returns(self) -> bool:
        """Every path through the function ends in a raise (no return statement, no falling off the end)."""
        own = [n for n in _own_nodes(self.fn)]
        return self.end is TOP and not any(isinstance(n, (ast.Return, ast.Yield, ast.YieldFrom)) for n in own)


def _own_nodes(fn):
    todo = list(fn.body)
    while todo:
        n = todo.pop()
        yield n
        for ch in ast.iter_child_nodes(n):
            if not isinstance(ch, (ast.FunctionDef, ast.AsyncFunctionDef, ast.Lambda, ast.ClassDef)):
                todo.append(ch)


def analyse(fn, noreturn=None) -> Definite:
    return Definite(fn, noreturn).run()


# ---------------------------------------------------------------------------------------------- unresolved names
import builtins as _builtins

_MODULE_DUNDERS = {'__file__', '__name__', '__doc__', '__package__', '__spec__', '__loader__', '__path__', '__builtins__',
                   '__class__', '__debug__', '__annotations__', '__dict__', '__qualname__', '__module__'}


def module_names(tree, star_names=()) -> set:
    """Names a module body can bind (anywhere outside function and class bodies), imports included."""
    out = set(star_names)

    def walk(node):
        for ch in ast.iter_child_nodes(node):
            if isinstance(ch, (ast.FunctionDef, ast.AsyncFunctionDef, ast.ClassDef)):
                out.add(ch.name)
                continue
            if isinstance(ch, ast.Lambda):
                continue
            if isinstance(ch, ast.Name) and isinstance(ch.ctx, ast.Store):
                out.add(ch.id)
            elif isinstance(ch, (ast.Import, ast.ImportFrom)):
                for a in ch.names:
                    if a.name != '*':
                        out.add((a.asname or a.name).split('.')[0])
            elif isinstance(ch, ast.ExceptHandler) and ch.name:
                out.add(ch.name)
            walk(ch)
    walk(tree)
    # `global x` inside functions also creates module names
    for n in ast.walk(tree):
        if isinstance(n, ast.Global):
            out.update(n.names)
    return out


def unresolved_names(fn, enclosing: set, module: set) -> list:
    """Loads of names that no scope visible from `fn` can ever bind: not local to it (or to a comprehension / lambda /
    nested function around the read), not a local of an enclosing function, not a module name, not a builtin."""
    found = []
    known = set(module) | set(dir(_builtins)) | _MODULE_DUNDERS | set(enclosing)

    def scope_names(node):
        names = set()
        if isinstance(node, (ast.FunctionDef, ast.AsyncFunctionDef, ast.Lambda)):
            a = node.args
            names |= {x.arg for x in a.posonlyargs + a.args + a.kwonlyargs}
            if a.vararg:
                names.add(a.vararg.arg)
            if a.kwarg:
                names.add(a.kwarg.arg)
            if not isinstance(node, ast.Lambda):
                names |= local_names(node)
                for n in ast.walk(node):
                    if isinstance(n, (ast.Global, ast.Nonlocal)):
                        names.update(n.names)
        elif isinstance(node, (ast.ListComp, ast.SetComp, ast.DictComp, ast.GeneratorExp)):
            for g in node.generators:
                names |= set(_targets(g.target, []))
        elif isinstance(node, ast.ClassDef):
            for n in node.body:
                for w in ast.walk(n):
                    if isinstance(w, ast.Name) and isinstance(w.ctx, ast.Store):
                        names.add(w.id)
                    elif isinstance(w, (ast.FunctionDef, ast.AsyncFunctionDef, ast.ClassDef)):
                        names.add(w.name)
        return names

    def walk(node, visible):
        for ch in ast.iter_child_nodes(node):
            if isinstance(ch, (ast.FunctionDef, ast.AsyncFunctionDef, ast.Lambda, ast.ListComp, ast.SetComp, ast.DictComp,
                               ast.GeneratorExp, ast.ClassDef)):
                walk(ch, visible | scope_names(ch))
            elif isinstance(ch, ast.Name) and isinstance(ch.ctx, ast.Load):
                if ch.id not in visible and ch.id not in known:
                    found.append(ch)
            else:
                walk(ch, visible)
    walk(fn, scope_names(fn))
    return found


class Raisers:
    """Which functions of the project never return (every path raises, directly or through another such function)."""
    def __init__(self, project):
        self.p = project
        self.memo: dict = {}

    def callee(self, f, call):
        p = self.p
        cq = p.resolve_static(f.module, call.func, f)
        if cq is None and isinstance(call.func, ast.Attribute) and isinstance(call.func.value, ast.Name) and \
                call.func.value.id in ('self', 'cls') and f.cls is not None:
            m = p.find_method(f.cls, call.func.attr)
            cq = m.qname if m is not None else None
        return p.funcs.get(cq) if cq else None

    def never_returns(self, f, call) -> bool:
        cf = self.callee(f, call)
        return cf is not None and self.is_raiser(cf)

    def is_raiser(self, cf) -> bool:
        if cf.qname not in self.memo:
            self.memo[cf.qname] = False          # recursion guard
            self.memo[cf.qname] = analyse(cf.node, noreturn=lambda c, cf=cf: self.never_returns(cf, c)).never_returns
        return self.memo[cf.qname]

    def call_sites(self) -> list:
        """(function, call node) of every call of a never-returning function of the project."""
        out = []
        for f in self.p.funcs.values():
            for n in _own_nodes(f.node):
                if isinstance(n, ast.Call) and self.never_returns(f, n):
                    out.append((f, n))
        return out
