"""E7c - rounding discipline in front of a discretisation.

The numeric kernels (sa/kernel.py) decide the WMO conversions in exact real arithmetic.  The program
computes in binary64; the two agree at a discretisation (floor / ceil / round / int) exactly when the
value handed to it is computed *without an intermediate rounding error at the points where the
discretisation switches*.  That is a property of the shape of the expression, decided here:

  a value is needed exactly on a lattice q*Z (q a dyadic rational: the integers for floor / ceil / int, the
  half-integers for round).  Walking the expression from the discretisation to its leaves,

    A * c, A / c   (c a constant)     c must be a short dyadic rational (0.01, 0.08 are not); A is needed on
                                      (q/c)*Z resp. (q*c)*Z, which must again be dyadic
    A / n          (n an integer leaf) A is needed on q*Z (a multiple of a dyadic stays dyadic)
    A * x, x / A, A +- B              nothing is known about A: it must be a leaf or integer arithmetic

  a single IEEE operation on exact operands whose true result is representable is exact (correct rounding),
  so an expression that passes is exact on the lattice; one that fails contains an operation whose result is
  rounded before the discretisation (100 / total, perc / 100, val * 0.01, ...), and there are inputs on the
  lattice for which the rounded value falls on the other side (15 of 48 hits: 31.25 % is 2 oktas, 15 * (100 /
  48) = 31.250000000000004 is 3).

Leaves (parameters, table cells, calls the rule does not look into) are exact by definition: the real-number
reading of the program is over their floating-point values.  Integer magnitudes are assumed below 2**53.
"""
from __future__ import annotations

from fractions import Fraction as F

from . import terms as T
from .terms import tag

ROUNDERS = {'numpy.floor': F(1), 'numpy.ceil': F(1), 'numpy.trunc': F(1), 'numpy.fix': F(1), 'math.floor': F(1),
            'math.ceil': F(1), 'math.trunc': F(1), 'builtins.int': F(1),
            'numpy.round': F(1, 2), 'numpy.rint': F(1, 2), 'numpy.around': F(1, 2), 'builtins.round': F(1, 2),
            'numpy.round_': F(1, 2)}
TRANSPARENT_CALLS = {'numpy.array', 'numpy.asarray', 'numpy.atleast_1d', 'builtins.float', 'numpy.float64',
                     'numpy.squeeze', 'numpy.ravel'}
TRANSPARENT_METHODS = {'astype', 'copy', 'to_numpy', 'item', 'squeeze', 'ravel', 'flatten'}
INT_CALLS = {'builtins.len', 'builtins.int', 'numpy.count_nonzero', 'numpy.size'}


def is_dyadic(q: F, bits: int = 20) -> bool:
    d = q.denominator
    return d & (d - 1) == 0 and d <= (1 << bits) and abs(q.numerator) < (1 << 40)


def const_value(t):
    if tag(t) == 'c' and isinstance(t[1], (int, float)) and not isinstance(t[1], bool):
        v = t[1]
        if isinstance(v, float) and (v != v or v in (float('inf'), float('-inf'))):
            return None
        return F(v)
    if tag(t) == 'un' and t[1] == '-':
        v = const_value(t[2])
        return None if v is None else -v
    return None


class Discipline:
    def __init__(self, is_int=None, param_lattice=None):
        """is_int(term) -> bool: site knowledge of integer-valued leaves; param_lattice(qname) -> F | None: the lattice
        on which a package function needs its first argument (for calls that discretise inside)."""
        self.user_int = is_int or (lambda t: False)
        self.param_lattice = param_lattice or (lambda q: None)
        self.findings = []          # (offending subterm, reason)
        self.leaf_lattice = {}      # leaf term -> set of lattices it is needed on (None = unknown)
        self.roots = []             # (rounding call, lattice)
        self._memo = set()

    # ------------------------------------------------------------------ integer typing
    def is_int(self, t) -> bool:
        tg = tag(t)
        if tg == 'c':
            return isinstance(t[1], int) and not isinstance(t[1], bool)
        if self.user_int(t):
            return True
        if tg == 'call' and tag(t[1]) == 'g' and t[1][1] in INT_CALLS:
            return True
        if tg == 'bin' and t[1] in ('+', '-', '*', '//', '%'):
            return self.is_int(t[2]) and self.is_int(t[3])
        if tg == 'un' and t[1] == '-':
            return self.is_int(t[2])
        if tg == 'call' and tag(t[1]) == 'g' and t[1][1] in ('numpy.sum', 'builtins.sum') and t[2]:
            a = T.peel(t[2][0])
            if tag(a) == 'lc':
                return self.is_int(a[2])
            if tag(a) == 'list':
                return all(self.is_int(x) for x in a[1])
        return False

    def is_arith(self, t) -> bool:
        return (tag(t) == 'bin' and t[1] in ('+', '-', '*', '/', '//', '%', '**')) or (tag(t) == 'un' and t[1] == '-')

    # ------------------------------------------------------------------ roots
    def scan(self, t) -> None:
        """Find every discretisation in t and check what it is applied to."""
        for x in T.walk(t):
            if tag(x) == 'call' and tag(x[1]) == 'g' and x[1][1] in ROUNDERS and x[2]:
                head = x[1][1]
                if head in ('numpy.round', 'numpy.around', 'builtins.round', 'numpy.round_'):
                    dec = x[2][1] if len(x[2]) > 1 else dict(x[3]).get('decimals', dict(x[3]).get('ndigits'))
                    if dec is not None and dec not in (T.C(0), T.NONE):
                        continue        # rounding to decimals is approximate by nature
                q = ROUNDERS[head]
                self.roots.append((x, q))
                self.need(x[2][0], q)
            elif tag(x) == 'bin' and x[1] == '//':
                c = const_value(x[3])
                self.roots.append((x, c))
                if c is not None and is_dyadic(c):
                    self.need(x[2], c)
                elif not (self.is_int(x[2]) and self.is_int(x[3])):
                    self.need(x[2], None)

    # ------------------------------------------------------------------ descent
    def need(self, t, q) -> None:
        """t is needed exactly wherever its true value lies on q*Z (q None: everywhere)."""
        key = (id(t), q)
        if key in self._memo:
            return
        self._memo.add(key)
        tg = tag(t)
        if self.is_int(t):
            return
        if tg in ('mask', 'rows', 'vals', 'sub', 'cell'):
            self.need(t[1], q)
            return
        if tg == 'upd':
            self.need(t[1], q)
            self.need(t[3], q)
            return
        if tg == 'phi':
            for _, v in t[1]:
                self.need(v, q)
            return
        if tg == 'ifexp':
            self.need(t[2], q)
            self.need(t[3], q)
            return
        if tg == 'call' and tag(t[1]) == 'g':
            head = t[1][1]
            if head in TRANSPARENT_CALLS and t[2]:
                self.need(t[2][0], q)
                return
            if head in ROUNDERS:
                return                      # its own root
            if head in ('numpy.full_like', 'numpy.zeros_like', 'numpy.ones_like', 'numpy.full', 'numpy.zeros'):
                return
            pl = self.param_lattice(head)
            if pl is not None and t[2]:
                self.roots.append((t, pl))
                self.need(t[2][0], pl)
                return
        if tg == 'mcall' and t[2] in TRANSPARENT_METHODS:
            self.need(t[1], q)
            return
        if tg in ('list', 'tuple') and len(t[1]) == 1:
            self.need(t[1][0], q)
            return
        if tg == 'un' and t[1] == '-':
            self.need(t[2], q)
            return
        if tg == 'bin' and t[1] in ('*', '/', '+', '-'):
            self._arith(t, q)
            return
        if self.is_arith(t):
            self.findings.append((t, 'operation outside the rounding-discipline subset in front of a discretisation'))
            return
        # a leaf
        self.leaf_lattice.setdefault(t, set()).add(q)

    def _operand(self, t, q, parent) -> None:
        """An operand that is not a plain leaf must be exact on its own lattice."""
        c = const_value(t)
        if c is not None:
            if not is_dyadic(c):
                self.findings.append((parent, f'the constant {float(c)!r} is not exactly representable in binary '
                                              'floating point'))
            return
        if q is None and self.is_arith(T.peel(t)) and not self.is_int(t):
            self.findings.append((t, 'this intermediate result is rounded before the discretisation, and nothing '
                                     'makes it exact where the discretisation switches'))
            return
        self.need(t, q)

    def _arith(self, t, q) -> None:
        op, a, b = t[1], t[2], t[3]
        ca, cb = const_value(a), const_value(b)
        if op == '*':
            if ca is not None and cb is None:
                a, b, ca, cb = b, a, cb, ca
            if cb is not None:
                self._operand(b, None, t)
                qa = None if q is None or cb == 0 else q / abs(cb)
                self._operand(a, qa if qa is not None and is_dyadic(qa) else None, t)
                return
            # product of two non-constants: exact when both are leaves and the result is on the lattice
            if q is None and not (self.is_int(a) and self.is_int(b)):
                self.findings.append((t, 'this product is rounded before the discretisation'))
                return
            if self.is_int(b):
                a, b = b, a
            self._operand(a, None, t)
            self._operand(b, None, t)
            return
        if op == '/':
            if q is None:
                self.findings.append((t, 'this quotient is rounded before the discretisation, and nothing makes it '
                                         'exact where the discretisation switches'))
                return
            if cb is not None:
                self._operand(b, None, t)
                qa = q * abs(cb)
                self._operand(a, qa if is_dyadic(qa) else None, t)
                return
            if self.is_int(b):
                self._operand(a, q, t)
                return
            self._operand(a, None, t)
            self._operand(b, None, t)
            return
        # + and -
        if ca is not None or cb is not None:
            c = ca if ca is not None else cb
            other = b if ca is not None else a
            self._operand(a if ca is not None else b, None, t)
            # shifting by a lattice point keeps the lattice
            self._operand(other, q if q is not None and (c / q).denominator == 1 else None, t)
            return
        self._operand(a, None, t)
        self._operand(b, None, t)

    # ------------------------------------------------------------------ result
    def lattice_of(self, leaf):
        """The (finest common) lattice the leaf is needed on, or None."""
        qs = self.leaf_lattice.get(leaf)
        if not qs or None in qs:
            return None
        from math import gcd
        num = 0
        den = 1
        for q in qs:
            den = den * q.denominator // gcd(den, q.denominator)
        for q in qs:
            num = gcd(num, int(q * den))
        return F(num, den) if num else None
