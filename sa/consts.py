"""Module-level and class-level constants as values.

A name bound exactly once, outside every function, to an expression built from literals, tuples / lists / dicts of
constants, other such names (of this or of another project module), arithmetic on numeric constants, constructor calls of
the package's NamedTuple / dataclass records and references to functions or classes, *is* that value wherever it is
read: code driven by a named table reads like the literal it replaces.  Mutable containers (list / dict / set literals)
qualify only when nothing in the package modifies an object of that name (subscript store, `del x[..]`, augmented
assignment, mutating method) - a modified module-level container is shared state and stays a global for the effect
analysis."""
from __future__ import annotations

import ast
import operator

from sa import terms as T
from sa.terms import tag, C

MUTATORS = {'append', 'extend', 'insert', 'pop', 'remove', 'clear', 'update', 'setdefault', 'sort', 'reverse', 'add',
            'discard', 'popitem', '__setitem__', '__delitem__', 'difference_update', 'intersection_update',
            'symmetric_difference_update'}
_FOLD = {ast.Add: operator.add, ast.Sub: operator.sub, ast.Mult: operator.mul, ast.Div: operator.truediv,
         ast.FloorDiv: operator.floordiv, ast.Mod: operator.mod, ast.Pow: operator.pow}

_MUTATED: dict = {}
_CACHE: dict = {}


def mutated_names(project) -> set:
    """Bare names (of variables or attributes) of objects that some statement of the package modifies in place."""
    key = id(project)
    if key in _MUTATED:
        return _MUTATED[key]
    out = set()

    def base_name(n):
        while isinstance(n, ast.Subscript):
            n = n.value
        if isinstance(n, ast.Name):
            return n.id
        if isinstance(n, ast.Attribute):
            return n.attr
        return None
    for mod in project.modules.values():
        for n in ast.walk(mod.tree):
            if isinstance(n, ast.Subscript) and isinstance(n.ctx, (ast.Store, ast.Del)):
                b = base_name(n.value)
                if b:
                    out.add(b)
            elif isinstance(n, ast.AugAssign):
                b = base_name(n.target)
                if b and not isinstance(n.target, ast.Name):
                    out.add(b)
                elif isinstance(n.target, ast.Name):
                    out.add(n.target.id)      # `x += [..]` extends a list in place
            elif isinstance(n, ast.Call) and isinstance(n.func, ast.Attribute) and n.func.attr in MUTATORS:
                b = base_name(n.func.value)
                if b:
                    out.add(b)
    # an object modified through another name: `prms = hardcoded.TABLE; prms['k'] = v` modifies TABLE. Names are not
    # scoped here (an over-approximation: it only makes fewer names count as constants)
    aliases = {}
    for mod in project.modules.values():
        for n in ast.walk(mod.tree):
            tgt = val = None
            if isinstance(n, ast.Assign) and len(n.targets) == 1:
                tgt, val = n.targets[0], n.value
            elif isinstance(n, (ast.AnnAssign, ast.NamedExpr)) and n.value is not None:
                tgt, val = n.target, n.value
            if tgt is None or not isinstance(tgt, (ast.Name, ast.Attribute)):
                continue
            alts = [val.body, val.orelse] if isinstance(val, ast.IfExp) else [val]
            for v in alts:
                if isinstance(v, (ast.Name, ast.Attribute)):
                    aliases.setdefault(base_name(tgt), set()).add(base_name(v))
    work = list(out)
    while work:
        m = work.pop()
        for a in aliases.get(m, ()):
            if a and a not in out:
                out.add(a)
                work.append(a)
    _MUTATED[key] = out
    return out


def _has_mutable(t) -> bool:
    return any(tag(x) in ('list', 'dict', 'set') for x in T.walk(t))


def const_eval(project, mod, node, cls=None, depth=0, record_fields=None):
    """Term of a constant expression evaluated in module `mod` (inside class `cls` if given), or None."""
    if depth > 12 or node is None:
        return None
    rec = lambda n: const_eval(project, mod, n, cls, depth + 1, record_fields)     # noqa: E731
    if isinstance(node, ast.Constant):
        v = node.value
        if isinstance(v, (int, float, str, bool)) or v is None:
            return C(v)
        return None
    if isinstance(node, ast.UnaryOp) and isinstance(node.op, (ast.USub, ast.UAdd)):
        v = rec(node.operand)
        if v is not None and T.is_const(v) and isinstance(v[1], (int, float)) and not isinstance(v[1], bool):
            return C(-v[1] if isinstance(node.op, ast.USub) else v[1])
        return None
    if isinstance(node, (ast.Tuple, ast.List, ast.Set)):
        if any(isinstance(e, ast.Starred) for e in node.elts):
            return None
        items = [rec(e) for e in node.elts]
        if any(i is None for i in items):
            return None
        return ({ast.Tuple: 'tuple', ast.List: 'list', ast.Set: 'set'}[type(node)], tuple(items))
    if isinstance(node, ast.Dict):
        pairs = []
        for k, v in zip(node.keys, node.values):
            if k is None:
                return None
            kt, vt = rec(k), rec(v)
            if kt is None or vt is None:
                return None
            pairs.append((kt, vt))
        return ('dict', tuple(pairs))
    if isinstance(node, ast.BinOp) and type(node.op) in _FOLD:
        a, b = rec(node.left), rec(node.right)
        if a is None or b is None:
            return None
        if T.is_const(a) and T.is_const(b) and all(isinstance(x[1], (int, float)) and not isinstance(x[1], bool) for x in (a, b)):
            try:
                return C(_FOLD[type(node.op)](a[1], b[1]))
            except (ZeroDivisionError, OverflowError, ValueError):
                return None
        if isinstance(node.op, ast.Add) and T.is_const(a) and T.is_const(b) and isinstance(a[1], str) and isinstance(b[1], str):
            return C(a[1] + b[1])
        if isinstance(node.op, ast.Add) and tag(a) == tag(b) and tag(a) in ('tuple', 'list'):
            return (tag(a), a[1] + b[1])
        return None
    if isinstance(node, ast.Name) and cls is not None and node.id in cls.class_attrs and depth < 12:
        # an earlier name of the same class body
        return const_eval(project, mod, cls.class_attrs[node.id], cls, depth + 1, record_fields)
    if isinstance(node, (ast.Name, ast.Attribute)):
        q = project.resolve_static(mod, node, None)
        if q is None:
            return None
        v = global_value(project, q, depth + 1, record_fields)
        if v is not None:
            return v
        if q in project.funcs or q in project.classes or not q.startswith(project.pkg + '.'):
            modq = q.rpartition('.')[0]
            if q in project.funcs or q in project.classes or modq not in project.modules:
                return ('g', q)          # a function / class / external object referred to by a table
        return None
    if isinstance(node, ast.Call) and record_fields is not None:
        q = project.resolve_static(mod, node.func, None)
        k = project.classes.get(q) if q else None
        fields = record_fields(project, k) if k is not None else None
        if fields is not None and not any(isinstance(a, ast.Starred) for a in node.args) and \
                not any(kw.arg is None for kw in node.keywords):
            vals = {}
            for (nm, _), a in zip(fields, node.args):
                vals[nm] = rec(a)
            for kw in node.keywords:
                vals[kw.arg] = rec(kw.value)
            for nm, dflt in fields:
                if nm not in vals:
                    vals[nm] = const_eval(project, k.module, dflt, None, depth + 1, record_fields) if dflt is not None else None
            if any(v is None for v in vals.values()) or set(vals) != {nm for nm, _ in fields}:
                return None
            return ('record', q, tuple((nm, vals[nm]) for nm, _ in fields))
        if q in ('types.MappingProxyType', 'builtins.dict') and len(node.args) == 1 and not node.keywords:
            inner = rec(node.args[0])          # a read-only view of / a copy of a literal dictionary: the dictionary
            if inner is not None and tag(inner) == 'dict':
                return inner
        if q in ('builtins.tuple', 'builtins.frozenset', 'builtins.list') and len(node.args) == 1 and not node.keywords:
            inner = rec(node.args[0])
            if inner is not None and tag(inner) in ('tuple', 'list', 'set'):
                return ({'builtins.tuple': 'tuple', 'builtins.frozenset': 'tuple', 'builtins.list': 'list'}[q], inner[1])
        return None
    return None


def global_value(project, q: str, depth=0, record_fields=None):
    """Value of the module-level name q if it is a constant in the sense of this module, else None."""
    key = (id(project), q)
    if key in _CACHE:
        return _CACHE[key]
    modq, _, nm = q.rpartition('.')
    mod = project.modules.get(modq)
    out = None
    if mod is not None and nm not in mod.functions and nm not in mod.classes and not nm.startswith('__'):
        nodes = mod.globals.get(nm, [])
        if len(nodes) == 1 and not _rebound_in_functions(project, mod, nm):
            out = const_eval(project, mod, nodes[0], None, depth, record_fields)
            if out is not None and _has_mutable(out) and nm in mutated_names(project):
                out = None
    if depth == 0 or out is not None:
        _CACHE[key] = out
    return out


_REBOUND: dict = {}


def _rebound_in_functions(project, mod, nm) -> bool:
    """`global nm` somewhere in the module: the name is a variable, not a constant."""
    key = (id(project), mod.name)
    if key not in _REBOUND:
        _REBOUND[key] = {n for g in ast.walk(mod.tree) if isinstance(g, ast.Global) for n in g.names}
    return nm in _REBOUND[key]


def class_value(project, cls, name, record_fields=None):
    node = cls.class_attrs.get(name)
    if node is None:
        return None
    out = const_eval(project, cls.module, node, cls, 0, record_fields)
    if out is not None and _has_mutable(out) and name in mutated_names(project):
        return None
    return out
