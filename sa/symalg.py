"""Tiny exact algebra of Laurent polynomials in opaque atoms (terms), used to decide that two affine
maps written in the source are mutually inverse (E7, C19)."""
from __future__ import annotations

from fractions import Fraction as F

from . import terms as T
from .core import AnalysisError
from .terms import tag


class Poly:
    """sum of coef * prod(atom ** exp); monomial = tuple of (atom key, exp) sorted."""

    def __init__(self, d=None):
        self.d = {k: v for k, v in (d or {}).items() if v != 0}

    @staticmethod
    def const(c):
        return Poly({(): F(c)})

    @staticmethod
    def atom(a):
        return Poly({((T.key(a), 1),): F(1)})

    def __add__(self, o):
        d = dict(self.d)
        for k, v in o.d.items():
            d[k] = d.get(k, 0) + v
        return Poly(d)

    def __neg__(self):
        return Poly({k: -v for k, v in self.d.items()})

    def __sub__(self, o):
        return self + (-o)

    def __mul__(self, o):
        d = {}
        for k1, v1 in self.d.items():
            for k2, v2 in o.d.items():
                m = dict(k1)
                for a, e in k2:
                    m[a] = m.get(a, 0) + e
                key = tuple(sorted((a, e) for a, e in m.items() if e != 0))
                d[key] = d.get(key, 0) + v1 * v2
        return Poly(d)

    def is_monomial(self):
        return len(self.d) == 1

    def inv(self):
        if not self.is_monomial():
            raise AnalysisError('E7', 'division by a sum that was not atomised')
        (k, v), = self.d.items()
        return Poly({tuple(sorted((a, -e) for a, e in k)): 1 / v})

    def __eq__(self, o):
        return isinstance(o, Poly) and self.d == o.d

    def coef_of(self, atom):
        """(coefficient polynomial of atom^1, rest) when the polynomial is affine in atom."""
        ak = T.key(atom)
        co, rest = {}, {}
        for k, v in self.d.items():
            exps = dict(k)
            if ak in exps:
                if exps[ak] != 1:
                    raise AnalysisError('E7', 'not affine in the variable')
                kk = tuple(sorted((a, e) for a, e in k if a != ak))
                co[kk] = co.get(kk, 0) + v
            else:
                rest[k] = v
        return Poly(co), Poly(rest)

    def coef_of_name(self, name):
        """coef_of for an atom given by its key string."""
        co, rest = {}, {}
        for k, v in self.d.items():
            exps = dict(k)
            if name in exps:
                if exps[name] != 1:
                    raise AnalysisError('E7', 'not affine in the variable')
                kk = tuple(sorted((a, e) for a, e in k if a != name))
                co[kk] = co.get(kk, 0) + v
            else:
                rest[k] = v
        return Poly(co), Poly(rest)

    def show(self):
        if not self.d:
            return '0'
        out = []
        for k, v in sorted(self.d.items(), key=lambda kv: str(kv[0])):
            mon = '*'.join((a if len(a) < 40 else a[:37] + '...') + (f'^{e}' if e != 1 else '') for a, e in k)
            out.append((f'{v}*' if v != 1 or not mon else '') + (mon or ''))
        return ' + '.join(out)


def denominators(t, acc=None):
    """Non-trivial (sum-like) divisors and multiplicands appearing in t."""
    acc = acc if acc is not None else set()
    for x in T.walk(t):
        if tag(x) == 'bin' and x[1] == '/' and tag(x[3]) == 'bin' and x[3][1] in ('+', '-'):
            acc.add(x[3])
    return acc


def to_poly(t, var, atomised=frozenset()):
    """Convert an arithmetic term to a Poly; `var` (and masked selections of it) is the variable."""
    if t in atomised:
        return Poly.atom(t)
    tg = tag(t)
    if t == var:
        return Poly.atom(var)
    if tg == 'mask':
        return to_poly(t[1], var, atomised)      # element-wise reading of x[cond]
    if tg == 'c' and isinstance(t[1], (int, float)) and not isinstance(t[1], bool):
        return Poly.const(F(t[1]))
    if tg == 'bin' and t[1] in ('+', '-', '*', '/'):
        a, b = to_poly(t[2], var, atomised), to_poly(t[3], var, atomised)
        if t[1] == '+':
            return a + b
        if t[1] == '-':
            return a - b
        if t[1] == '*':
            return a * b
        return a * b.inv()
    if tg == 'un' and t[1] == '-':
        return -to_poly(t[2], var, atomised)
    return Poly.atom(t)
