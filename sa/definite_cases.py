"""Reference cases of the definite-assignment analysis (E10): run on every check, a mismatch is an analysis error."""
import ast
import textwrap

CASES = {
 'plain_missing_else': ('''
def f(k):
    if 'a' in k:
        x = 1
    return x
''', [('x','unbound')]),
 'both_arms': ('''
def f(k):
    if k:
        x = 1
    else:
        x = 2
    return x
''', []),
 'raise_arm': ('''
def f(k):
    if k == 1:
        x = 1
    elif k == 2:
        x = 2
    else:
        raise ValueError
    return x
''', []),
 'correlated': ('''
def f(k, v):
    if k is not None:
        x = v[k]
    y = 0
    if k is not None:
        y = x
    return y
''', []),
 'correlated_broken_by_rebind': ('''
def f(k, v):
    if k is not None:
        x = v[k]
    k = v
    if k is not None:
        return x
''', [('x','unbound')]),
 'early_exit': ('''
def f(k):
    if not k:
        return 0
    else:
        x = 1
    return x
''', []),
 'loop_only': ('''
def f(xs):
    for i in xs:
        last = i
    return last
''', [('last','loop-dependent')]),
 'loop_init': ('''
def f(xs):
    last = None
    for i in xs:
        last = i
    return last
''', []),
 'while_true_break': ('''
def f(xs):
    while True:
        y = xs.pop()
        if y:
            break
    return y
''', []),
 'try_handler': ('''
def f(xs):
    try:
        y = xs.pop()
    except IndexError:
        return y
    return y
''', [('y','loop-dependent')]),
 'walrus': ('''
def f(xs):
    if (n := len(xs)) > 2:
        return n
    return n + 1
''', []),
 'walrus_rhs_of_and': ('''
def f(xs):
    if xs and (n := len(xs)) > 2:
        return n
    return n
''', [('n','unbound')]),
 'comprehension_scope': ('''
def f(xs):
    ys = [i for i in xs]
    return i
''', []),   # i is not a local of f at all (global read)
 'del_then_read': ('''
def f(xs):
    y = 1
    del y
    return y
''', [('y','unbound')]),
 'augassign_unbound': ('''
def f(xs):
    if xs:
        n = 0
    n += 1
    return n
''', [('n','unbound')]),
 'closure_reads_later_binding': ('''
def f(xs):
    def g():
        return y
    y = 1
    return g()
''', []),
 'match': ('''
def f(k):
    match k:
        case 1:
            x = 1
        case _:
            x = 2
    return x
''', []),
 'match_not_exhaustive': ('''
def f(k):
    match k:
        case 1:
            x = 1
        case 2:
            x = 2
    return x
''', [('x','unbound')]),
 'with_as': ('''
def f(k):
    with open(k) as fh:
        d = fh.read()
    return d
''', []),
 'second_iteration_fact': ('''
def f(xs):
    first = True
    for i in xs:
        if not first:
            use(prev)
        prev = i
        first = False
''', [('prev', 'loop-dependent')]),
 'arm_rebinds_test_name': ('''
def f(k, v):
    if k:
        x = v
        k = None
    if k:
        return x
''', [('x', 'unbound')]),
 'noreturn_helper': ('''
def f(k):
    if k == 1:
        x = 1
    elif k == 2:
        x = 2
    else:
        refuse(k)
    return x
''', []),
 'complement_compare': ('''
def f(s, m):
    if s == 'a':
        y = m.a()
    if s != 'a':
        y = m.b()
    return y
''', []),
}


def run_cases(analyse) -> list:
    bad = []
    for name, (src, want) in CASES.items():
        fn = ast.parse(textwrap.dedent(src)).body[0]
        got = sorted({(x.name, x.grade) for x in analyse(fn, noreturn=lambda c: isinstance(c.func, ast.Name) and
                                                          c.func.id == 'refuse').findings})
        if got != sorted(want):
            bad.append(f'{name}: got {got}, expected {sorted(want)}')
    return bad


UNRESOLVED = [
    ("def f(p):\n    return yaml.load(p)\n", set(), ['yaml']),
    ("def f(p):\n    return yaml.load(p)\n", {'yaml'}, []),
    ("def f(p):\n    yaml = make()\n    return yaml.load(p)\n", {'make'}, []),
    ("def f(xs):\n    return [g(i) for i in xs if i] + list(map(lambda k: k + len(xs), xs))\n", {'g'}, []),
    ("def f(xs):\n    def h(a):\n        return a + b + c\n    b = 1\n    return h(xs)\n", set(), ['c']),
    ("def f(xs):\n    global counter\n    counter += 1\n    return __file__, print\n", set(), []),
]


def run_unresolved(unresolved_names) -> list:
    bad = []
    for src, modnames, want in UNRESOLVED:
        fn = ast.parse(src).body[0]
        got = sorted(n.id for n in unresolved_names(fn, set(), modnames))
        if got != want:
            bad.append(f'{src.splitlines()[1].strip()!r}: got {got}, expected {want}')
    return bad
