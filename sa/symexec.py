"""E2/E3 - syntax-directed abstract executor.

Walks a function body once (every branch, loop bodies once with symbolic loop variables), in a
semantics defined here (never Python's own evaluator on repository code), and produces

  * an ordered list of guarded *events* (stores, calls, returns, raises, yields, asserts, ...),
    each with the conjunction of branch conditions under which it is reached, the enclosing loops,
    with-blocks, try-blocks and the inlining context;
  * provenance terms (sa.terms) for every value, with locals substituted by their definitions,
    property getters and selected package functions inlined (bounded depth).

Nothing of the analysed package is imported or run.
"""
from __future__ import annotations

import ast
from dataclasses import dataclass, field, replace
from typing import Callable, Optional

from . import terms as T
from .core import AnalysisError, Func, Klass, Project
from .terms import C, NONE, TRUE, FALSE, tag

# positional parameter names of third-party callables the rules look into: keyword arguments naming the
# next positional parameter are moved into position, so that f(a, q=5) and f(a, 5) give the same term
EXTERNAL_SIGS = {
    'numpy.percentile': ('a', 'q'), 'numpy.nanpercentile': ('a', 'q'), 'numpy.quantile': ('a', 'q'),
    'numpy.searchsorted': ('a', 'v'), 'numpy.unique': ('ar',), 'numpy.sum': ('a',), 'numpy.nansum': ('a',),
    'numpy.min': ('a',), 'numpy.max': ('a',), 'numpy.nanmin': ('a',), 'numpy.nanmax': ('a',),
    'numpy.mean': ('a',), 'numpy.abs': ('x',), 'numpy.diff': ('a',), 'numpy.sort': ('a',),
    'numpy.floor': ('x',), 'numpy.ceil': ('x',), 'numpy.round': ('a', 'decimals'), 'numpy.isnan': ('x',),
    'numpy.all': ('a',), 'numpy.any': ('a',), 'numpy.delete': ('arr', 'obj'), 'numpy.where': ('condition',),
    'numpy.full_like': ('a', 'fill_value'), 'numpy.array': ('object',), 'numpy.clip': ('a', 'a_min', 'a_max'),
    'numpy.random.seed': ('seed',), 'numpy.random.set_state': ('state',),
    'copy.deepcopy': ('x',), 'copy.copy': ('x',), 'builtins.len': ('obj',), 'builtins.isinstance': ('obj', 'class_or_tuple'),
    'warnings.warn': ('message', 'category'), 'matplotlib.pyplot.close': ('fig',),
    'sklearn.mixture.GaussianMixture': ('n_components',),
    'pandas.merge': ('left', 'right'),
}
METHOD_SIGS = {
    'sort_values': ('by',), 'merge': ('right',), 'drop': ('labels',), 'astype': ('dtype',), 'isin': ('values',),
    'apply': ('func',), 'fillna': ('value',), 'join': ('iterable',), 'savefig': ('fname',),
}


def _positional(sig, args, kws):
    args = list(args)
    kws = list(kws)
    while len(args) < len(sig):
        nm = sig[len(args)]
        hit = [kv for kv in kws if kv[0] == nm]
        if not hit:
            break
        args.append(hit[0][1])
        kws.remove(hit[0])
    return tuple(args), tuple(kws)


MUTATING_METHODS = {
    # list / dict / set
    'append', 'extend', 'insert', 'remove', 'pop', 'popitem', 'clear', 'sort', 'reverse',
    'update', 'setdefault', 'add', 'discard', 'difference_update', 'intersection_update',
    'symmetric_difference_update',
    # numpy in-place
    'fill', 'resize', 'put', 'itemset', 'partition', 'setfield', 'setflags', 'byteswap',
}
INPLACE_KW_METHODS = {
    'sort_values', 'sort_index', 'reset_index', 'drop', 'drop_duplicates', 'dropna', 'fillna',
    'rename', 'set_index', 'replace', 'clip', 'interpolate', 'ffill', 'bfill', 'mask', 'where',
    'set_axis', 'rename_axis', 'eval', 'query',
}
# pandas methods that mutate the receiver unconditionally
PANDAS_MUTATORS = {'insert', 'pop', 'update'}


@dataclass(frozen=True)
class Frame:
    func: Func
    node: ast.AST  # the call site
    callee: str = ''


@dataclass
class Event:
    kind: str           # store aug del call return raise assert yield with assign cond expr global
    func: Func
    node: ast.AST
    guard: tuple        # term (conjunction) under which the event is reached
    loops: tuple = ()   # ids of enclosing loops (outermost first)
    withs: tuple = ()   # terms of enclosing with-contexts
    tries: tuple = ()   # (try node, 'body'|'handler'|'final'|'else') outermost first
    ctx: tuple = ()     # inlining context: Frames, outermost first
    target: tuple = None
    base: tuple = None   # for stores / mutations: the term of the object that is modified
    value: tuple = None
    call: tuple = None   # for calls: ('call'..)/('mcall'..) term
    inlined: bool = False
    seq: int = 0
    note: str = ''

    def loc(self) -> str:
        return self.func.loc(self.node)

    def where(self) -> str:
        chain = ' <- '.join(f'{fr.func.qname}@{fr.func.loc(fr.node)}' for fr in reversed(self.ctx))
        return f'{self.loc()} in {self.func.qname}' + (f' (via {chain})' if chain else '')

    def text(self) -> str:
        try:
            return ' '.join(ast.unparse(self.node).split())
        except Exception:  # pylint: disable=broad-except
            return '<?>'


@dataclass
class Loop:
    id: int
    kind: str
    iter: tuple
    node: ast.AST
    func: Func
    cond: tuple = None
    init: dict = field(default_factory=dict)
    as_lc: dict = field(default_factory=dict)   # accumulators recognised as list comprehensions
    carried: dict = field(default_factory=dict) # name -> (value before the loop, value at the end of one iteration)
    by_position: bool = False                   # an index loop over a local array read as enumerate(array)

    @property
    def virtual(self) -> bool:
        """The loop of an expanded generator whose yields became a comprehension: whoever consumes the generator
        iterates that comprehension (one fused loop), so this one is not a loop of the program as the rules see it."""
        return YIELDED in self.as_lc


@dataclass
class Summary:
    func: Func
    events: list
    ret: tuple
    env: dict
    loops: dict
    binding: dict
    normal: tuple = TRUE   # condition under which the call returns (does not raise)


class State:
    __slots__ = ('env', 'guard', 'dead')

    def __init__(self, env, guard=TRUE, dead=None):
        self.env = env
        self.guard = guard
        self.dead = dead  # None | 'return' | 'raise' | 'continue' | 'break'

    def fork(self, extra=None):
        g = self.guard if extra is None else T.mk_and([self.guard, extra])
        return State(dict(self.env), g, self.dead)


class Executor:
    """inline(qname, depth) -> bool decides which package functions are expanded at call sites.
    Property getters are always expanded (depth permitting)."""

    def __init__(self, project: Project, inline: Optional[Callable] = None, max_depth: int = 6,
                 consts: Optional[dict] = None):
        self.p = project
        self.inline = inline or (lambda q, d: False)
        self.max_depth = max_depth
        self._memo: dict = {}
        self._loop_counter = 0
        self._seq = 0
        self.loops: dict[int, Loop] = {}
        self._stack: list = []
        self.attr_types = self._infer_attr_types()
        self.unresolved: list = []
        self.n_calls = 0
        self.lambda_defs: dict = {}
        self._typecache: dict = {}

    # ------------------------------------------------------------------ types
    def _infer_attr_types(self) -> dict:
        out = {}
        for k in self.p.classes.values():
            init = k.methods.get('__init__')
            if init is None:
                continue
            ann = {}
            for a in init.node.args.args:
                if a.annotation is not None:
                    q = self.p.resolve_static(k.module, a.annotation, None)
                    if q in self.p.classes:
                        ann[a.arg] = q
            for n in ast.walk(init.node):
                if isinstance(n, ast.Assign) and len(n.targets) == 1 \
                        and isinstance(n.targets[0], ast.Attribute) \
                        and isinstance(n.targets[0].value, ast.Name) \
                        and n.targets[0].value.id == 'self' and isinstance(n.value, ast.Name) \
                        and n.value.id in ann:
                    out[(k.qname, n.targets[0].attr)] = ann[n.value.id]
        return out

    def _concrete(self, cls):
        """`self` in a method of a mixin / abstract base is an instance of the class that is actually instantiated: when
        every class of the package that inherits from cls lies on one chain, the most derived one stands for `self`
        (its MRO contains cls, so nothing defined by cls is lost, and what the siblings of a mixin define is found)."""
        key = ('concrete', cls.qname)
        if key not in self._typecache:
            subs = [k for k in self.p.classes.values() if k is not cls and cls in self.p.mro(k)]
            best = cls
            if subs:
                leaf = max(subs, key=lambda k: len(self.p.mro(k)))
                if all(k in self.p.mro(leaf) for k in subs):
                    best = leaf
            self._typecache[key] = best
        return self._typecache[key]

    def typeof(self, t, func: Optional[Func]) -> Optional[Klass]:
        tg = tag(t)
        if tg == 'p' and func is not None:
            if t[1] == 'self' and func.cls is not None:
                return self._concrete(func.cls)
            if t[1] == 'self' and func.cls is None:
                # a local function of a method closes over the method's self
                par = func.parent
                while par is not None:
                    if par.cls is not None and 'self' in par.params and 'self' not in func.params:
                        return par.cls
                    par = par.parent
            for a in func.node.args.args:
                if a.arg == t[1] and a.annotation is not None:
                    q = self.p.resolve_static(func.module, a.annotation, func)
                    if q in self.p.classes:
                        return self.p.classes[q]
        if tg == 'new':
            return self.p.classes.get(t[1])
        if tg == 'selfof':
            return self.p.classes.get(t[1])
        if tg == 'attr':
            bt = self.typeof(t[1], func)
            if bt is not None:
                for k in self.p.mro(bt):
                    q = self.attr_types.get((k.qname, t[2]))
                    if q:
                        return self.p.classes[q]
        if tg == 'call' and tag(t[1]) == 'g' and t[1][1] in self.p.classes:
            return self.p.classes[t[1][1]]
        if tg == 'phi':
            ts = {self.typeof(x[1], func) for x in t[1]}
            if len(ts) == 1:
                return ts.pop()
        return None

    # ------------------------------------------------------------------ entry
    def run(self, func: Func, binding: Optional[dict] = None, depth: int = 0) -> Summary:
        binding = dict(binding or {})
        mkey = (func.qname, tuple(sorted((k, v) for k, v in binding.items())), depth >= self.max_depth)
        try:
            if mkey in self._memo:
                return self._memo[mkey]
        except TypeError:
            mkey = None
        if func.qname in [f.qname for f in self._stack]:
            # recursion: do not expand
            return Summary(func, [], ('unk', f'recursive:{func.qname}'), {}, {}, binding)
        self._stack.append(func)
        try:
            env = {}
            args = func.node.args
            allargs = args.posonlyargs + args.args
            defaults = [None] * (len(allargs) - len(args.defaults)) + list(args.defaults)
            run = _Run(self, func, depth)
            st = State(env)
            for a, d in zip(allargs, defaults):
                if a.arg in binding:
                    env[a.arg] = binding[a.arg]
                elif binding.get('__inlined__') and d is not None:
                    env[a.arg] = run.ev(d, State({}))
                else:
                    env[a.arg] = ('p', a.arg)
            for a, d in zip(args.kwonlyargs, args.kw_defaults):
                if a.arg in binding:
                    env[a.arg] = binding[a.arg]
                elif binding.get('__inlined__') and d is not None:
                    env[a.arg] = run.ev(d, State({}))
                else:
                    env[a.arg] = ('p', a.arg)
            if args.vararg:
                env[args.vararg.arg] = binding.get(args.vararg.arg, ('p', '*' + args.vararg.arg))
            if args.kwarg:
                env[args.kwarg.arg] = binding.get(args.kwarg.arg, ('p', '**' + args.kwarg.arg))
            for nm, val in binding.get('__free__', ()):
                env.setdefault(nm, val)
            is_gen = binding.get('__inlined__') and not any(d in ('contextlib.contextmanager',) for d in func.decorators) \
                and any(isinstance(n, (ast.Yield, ast.YieldFrom)) for n in ast.walk(func.node))
            if is_gen:
                env[YIELDED] = ('list', ())
            end = run.block(func.node.body, st)
            rets = list(run.returns)
            if end.dead is None:
                rets.append((end.guard, NONE))
            ret = T.mk_phi(rets)
            if is_gen:
                ret = end.env.get(YIELDED, ('list', ()))      # the generator object stands for the sequence it yields
            normal = T.mk_or([g for g, _ in rets]) if any(e.kind == 'raise' for e in run.events) \
                else TRUE
            end.env['__inplace__'] = tuple(sorted(run.inplace_params))
            summ = Summary(func, run.events, ret, end.env, dict(self.loops), binding, normal)
        finally:
            self._stack.pop()
        if mkey is not None:
            self._memo[mkey] = summ
        return summ


YIELDED = '__yielded__'


class _Run:
    """One symbolic pass over one function body."""

    def __init__(self, ex: Executor, func: Func, depth: int):
        self.ex = ex
        self.p = ex.p
        self.func = func
        self.depth = depth
        self.events: list = []
        self.returns: list = []
        self.loopstack: list = []
        self.withstack: list = []
        self.trystack: list = []
        self.cvdepth = 0
        self.continue_states: list = []
        self._cur_state = None
        self.break_guards: list = []
        self.declared_global: set = set()
        self.rebound: set = set()          # local names given a new object by a plain assignment
        self.inplace_params: set = set()   # parameters whose object was modified in place (and never rebound before)

    # ------------------------------------------------------------------ events
    def emit(self, kind, node, st, **kw) -> Event:
        self.ex._seq += 1
        e = Event(kind=kind, func=self.func, node=node, guard=st.guard,
                  loops=tuple(self.loopstack), withs=tuple(self.withstack),
                  tries=tuple(self.trystack), seq=self.ex._seq, **kw)
        self.events.append(e)
        return e

    def embed(self, summ: Summary, node, st) -> None:
        fr = Frame(self.func, node, summ.func.qname)
        for e in summ.events:
            self.ex._seq += 1
            self.events.append(replace(
                e, guard=T.mk_and([st.guard, e.guard]), loops=tuple(self.loopstack) + e.loops,
                withs=tuple(self.withstack) + e.withs, tries=tuple(self.trystack) + e.tries,
                ctx=(fr,) + e.ctx, seq=self.ex._seq))

    # ------------------------------------------------------------------ statements
    def block(self, stmts, st: State) -> State:
        for s in stmts:
            if st.dead is not None:
                break
            st = self.stmt(s, st)
        return st

    def stmt(self, s, st: State) -> State:
        m = getattr(self, 'st_' + type(s).__name__, None)
        if m is None:
            raise AnalysisError('E2', f'unsupported statement {type(s).__name__} at '
                                      f'{self.func.loc(s)}')
        return m(s, st)

    def st_Expr(self, s, st):
        v = s.value
        if isinstance(v, ast.Constant):
            return st  # docstring
        if isinstance(v, ast.Yield):
            self.ev_Yield(v, st)
            return st
        if isinstance(v, ast.YieldFrom):
            val = self.ev(v.value, st) if v.value is not None else NONE
            self.emit('yield', s, st, value=val)
            return st
        if isinstance(v, ast.Call):
            t = self.ev(v, st)
            self._maybe_inplace(v, t, st, s)
            return st
        t = self.ev(v, st)
        self.emit('expr', s, st, value=t)
        return st

    def _maybe_inplace(self, call: ast.Call, t, st: State, s) -> None:
        """x.method(...) as a statement: if the method mutates its receiver, record the mutation and
        (when the receiver is a plain local name) rebind the name to the functional result."""
        if not isinstance(call.func, ast.Attribute):
            return
        meth = call.func.attr
        inplace = any(k.arg == 'inplace' and isinstance(k.value, ast.Constant) and k.value.value is True
                      for k in call.keywords)
        if not (meth in MUTATING_METHODS or (inplace and meth in INPLACE_KW_METHODS)):
            return
        recv_ast = call.func.value
        recv = self.ev_quiet(recv_ast, st)
        if tag(recv) == 'g' and tag(t) != 'mcall':
            return  # module-level function such as warnings.warn / np.put: handled by rules
        self.emit('mutcall', s, st, target=recv, base=recv, call=t, note=meth)
        if isinstance(recv_ast, ast.Name) and tag(t) == 'mcall':
            kw = tuple(k for k in t[4] if k[0] != 'inplace')
            st.env[recv_ast.id] = ('mcall', recv, meth, t[3], kw)
            if recv_ast.id in self.func.params and recv_ast.id not in self.rebound:
                self.inplace_params.add(recv_ast.id)

    def st_Assign(self, s, st):
        v = self.ev(s.value, st)
        self.emit('assign', s, st, value=v)
        for tgt in s.targets:
            self.assign(tgt, v, st, s)
            for n in ast.walk(tgt):
                if isinstance(n, ast.Name) and isinstance(n.ctx, ast.Store):
                    self.rebound.add(n.id)
        return st

    def st_AnnAssign(self, s, st):
        if s.value is None:
            return st
        v = self.ev(s.value, st)
        self.emit('assign', s, st, value=v)
        self.assign(s.target, v, st, s)
        return st

    def st_AugAssign(self, s, st):
        op = _BINOP[type(s.op)]
        rhs = self.ev(s.value, st)
        if isinstance(s.target, ast.Name):
            old = st.env.get(s.target.id, self.name(s.target, st))
            new = T.mk_bin(op, old, rhs)
            self.emit('aug', s, st, target=old, base=old, value=new, note=op)
            st.env[s.target.id] = new
            return st
        old = self.ev(_as_load(s.target), st)
        new = T.mk_bin(op, old, rhs)
        self.assign(s.target, new, st, s, aug=True)
        return st

    def st_Delete(self, s, st):
        for tgt in s.targets:
            if isinstance(tgt, ast.Name):
                st.env.pop(tgt.id, None)
                continue
            base_ast = _store_base(tgt)
            base = self.ev_quiet(base_ast, st)
            t = self.ev_quiet(_as_load(tgt), st)
            self.emit('del', s, st, target=t, base=base)
        return st

    def assign(self, tgt, v, st: State, s, aug=False) -> None:
        if isinstance(tgt, ast.Name):
            if tgt.id in self.declared_global:
                g = ('g', f'{self.func.module.name}.{tgt.id}')
                self.emit('store', s, st, target=g, base=g, value=v, note='rebind')
                return
            st.env[tgt.id] = v
            return
        if isinstance(tgt, (ast.Tuple, ast.List)):
            n = len(tgt.elts)
            if tag(v) == 'record' and len(v[2]) == n and not any(isinstance(e, ast.Starred) for e in tgt.elts):
                v = ('tuple', tuple(x for _, x in v[2]))
            if tag(v) in ('tuple', 'list') and len(v[1]) == n and \
                    not any(isinstance(e, ast.Starred) for e in tgt.elts):
                for e, x in zip(tgt.elts, v[1]):
                    self.assign(e, x, st, s)
            elif tag(v) == 'phi' and not any(isinstance(e, ast.Starred) for e in tgt.elts) and \
                    all(tag(x) in ('tuple', 'list') and len(x[1]) == n for _, x in v[1]):
                # a, b = (x, y) if c else (u, w): each target gets the selection of its component
                for i, e in enumerate(tgt.elts):
                    self.assign(e, T.mk_phi([(g, x[1][i]) for g, x in v[1]]), st, s)
            else:
                for i, e in enumerate(tgt.elts):
                    if isinstance(e, ast.Starred):
                        self.assign(e.value, ('sub', v, ('slice', C(i), NONE, NONE)), st, s)
                    else:
                        self.assign(e, T.mk_sub(v, C(i)) if tag(v) not in ('call', 'mcall')
                                    else ('sub', v, C(i)), st, s)
            return
        if isinstance(tgt, ast.Starred):
            self.assign(tgt.value, v, st, s)
            return
        if isinstance(tgt, ast.Attribute):
            obj = self.ev(tgt.value, st)
            if tag(obj) == 'g':
                # rebinding of a module-level (or class-level) name from outside
                g = ('g', self.p._canon(f'{obj[1]}.{tgt.attr}'))
                self.emit('aug' if aug else 'store', s, st, target=g, base=g, value=v, note='rebind')
                return
            target = ('attr', obj, tgt.attr)
            self.emit('aug' if aug else 'store', s, st, target=target, base=obj, value=v)
            if tag(obj) == 'record' and isinstance(tgt.value, ast.Name) and st.env.get(tgt.value.id) == obj and \
                    any(nm == tgt.attr for nm, _ in obj[2]):
                # a helper object held in a local (or `self` of one of its methods): the store updates that object
                st.env[tgt.value.id] = ('record', obj[1], tuple((nm, (v if nm == tgt.attr else old)) for nm, old in obj[2]))
            return
        if isinstance(tgt, ast.Subscript):
            base_ast = _store_base(tgt)
            base = self.ev_quiet(base_ast, st)
            target = self.ev_quiet(_as_load(tgt), st, readthrough=False)
            self.emit('aug' if aug else 'store', s, st, target=target, base=base, value=v)
            if isinstance(base_ast, ast.Name) and tag(T.root(base)) not in ('g',):
                st.env[base_ast.id] = ('upd', base, _rebase(target, base), v)
                if base_ast.id in self.func.params and base_ast.id not in self.rebound:
                    self.inplace_params.add(base_ast.id)
            return
        raise AnalysisError('E2', f'unsupported assignment target at {self.func.loc(s)}')

    def st_Return(self, s, st):
        v = self.ev(s.value, st) if s.value is not None else NONE
        self.emit('return', s, st, value=v)
        self.returns.append((st.guard, v))
        st.dead = 'return'
        return st

    def st_Raise(self, s, st):
        v = self.ev(s.exc, st) if s.exc is not None else ('unk', 'reraise')
        self.emit('raise', s, st, value=v)
        st.dead = 'raise'
        return st

    def st_Assert(self, s, st):
        c = self.ev(s.test, st)
        self.emit('assert', s, st, value=c)
        st.guard = T.mk_and([st.guard, c])
        return st

    def st_Pass(self, s, st):
        return st

    def st_Global(self, s, st):
        self.emit('global', s, st, note=','.join(s.names))
        if isinstance(s, ast.Global):
            self.declared_global |= set(s.names)
            for nm in s.names:
                st.env.pop(nm, None)
        return st

    st_Nonlocal = st_Global

    def st_Import(self, s, st):
        return st

    st_ImportFrom = st_Import

    def st_FunctionDef(self, s, st):
        q = f'{self.func.qname}.<locals>.{s.name}'
        st.env[s.name] = ('g', q)
        return st

    def st_ClassDef(self, s, st):
        st.env[s.name] = ('unk', 'localclass')
        return st

    def st_Continue(self, s, st):
        st.dead = 'continue'
        if self.continue_states:
            # the values the variables have where the iteration is cut short flow into the next iteration
            self.continue_states[-1].append(State(dict(st.env), st.guard, None))
        return st

    def st_Break(self, s, st):
        st.dead = 'break'
        if self.break_guards:
            self.break_guards[-1].append(st.guard)
        return st

    def st_If(self, s, st):
        c = self.ev(s.test, st)
        self.emit('cond', s, st, value=c)
        c = _truth(c)
        if c == TRUE:
            return self.block(s.body, st)
        if c == FALSE:
            return self.block(s.orelse, st)
        a = self.block(s.body, st.fork(c))
        b = self.block(s.orelse, st.fork(T.mk_not(c)))
        return self.merge(st, c, a, b)

    def merge(self, st: State, c, a: State, b: State) -> State:
        if a.dead and b.dead:
            kinds = {a.dead, b.dead}
            # both branches leave: stay dead; loop-local exits dominate for the loop machinery
            st.dead = 'continue' if kinds <= {'continue', 'break'} else \
                ('return' if kinds <= {'return', 'raise'} else 'continue')
            st.env = a.env
            self._pending_exits(a, b)
            return st
        if a.dead:
            self._pending_exits(a)
            b.dead = None
            return b
        if b.dead:
            self._pending_exits(b)
            a.dead = None
            return a
        env = {}
        for k in set(a.env) | set(b.env):
            va, vb = a.env.get(k), b.env.get(k)
            if va is None or vb is None:
                env[k] = T.mk_phi([(c, va if va is not None else ('unk', 'undef')),
                                   (T.mk_not(c), vb if vb is not None else ('unk', 'undef'))])
            elif va == vb:
                env[k] = va
            else:
                env[k] = self._lazy_init(k, T.mk_phi([(c, va), (T.mk_not(c), vb)]))
        g = st.guard
        if a.guard != T.mk_and([st.guard, c]) or b.guard != T.mk_and([st.guard, T.mk_not(c)]):
            # a nested branch left (raise / return): what continues is the union of what reaches the two ends
            g = T.mk_or([a.guard, b.guard])
        return State(env, g, None)

    def _lazy_init(self, name, v):
        """`x = None` before a loop and `if x is None: x = E` as the only assignment to x inside it, E not depending on
        anything the loop changes: after the `if`, x is E in every iteration (computed now or in an earlier one)."""
        if tag(v) != 'phi' or len(v[1]) != 2:
            return v
        for (g1, e1), (g2, e2) in (tuple(v[1]), tuple(v[1][::-1])):
            if tag(e2) != 'lphi' or e2[2] != name or g1 != ('cmp', 'is', e2, T.NONE) or g2 != T.mk_not(g1):
                continue
            loop = self.ex.loops.get(e2[1])
            if loop is None or loop.init.get(name) != T.NONE or e2[1] not in self.loopstack:
                continue
            if T.contains(e1, lambda x: tag(x) in ('lv', 'lphi', 'loopres') and x[1] == e2[1]):
                continue
            stores = [n for b in loop.node.body for n in ast.walk(b)
                      if isinstance(n, ast.Name) and n.id == name and isinstance(n.ctx, (ast.Store, ast.Del))]
            if len(stores) == 1:
                return e1
        return v

    def _pending_exits(self, *states) -> None:
        pass

    def st_For(self, s, st):
        it = self.ev(s.iter, st)
        items = _constant_items(it)
        if items is not None and 1 <= len(items) <= 12 and not s.orelse and not any(
                isinstance(n, (ast.Break, ast.Continue)) for b in s.body for n in ast.walk(b)) and \
                (any(tag(x) in ('tuple', 'list', 'record', 'dict') for x in items) or
                 any(isinstance(n, ast.Return) for b in s.body for n in ast.walk(b))):
            # a short table of constant records: one pass of the body per record (table-driven code reads like the
            # if-chain it replaces)
            for item in items:
                if st.dead is not None:
                    break
                self.assign(s.target, item, st, s)
                st = self.block(s.body, st)
            return st
        return self._loop(s, st, 'for', it)

    def st_While(self, s, st):
        return self._loop(s, st, 'while', None)

    def _loop(self, s, st: State, kind: str, it) -> State:
        self.ex._loop_counter += 1
        lid = self.ex._loop_counter
        loop = Loop(lid, kind, it, s, self.func)
        self.ex.loops[lid] = loop
        assigned = _assigned_names(s.body) | (_assigned_names([s]) if kind == 'for' else set())
        # local functions called in the body may update enclosing locals in place
        for n in [x for b in s.body for x in ast.walk(b)]:
            if isinstance(n, ast.Call) and isinstance(n.func, ast.Name):
                nf = self.p.funcs.get(f'{self.func.qname}.<locals>.{n.func.id}')
                if nf is not None:
                    assigned |= _assigned_names(nf.node.body) - _bound_names(nf.node.body) - set(nf.params)
        # helpers of the package that work in place on an argument (`_set_cell(pdf, ind, col, v)`: pdf.iloc[..] = v):
        # the local handed over is modified by the call, iteration after iteration
        for n in [x for b in s.body for x in ast.walk(b)]:
            if isinstance(n, ast.Call) and isinstance(n.func, (ast.Name, ast.Attribute)):
                try:
                    q = self.p.resolve_static(self.func.module, n.func, self.func)
                except Exception:  # pylint: disable=broad-except
                    q = None
                hf = self.p.funcs.get(q) if q else None
                if hf is None and isinstance(n.func, ast.Attribute) and isinstance(n.func.value, ast.Name) \
                        and n.func.value.id == 'self' and self.func.cls is not None:
                    hf = self.p.find_method(self.func.cls, n.func.attr)
                if hf is None:
                    continue
                touched = _assigned_names(hf.node.body) & set(hf.params)
                rebound_first = {t.id for st_ in hf.node.body for t in ast.walk(st_)
                                 if isinstance(t, ast.Name) and isinstance(t.ctx, ast.Store)}
                touched -= rebound_first
                if not touched:
                    continue
                a1 = hf.node.args
                pnames = [x.arg for x in a1.posonlyargs + a1.args]
                if hf.cls is not None and not hf.is_static and pnames and isinstance(n.func, ast.Attribute):
                    pnames = pnames[1:]
                for pn, a in list(zip(pnames, n.args)) + [(k.arg, k.value) for k in n.keywords if k.arg]:
                    if pn in touched and isinstance(a, ast.Name):
                        assigned.add(a.id)
        body_st = st.fork()
        init = {}
        for nm in assigned:
            if nm in st.env:
                init[nm] = st.env[nm]
                body_st.env[nm] = ('lphi', lid, nm)
        loop.init = init
        self.loopstack.append(lid)
        self.continue_states.append([])
        self.break_guards.append([])
        try:
            if kind == 'for':
                fused = self._fuse_iteration(it, lid)
                if fused is not None:
                    # comprehension / zip / enumerate layers around one base iterable: iterate the base, map the element
                    base, lkind, value, conds = fused
                    loop.iter, loop.kind = base, lkind
                    self.assign(s.target, value, body_st, s)
                    if conds:
                        body_st.guard = T.mk_and([body_st.guard] + [_truth(c) for c in conds])
                else:
                    self._bind_loop_target(s.target, it, lid, body_st, s)
            else:
                c = self.ev(s.test, body_st)
                loop.cond = _truth(c)
                self.emit('cond', s, body_st, value=c, note='while')
                body_st.guard = T.mk_and([body_st.guard, _truth(c)])
            body_st_entry_guard = body_st.guard
            end = self.block(s.body, body_st)
        finally:
            self.loopstack.pop()
            cont = self.continue_states.pop()
            brk = self.break_guards.pop()
        if kind == 'while' and loop.cond == TRUE and brk:
            # while True: ... if c: break ...  runs while not c (c as evaluated inside the body)
            entry = set(guard_lits(body_st_entry_guard))
            rel = [T.mk_and([l for l in guard_lits(g) if l not in entry]) for g in brk]
            loop.cond = T.mk_not(T.mk_or(rel))
        if cont:
            # end of an iteration = normal end of the body or any `continue`
            ends = ([end] if end.dead is None else []) + cont
            env = {}
            for k in set().union(*[set(e.env) for e in ends]):
                vals = [(e.guard, e.env.get(k, ('unk', 'undef'))) for e in ends]
                env[k] = vals[0][1] if all(v == vals[0][1] for _, v in vals) else T.mk_phi(vals)
            end = State(env, T.mk_or([e.guard for e in ends]), None)
        out = st.fork()
        for nm in assigned:
            if nm in end.env:
                val = end.env[nm]
                loop.carried[nm] = (init.get(nm, ('unk', 'undef')), val)
                if nm in init and val == ('lphi', lid, nm):
                    out.env[nm] = init[nm]
                    continue
                lc = self._loop_as_comprehension(s, loop, nm, init.get(nm), val, end.env, assigned) if kind == 'for' else None
                if lc is not None:
                    loop.as_lc[nm] = lc
                    out.env[nm] = lc
                else:
                    out.env[nm] = ('loopres', lid, nm, init.get(nm, ('unk', 'undef')), val)
        if s.orelse:
            out = self.block(s.orelse, out)
        return out

    def _loop_as_comprehension(self, s, loop, nm, initv, val, end_env=None, assigned=()):
        """An accumulator that starts as [] and to which every iteration appends at most one element computed from
        the loop variable alone is the list comprehension over the same iterable (so that unrolling a comprehension
        into a loop, or the reverse, does not change what the rules see)."""
        summing = initv is not None and T.is_const(initv) and initv[1] == 0 and not isinstance(initv[1], bool)
        if initv is None or not (summing or (tag(initv) == 'list' and not initv[1])):
            return None
        if summing:
            # only a loop that does nothing but add up: no other variable carried from one iteration to the next, nothing
            # stored or modified in its body (a counter kept next to other bookkeeping stays the loop it is)
            lid0 = loop.id
            for other in assigned:
                v2 = (end_env or {}).get(other)
                if other != nm and v2 is not None and T.contains(v2, lambda x: tag(x) == 'lphi' and x[1] == lid0):
                    return None
            own = ('lphi', lid0, nm)
            if any(e.kind in ('store', 'aug', 'mutcall', 'del') and lid0 in e.loops and
                   not (e.kind == 'aug' and own in (e.target, e.base)) for e in self.events):
                return None
        # (`continue` ends an iteration early: the states that leave through it are merged into the end of the body)
        stoppers = (ast.Break, ast.Return) if nm == YIELDED else (ast.Break, ast.Return, ast.Yield)
        if any(isinstance(n, stoppers) for b in s.body for n in ast.walk(b)):
            return None             # (in a generator being expanded, the yields are the appends)
        if s.orelse:
            return None
        lid = loop.id
        lphi = ('lphi', lid, nm)

        def appended(v):
            if summing:
                # n = 0; for x in xs: n += f(x)   is   n = sum([f(x) for x in xs])
                if tag(v) == 'bin' and v[1] == '+' and lphi in (v[2], v[3]):
                    return v[3] if v[2] == lphi else v[2]
                return None
            if tag(v) == 'mcall' and v[1] == lphi and v[2] == 'append' and len(v[3]) == 1:
                return v[3][0]
            if tag(v) == 'bin' and v[1] == '+' and v[2] == lphi and tag(v[3]) == 'list' and len(v[3][1]) == 1:
                return v[3][1][0]
            return None
        alts = val[1] if tag(val) == 'phi' else ((TRUE, val),)
        adds, skips = [], []
        for g, v in alts:
            if v == lphi:
                skips.append(g)
                continue
            e = appended(v)
            if e is None:
                return None
            adds.append((g, e))
        if not adds:
            return None
        elem = adds[0][1] if len(adds) == 1 else T.mk_phi(adds)
        conds = () if not skips else (T.mk_or([g for g, _ in adds]),)
        carried = lambda x: (tag(x) in ('lphi', 'loopres') and x[1] == lid) or tag(x) == 'cv'
        if T.contains(elem, carried) or any(T.contains(c, carried) for c in conds):
            return None
        d = self.cvdepth + 1
        if loop.kind == 'enumerate':
            it = ('call', ('g', 'builtins.enumerate'), (loop.iter,), ())
            mapping = {('lv', lid, 'idx'): ('cv', d, '0.idx'), ('lv', lid, 'elem'): ('cv', d, '0.elem')}
        else:
            it = loop.iter
            mapping = {('lv', lid, 'elem'): ('cv', d, '0')}
            if isinstance(s.target, (ast.Tuple, ast.List)):
                for i in range(len(s.target.elts)):
                    mapping[('lv', lid, f'elem{i}')] = ('cv', d, f'0.{i}')
        lc = ('lc', 'list', T.subst(elem, mapping), ((it, tuple(T.subst(c, mapping) for c in conds)),))
        return ('call', ('g', 'numpy.sum'), (lc,), ()) if summing else lc

    def _fuse_iteration(self, it, lid):
        """for x in [f(y) for y in ys if c(y)] / enumerate(that) / zip(ys, [f(y) for y in ys], ...) all visit the
        elements of ONE base iterable; returns (base, kind, value bound to the loop target, conditions) or None when
        `it` is not such a shape (or is a plain iterable, handled by _bind_loop_target)."""
        it = _zip_range_as_enumerate(it)
        elem, idx = ('lv', lid, 'elem'), ('lv', lid, 'idx')

        def as_map(t):
            """(base, f, conds_f) with t == [f(b, i) for i, b in enumerate(base) if conds(b)]; f and conds_f take the
            element and the position"""
            t = T.peel(t) if tag(t) != 'lc' else t
            if tag(t) == 'lc' and t[1] in ('list', 'gen') and len(t[3]) == 1:
                gen_it, conds = t[3][0]
                # the comprehension's own variables: those used outside any embedded comprehension (a cell value read
                # back from a table may embed a *sibling* comprehension numbered with the same depth)
                cvs = _cvs_outside_lc(t[2]) + [x for c in conds for x in _cvs_outside_lc(c)]
                own = [x for x in cvs if x[2] == '0' or x[2].startswith('0.')]
                d = min((x[1] for x in own), default=None)
                own = [x for x in own if x[1] == d]
                enum = tag(gen_it) == 'call' and gen_it[1] == ('g', 'builtins.enumerate') and gen_it[2] and not gen_it[3]
                if enum:
                    if any(x[2] not in ('0.idx', '0.elem') for x in own):
                        return None
                    inner = as_map(gen_it[2][0])
                else:
                    if any(x[2] != '0' for x in own):
                        return None             # tuple targets inside the comprehension
                    inner = as_map(gen_it)
                if inner is None:
                    return None
                base, g, gconds = inner
                if enum and gconds(('x',), ('y',)):
                    return None                 # positions would no longer line up

                def f(e, i, t=t, d=d, g=g, enum=enum):
                    if d is None:
                        return t[2]
                    if enum:
                        return _subst_cv(t[2], {('cv', d, '0.idx'): i, ('cv', d, '0.elem'): g(e, i)}, d)
                    return _subst_cv(t[2], {('cv', d, '0'): g(e, i)}, d)

                def fc(e, i, conds=conds, d=d, g=g, gconds=gconds, enum=enum):
                    if enum:
                        # conditions on (position, element) of the enumerated base: positions are those of the base
                        return list(gconds(e, i)) + [_subst_cv(c, {('cv', d, '0.idx'): i, ('cv', d, '0.elem'): g(e, i)}, d)
                                                     if d is not None else c for c in conds]
                    return list(gconds(e, i)) + [_subst_cv(c, {('cv', d, '0'): g(e, i)}, d) if d is not None else c for c in conds]
                return base, f, fc
            return t, (lambda e, i: e), (lambda e, i: [])

        def plain(t):
            return tag(t) != 'lc'
        if tag(it) == 'call' and it[1] == ('g', 'builtins.enumerate') and it[2] and not it[3]:
            inner = it[2][0]
            if tag(inner) == 'call' and inner[1] == ('g', 'builtins.zip') and not inner[3]:
                z = self._fuse_zip(inner, as_map, elem)
                if z is None:
                    return None
                base, value, conds = z
                return base, 'enumerate', ('tuple', (idx, value)), conds
            if plain(inner):
                return None
            m = as_map(inner)
            if m is None:
                return None
            base, f, fc = m
            return base, 'enumerate', ('tuple', (idx, f(elem, idx))), fc(elem, idx)
        if tag(it) == 'call' and it[1] == ('g', 'builtins.zip') and not it[3] and len(it[2]) >= 2:
            z = self._fuse_zip(it, as_map, elem)
            if z is None:
                return None
            base, value, conds = z
            return base, 'for', value, conds
        if tag(it) == 'lc':
            m = as_map(it)
            if m is None:
                return None
            base, f, fc = m
            uses_idx = T.contains(f(elem, idx), lambda x: x == idx)
            return base, ('enumerate' if uses_idx else 'for'), f(elem, idx), fc(elem, idx)
        return None

    def _fuse_zip(self, z, as_map, elem):
        maps = [as_map(a) for a in z[2]]
        if any(m is None for m in maps):
            return None
        bases = {T.key(m[0]) for m in maps}
        if len(bases) != 1 or all(tag(a) != 'lc' for a in z[2]):
            return None                 # different iterables (or nothing to fuse): generic zip
        idx = ('lv', elem[1], 'idx')
        conds = []
        for m in maps:
            conds += m[2](elem, idx)
        return maps[0][0], ('tuple', tuple(m[1](elem, idx) for m in maps)), conds

    def _bind_loop_target(self, tgt, it, lid, st, s) -> None:
        it = _zip_range_as_enumerate(it)
        pit = T.peel(it)
        if tag(it) == 'call' and it[1] == ('g', 'builtins.enumerate') and it[2] and \
                isinstance(tgt, (ast.Tuple, ast.List)) and len(tgt.elts) == 2:
            start = it[2][1] if len(it[2]) > 1 else dict(it[3]).get('start', C(0))
            if T.is_const(start) and isinstance(start[1], int):
                self.ex.loops[lid].iter = it[2][0]
                self.ex.loops[lid].kind = 'enumerate'
                # enumerate(x, start=k) counts from k: position + k
                idx = ('lv', lid, 'idx') if start[1] == 0 else T.mk_bin('+', ('lv', lid, 'idx'), start)
                self.assign(tgt.elts[0], idx, st, s)
                self.assign(tgt.elts[1], ('lv', lid, 'elem'), st, s)
                return
        if isinstance(tgt, ast.Name) and tag(pit) == 'call' and pit[1] == ('g', 'builtins.range') and len(pit[2]) == 1 \
                and not pit[3] and tag(pit[2][0]) == 'call' and pit[2][0][1] == ('g', 'builtins.len') and pit[2][0][2] \
                and tag(pit[2][0][2][0]) == 'call' and tag(pit[2][0][2][0][1]) == 'g' \
                and pit[2][0][2][0][1][1].startswith('numpy.'):
            # an index loop over a NumPy array held in a local (`for i in range(len(deltas)): d = deltas[i]`) visits the
            # array like `for i, d in enumerate(deltas)`
            loop = self.ex.loops[lid]
            loop.iter, loop.kind = pit[2][0][2][0], 'enumerate'
            loop.by_position = True
            self.assign(tgt, ('lv', lid, 'idx'), st, s)
            return
        if tag(pit) in ('list', 'tuple') and len(pit[1]) == 1 and isinstance(tgt, ast.Name):
            # singleton literal: the loop variable *is* that element
            st.env[tgt.id] = pit[1][0]
            return
        if isinstance(tgt, (ast.Tuple, ast.List)):
            for i, e in enumerate(tgt.elts):
                self.assign(e, ('lv', lid, f'elem{i}'), st, s)
            return
        self.assign(tgt, ('lv', lid, 'elem'), st, s)

    def st_With(self, s, st):
        pushed = 0
        for item in s.items:
            ctx = self.ev(item.context_expr, st)
            self.emit('with', s, st, value=ctx)
            self.withstack.append(ctx)
            pushed += 1
            if item.optional_vars is not None:
                self.assign(item.optional_vars, ('withval', ctx), st, s)
        try:
            st = self.block(s.body, st)
        finally:
            for _ in range(pushed):
                self.withstack.pop()
        return st

    def st_Try(self, s, st):
        self.trystack.append((s, 'body'))
        try:
            body_end = self.block(s.body, st.fork())
        finally:
            self.trystack.pop()
        ends = [body_end]
        for h in s.handlers:
            self.trystack.append((s, 'handler'))
            try:
                hst = st.fork(('exc', ast.unparse(h.type) if h.type is not None else 'BaseException'))
                for nm in _assigned_names(s.body):
                    if nm in body_end.env:
                        hst.env[nm] = T.mk_phi([(('exc', 'before'), st.env.get(nm, ('unk', 'undef'))),
                                                (('exc', 'after'), body_end.env[nm])])
                if h.name:
                    hst.env[h.name] = ('exc-object', ast.unparse(h.type) if h.type else '')
                self.emit('except', h, hst, note=ast.unparse(h.type) if h.type is not None else '')
                ends.append(self.block(h.body, hst))
            finally:
                self.trystack.pop()
        if s.orelse and body_end.dead is None:
            self.trystack.append((s, 'else'))
            try:
                ends[0] = self.block(s.orelse, body_end)
            finally:
                self.trystack.pop()
        alive = [e for e in ends if e.dead is None]
        if alive:
            res = alive[0]
            for other in alive[1:]:
                res = self.merge(st, ('exc', 'none'), res, other)
            res.guard = st.guard
        else:
            res = ends[0]
        if s.finalbody:
            self.trystack.append((s, 'final'))
            try:
                fin = State(dict(res.env), st.guard, None)
                fin = self.block(s.finalbody, fin)
                if fin.dead is None:
                    fin.dead = res.dead
                    if res.dead is None:
                        fin.guard = res.guard
                res = fin
            finally:
                self.trystack.pop()
        return res

    st_TryStar = st_Try
    st_AsyncFunctionDef = st_FunctionDef
    st_AsyncWith = st_With
    st_AsyncFor = st_For

    def st_Match(self, s, st):
        """match on literal / or-of-literal / wildcard patterns without guards-with-bindings = an if / elif chain."""
        subj = self.ev(s.subject, st)

        def test_of(pat):
            if isinstance(pat, ast.MatchValue):
                return T.mk_cmp('==', subj, self.ev(pat.value, st))
            if isinstance(pat, ast.MatchSingleton):
                return T.mk_cmp('is', subj, C(pat.value))
            if isinstance(pat, ast.MatchOr):
                return T.mk_or([test_of(x) for x in pat.patterns])
            if isinstance(pat, ast.MatchAs) and pat.pattern is None and pat.name is None:
                return TRUE
            raise AnalysisError('E2', f'match pattern not supported at {self.func.loc(s)}')

        def chain(cases, st):
            if not cases:
                return st
            case = cases[0]
            c = test_of(case.pattern)
            if case.guard is not None:
                c = T.mk_and([c, _truth(self.ev(case.guard, st))])
            self.emit('cond', s, st, value=c)
            if c == TRUE:
                return self.block(case.body, st)
            a = self.block(case.body, st.fork(c))
            b = chain(cases[1:], st.fork(T.mk_not(c)))
            return self.merge(st, c, a, b)
        return chain(list(s.cases), st)

    # ------------------------------------------------------------------ expressions
    def ev_quiet(self, e, st, readthrough=True):
        """Evaluate without recording call events (used for re-evaluating store targets)."""
        n = len(self.events)
        seq = self.ex._seq
        try:
            self._rt = readthrough
            return self.ev(e, st)
        finally:
            self._rt = True
            del self.events[n:]
            self.ex._seq = seq

    _rt = True

    def ev(self, e, st: State):
        if e is None:
            return NONE
        m = getattr(self, 'ev_' + type(e).__name__, None)
        if m is None:
            return ('unk', f'expr:{type(e).__name__}')
        return m(e, st)

    def ev_Constant(self, e, st):
        v = e.value
        if v is Ellipsis:
            return ('c', '...')
        if isinstance(v, (bytes, complex)):
            return ('c', repr(v))
        return ('c', v)

    def name(self, e: ast.Name, st):
        nm = e.id
        if nm in st.env:
            v = st.env[nm]
            if tag(v) == 'phi' and st.guard != TRUE:
                # a value selected by an earlier `if c:` and read under the same condition again (`if c: n = len(x)` ...
                # `if c: use(n)`): the alternative of that condition
                lits = set(guard_lits(st.guard))
                hit = [x for g, x in v[1] if g in lits]
                if len(hit) == 1 and not any(tag(x) == 'unk' for x in hit):
                    return hit[0]
            return v
        # enclosing function's locals are not tracked: treat as free symbol
        f = self.func.parent
        while f is not None:
            if nm in _bound_names(f.node.body) | set(f.params):
                return ('free', nm)
            f = f.parent
        q = self.p.resolve_static(self.func.module, e, self.func)
        if q is not None:
            c = self._scalar_constant(q)
            return c if c is not None else ('g', q)
        return ('unk', f'name:{nm}')

    def ev_Name(self, e, st):
        return self.name(e, st)

    def ev_NamedExpr(self, e, st):
        v = self.ev(e.value, st)
        self.assign(e.target, v, st, e)
        return v

    def ev_Attribute(self, e, st):
        base = self.ev(e.value, st)
        return self.attr(base, e.attr, e, st)

    def attr(self, base, name, node, st):
        if tag(base) == 'record':
            for nm, v in base[2]:
                if nm == name:
                    return v
            k = self.p.classes.get(base[1])
            m = self.p.find_method(k, name) if k is not None else None
            if m is not None and m.is_property:
                return self.inline_call(m, {'self': base}, node, st, is_prop=True)
            if m is not None:
                return ('bound', base, m.qname)
            return ('attr', base, name)
        if tag(base) == 'phi' and all(tag(v) == 'record' for _, v in base[1]):
            return T.mk_phi([(g, self.attr(v, name, node, st)) for g, v in base[1]])
        if tag(base) == 'g' and name == '_fields' and base[1] in self.p.classes and \
                _record_fields(self.p, self.p.classes[base[1]]) is not None:
            return ('tuple', tuple(C(nm) for nm, _ in _record_fields(self.p, self.p.classes[base[1]])))
        if tag(base) == 'g':
            if self._is_data_global(base[1]):
                return T.mk_attr(base, name)      # attribute / method of a module-level data object
            q = self.p._canon(f'{base[1]}.{name}')
            c = self._scalar_constant(q)
            return c if c is not None else ('g', q)
        if name == '__class__' and tag(base) == 'p' and base[1] == 'self' and self.func.cls:
            return ('g', self.func.cls.qname)
        k = self.ex.typeof(base, self.func)
        if k is not None:
            m = self.p.find_method(k, name)
            if m is not None:
                if m.is_property:
                    return self.inline_call(m, {'self': base}, node, st, is_prop=True)
                return ('bound', base, m.qname)
            ca = self.p.find_class_attr(k, name)
            if ca is not None:
                from sa import consts
                cv = consts.class_value(self.p, ca[0], name, record_fields=_record_fields)
                if cv is not None:
                    # a class-level constant / table of constants (writes to class attributes are a C13 finding of their own)
                    return cv
                return ('g', f'{ca[0].qname}.{name}')
        return T.mk_attr(base, name)

    def _scalar_constant(self, q: str):
        """A module-level name bound exactly once to a constant expression is that value (sa/consts.py; writes to
        module-level names from functions are findings of their own, C09-R6 / C13-R1)."""
        from sa import consts
        return consts.global_value(self.p, q, record_fields=_record_fields)

    def _is_data_global(self, q: str) -> bool:
        """Is q a module-level *variable* of the package holding data (dict / list / call result other
        than a logger), as opposed to a module, function or class?"""
        modq, _, nm = q.rpartition('.')
        mod = self.p.modules.get(modq)
        if mod is None or nm not in mod.globals or nm in mod.functions or nm in mod.classes:
            return False
        for node in mod.globals[nm]:
            if isinstance(node, ast.Call):
                fq = self.p.resolve_static(mod, node.func, None) or ''
                if fq.startswith('logging.'):
                    return False
                return True
            if isinstance(node, (ast.Dict, ast.List, ast.Set, ast.Tuple, ast.ListComp, ast.DictComp)):
                return True
        return False

    def ev_Subscript(self, e, st):
        base = self.ev(e.value, st)
        idx = self.ev(e.slice, st)
        if tag(idx) == 'lv' and idx[2] == 'idx':
            loop = self.ex.loops.get(idx[1])
            if loop is not None and loop.kind == 'enumerate' and getattr(loop, 'by_position', False) and loop.iter == base:
                return ('lv', idx[1], 'elem')         # for i in range(len(xs)): xs[i]  is  for i, x in enumerate(xs): x
        t = T.mk_sub(base, idx)
        if self._rt:
            t = _read_through(t)
        return t

    def ev_Slice(self, e, st):
        return ('slice', self.ev(e.lower, st), self.ev(e.upper, st), self.ev(e.step, st))

    def ev_Tuple(self, e, st):
        return ('tuple', tuple(self.ev(x, st) for x in e.elts))

    def ev_List(self, e, st):
        return ('list', tuple(self.ev(x, st) for x in e.elts))

    def ev_Set(self, e, st):
        return ('set', tuple(self.ev(x, st) for x in e.elts))

    def ev_Dict(self, e, st):
        pairs = []
        for k, v in zip(e.keys, e.values):
            if k is None:
                pairs.append((('c', '**'), self.ev(v, st)))
            else:
                pairs.append((self.ev(k, st), self.ev(v, st)))
        return ('dict', tuple(pairs))

    def ev_Starred(self, e, st):
        return ('star', self.ev(e.value, st))

    def ev_BinOp(self, e, st):
        return T.mk_bin(_BINOP[type(e.op)], self.ev(e.left, st), self.ev(e.right, st))

    def ev_UnaryOp(self, e, st):
        op = {ast.Not: 'not', ast.Invert: '~', ast.USub: '-', ast.UAdd: '+'}[type(e.op)]
        return T.mk_un(op, self.ev(e.operand, st))

    def ev_BoolOp(self, e, st):
        vals = [self.ev(x, st) for x in e.values]
        vals = [_truth(v) for v in vals]
        return T.mk_and(vals) if isinstance(e.op, ast.And) else T.mk_or(vals)

    def ev_Compare(self, e, st):
        left = self.ev(e.left, st)
        out = []
        for op, right in zip(e.ops, e.comparators):
            r = self.ev(right, st)
            out.append(T.mk_cmp(_CMPOP[type(op)], left, r))
            left = r
        return out[0] if len(out) == 1 else T.mk_and(out)

    def ev_IfExp(self, e, st):
        c = _truth(self.ev(e.test, st))
        if c == TRUE:
            return self.ev(e.body, st)
        if c == FALSE:
            return self.ev(e.orelse, st)
        a = self.ev(e.body, st.fork(c))
        b = self.ev(e.orelse, st.fork(T.mk_not(c)))
        return T.mk_phi([(c, a), (T.mk_not(c), b)])

    def ev_JoinedStr(self, e, st):
        parts = []
        for v in e.values:
            if isinstance(v, ast.Constant):
                parts.append(C(v.value))
            elif isinstance(v, ast.FormattedValue):
                x = self.ev(v.value, st)
                if v.format_spec is not None or v.conversion != -1:
                    if T.is_const(x) and v.format_spec is None and v.conversion == 115:
                        parts.append(C(str(x[1])))
                    else:
                        spec = ''
                        if v.format_spec is not None:
                            fs = v.format_spec
                            if isinstance(fs, ast.JoinedStr) and all(
                                    isinstance(c, ast.Constant) for c in fs.values):
                                spec = ''.join(str(c.value) for c in fs.values)
                            else:
                                spec = ast.unparse(fs)
                        parts.append(('fmt', x, spec, v.conversion))
                else:
                    parts.append(x)
        return T.mk_fstr(parts)

    def ev_Lambda(self, e, st):
        inner = st.fork()
        names = [a.arg for a in e.args.posonlyargs + e.args.args]
        for i, nm in enumerate(names):
            inner.env[nm] = ('lamv', i)
        first = self.ex._seq
        body = self.ev(e.body, inner)
        simple = not (e.args.vararg or e.args.kwarg or e.args.kwonlyargs or e.args.defaults)
        if not simple:
            return ('lam', len(names), body)
        t = ('lam', len(names), body)
        self.ex.lambda_defs[t] = (e, dict(st.env), self, first, self.ex._seq)
        return t

    def _scan_pairs(self, e, st, kind, elts):
        """[g(a, b) for a, b in zip(S, S[1:])] with S = list(accumulate(xs, f, initial=s0)) - one value per element of
        xs computed from the state before and after it - is the loop
            s = s0; out = []
            for x in xs: t = f(s, x); out.append(g(s, t)); s = t
        and is executed as that loop (so that the running-state formulation of a fold is the fold)."""
        if kind != 'list' or len(e.generators) != 1 or e.generators[0].ifs or len(elts) != 1:
            return None
        g = e.generators[0]
        if not (isinstance(g.target, (ast.Tuple, ast.List)) and len(g.target.elts) == 2 and
                all(isinstance(x, ast.Name) for x in g.target.elts)):
            return None
        it = self.ev(g.iter, st)
        scan = None
        if tag(it) == 'call' and it[1] == ('g', 'builtins.zip') and len(it[2]) == 2 and not it[3]:
            a, b = it[2]
            if tag(a) == 'scan' and b == T.mk_sub(a, ('slice', C(1), NONE, NONE)):
                scan = a
        if tag(it) == 'call' and it[1] == ('g', 'itertools.pairwise') and len(it[2]) == 1 and tag(it[2][0]) == 'scan':
            scan = it[2][0]
        if scan is None:
            return None
        lo, hi = g.target.elts[0].id, g.target.elts[1].id
        src = ('__scan_s = __scan_s0\n__scan_out = []\nfor __scan_x in __scan_xs:\n'
               f'    __scan_t = __scan_f(__scan_s, __scan_x)\n    {lo} = __scan_s\n    {hi} = __scan_t\n'
               '    __scan_out.append(0)\n    __scan_s = __scan_t\n')
        mod = ast.parse(src)
        loop = mod.body[2]
        loop.body[3].value.args[0] = elts[0]            # the element expression itself (evaluated on lo / hi)
        for n in ast.walk(mod):
            for ch in ast.iter_child_nodes(n):
                if not hasattr(ch, '_parent') or ch is elts[0] or n is not mod:
                    if ch is not elts[0]:
                        ch._parent = n
            ast.copy_location(n, e) if hasattr(n, 'lineno') or isinstance(n, (ast.stmt, ast.expr)) else None
        for top in mod.body:
            top._parent = getattr(_stmt_of(e), '_parent', None)
        inner = st
        inner.env['__scan_s0'], inner.env['__scan_xs'], inner.env['__scan_f'] = scan[3], scan[1], scan[2]
        out = self.block(mod.body, inner)
        res = out.env.get('__scan_out')
        for k in ('__scan_s0', '__scan_xs', '__scan_f', '__scan_s', '__scan_t', '__scan_x', '__scan_out', lo, hi):
            out.env.pop(k, None)
        return res

    def _comp(self, e, st, kind, elts):
        sp = self._scan_pairs(e, st, kind, elts)
        if sp is not None:
            return sp
        if kind in ('list', 'gen') and len(e.generators) == 1 and not e.generators[0].ifs and len(elts) == 1:
            items = _constant_items(self.ev(e.generators[0].iter, st))
            if items is not None and 1 <= len(items) <= 8:
                # a comprehension over a short constant sequence is the literal list of its elements
                out = []
                for item in items:
                    inner = st.fork()
                    self.assign(e.generators[0].target, item, inner, e)
                    out.append(self.ev(elts[0], inner))
                return ('list', tuple(out))
        inner = st.fork()
        gens = []
        self.cvdepth += 1
        d = self.cvdepth
        try:
            for gi, g in enumerate(e.generators):
                it = self.ev(g.iter, inner)
                if len(e.generators) == 1 and isinstance(g.target, ast.Name) and tag(it) == 'lc' and \
                        it[1] in ('list', 'gen') and len(it[3]) == 1 and _own_depth(it) is not None:
                    # a comprehension over a comprehension kept in a local ([g(m) for m in masks] with
                    # masks = [f(c) for c in cs]) visits the elements of the inner iterable: [g(f(c)) for c in cs]
                    d_in = _own_depth(it)
                    base, conds_in = it[3][0]
                    own = {x for x in _cvs_outside_lc(it[2]) + [y for c in conds_in for y in _cvs_outside_lc(c)]
                           if x[1] == d_in}
                    mapping = {x: ('cv', d, x[2]) for x in own}
                    inner.env[g.target.id] = _subst_cv(it[2], mapping, d_in)
                    conds = tuple(_subst_cv(c, mapping, d_in) for c in conds_in) + \
                        tuple(self.ev(c, inner) for c in g.ifs)
                    gens.append((base, conds))
                    continue
                self._bind_comp_target(g.target, it, d, gi, inner)
                conds = tuple(self.ev(c, inner) for c in g.ifs)
                gens.append((it, conds))
            elt = tuple(self.ev(x, inner) for x in elts)
        finally:
            self.cvdepth -= 1
        if kind in ('list', 'gen') and len(elt) == 1 and len(gens) == 1 and not gens[0][1] and \
                elt[0] == ('cv', d, '0') and isinstance(e.generators[0].target, ast.Name):
            return gens[0][0]           # [x for x in xs] is xs (as a sequence of the same elements)
        return ('lc', kind, elt[0] if len(elt) == 1 else ('tuple', elt), tuple(gens))

    def _bind_comp_target(self, tgt, it, d, gi, st):
        it = _zip_range_as_enumerate(it)
        if tag(it) == 'call' and it[1] == ('g', 'builtins.enumerate') and \
                isinstance(tgt, (ast.Tuple, ast.List)) and len(tgt.elts) == 2:
            self._bind_simple(tgt.elts[0], ('cv', d, f'{gi}.idx'), st)
            self._bind_simple(tgt.elts[1], ('cv', d, f'{gi}.elem'), st)
            return
        if isinstance(tgt, (ast.Tuple, ast.List)):
            for i, x in enumerate(tgt.elts):
                self._bind_simple(x, ('cv', d, f'{gi}.{i}'), st)
            return
        self._bind_simple(tgt, ('cv', d, f'{gi}'), st)

    def _bind_simple(self, tgt, v, st):
        if isinstance(tgt, ast.Name):
            st.env[tgt.id] = v
        elif isinstance(tgt, (ast.Tuple, ast.List)):
            for i, x in enumerate(tgt.elts):
                self._bind_simple(x, ('sub', v, C(i)), st)

    def ev_ListComp(self, e, st):
        return self._comp(e, st, 'list', [e.elt])

    def ev_SetComp(self, e, st):
        return self._comp(e, st, 'set', [e.elt])

    def ev_GeneratorExp(self, e, st):
        return self._comp(e, st, 'gen', [e.elt])

    def ev_DictComp(self, e, st):
        return self._comp(e, st, 'dict', [e.key, e.value])

    def ev_Yield(self, e, st):
        v = self.ev(e.value, st) if e.value else NONE
        self.emit('yield', e, st, value=v)
        if YIELDED in st.env:
            # a generator expanded at its call site: what it yields, in order, is the list it stands for
            st.env[YIELDED] = ('mcall', st.env[YIELDED], 'append', (v,), ())
        return ('unk', 'yield')

    def ev_Await(self, e, st):
        return self.ev(e.value, st)

    # ------------------------------------------------------------------ calls
    def ev_Call(self, e, st):
        self.ex.n_calls += 1
        self._cur_state = st
        fn = self.ev(e.func, st)
        args = []
        for a in e.args:
            args.append(self.ev(a, st))
        kws = []
        for k in e.keywords:
            v = self.ev(k.value, st)
            if k.arg is None:
                if tag(v) == 'dict' and all(T.is_const(p[0]) and isinstance(p[0][1], str) and
                                           p[0][1] != '**' for p in v[1]):
                    kws.extend((p[0][1], p[1]) for p in v[1])
                else:
                    kws.append((None, v))
            else:
                kws.append((k.arg, v))
        args = tuple(args)
        kws = tuple(sorted(kws, key=lambda kv: (kv[0] is None, kv[0] or '', T.key(kv[1]))))
        self._recv_update = None
        out = self.call(fn, args, kws, e, st)
        upd = getattr(self, '_recv_update', None)
        if upd is not None and isinstance(e.func, ast.Attribute) and isinstance(e.func.value, ast.Name) and \
                st.env.get(e.func.value.id) == upd[0]:
            st.env[e.func.value.id] = upd[1]
        self._recv_update = None
        return out

    def call(self, fn, args, kws, node, st):
        tg = tag(fn)
        # functools.partial(f, *a, **k)(*b, **l) is f(*a, *b, **k, **l)
        if tg == 'call' and fn[1] == ('g', 'functools.partial') and fn[2]:
            merged = dict(fn[3])
            merged.update(dict(kws))
            return self.call(fn[2][0], tuple(fn[2][1:]) + tuple(args),
                             tuple(sorted(merged.items(), key=lambda kv: (kv[0] is None, kv[0] or '', T.key(kv[1])))), node, st)
        if tg == 'g' and fn[1] == 'itertools.accumulate' and 1 <= len(args) <= 2 and dict(kws).get('initial') is not None \
                and set(dict(kws)) <= {'initial', 'func'} and (len(args) == 2 or 'func' in dict(kws)):
            # accumulate(xs, f, initial=s0): the sequence of states s0, f(s0, x0), f(f(s0, x0), x1), ...
            return ('scan', args[0], args[1] if len(args) == 2 else dict(kws)['func'], dict(kws)['initial'])
        if tg == 'g' and fn[1] in ('builtins.list', 'builtins.tuple') and len(args) == 1 and not kws and tag(args[0]) == 'scan':
            return args[0]
        if tg == 'g' and fn[1] == 'pandas.Series' and len(args) == 1 and T.is_const(args[0]) \
                and isinstance(args[0][1], (int, float)) and not isinstance(args[0][1], bool) \
                and set(dict(kws)) <= {'index', 'dtype', 'name'} and tag(dict(kws).get('index')) == 'index':
            # pd.Series(c, index=frame.index[, dtype=int]): the constant, one per row of that frame - as a column value it
            # is what `frame[col] = c` stores
            dt = dict(kws).get('dtype')
            if dt is None or dt in (('g', 'builtins.int'), C('int'), C('int64')) and isinstance(args[0][1], int):
                return args[0]
            if dt in (('g', 'builtins.float'), C('float'), C('float64')):
                return C(float(args[0][1]))
        # methods of a NamedTuple record
        if tg == 'attr' and tag(fn[1]) == 'record' and fn[2] == '_asdict' and not args and not kws:
            return ('dict', tuple((C(nm), v) for nm, v in fn[1][2]))
        if tg == 'attr' and tag(fn[1]) == 'record' and fn[2] == '_replace' and not args and all(k for k, _ in kws):
            new = dict(kws)
            if set(new) <= {nm for nm, _ in fn[1][2]}:
                return ('record', fn[1][1], tuple((nm, new.get(nm, v)) for nm, v in fn[1][2]))
        # a lambda bound to a local and applied: evaluate its body on the arguments
        if tg == 'lam' and fn in self.ex.lambda_defs and not kws and len(args) == fn[1] \
                and not any(tag(a) == 'star' for a in args):
            lnode, lenv, lrun, first, last = self.ex.lambda_defs[fn]
            if lrun is self:
                # the calls evaluated when the lambda was defined (on placeholder arguments) are these very calls
                self.events = [e for e in self.events if not first < e.seq <= last]
            inner = st.fork()
            inner.env.update(lenv)
            for a, v in zip(lnode.args.posonlyargs + lnode.args.args, args):
                inner.env[a.arg] = v
            return self.ev(lnode.body, inner)
        if tg == 'g' and args and tag(args[0]) == 'lc' and args[0][1] == 'gen':
            q = fn[1]
            if q in ('builtins.list', 'builtins.sum', 'numpy.sum', 'builtins.any', 'builtins.all', 'builtins.max',
                     'builtins.min', 'builtins.sorted', 'builtins.set', 'builtins.frozenset', 'numpy.nansum'):
                # a generator consumed whole is the list of its elements
                args = (('lc', 'list') + tuple(args[0][2:]),) + tuple(args[1:])
        if tg == 'g' and fn[1] in ('builtins.list', 'builtins.tuple') and len(args) == 1 and not kws and \
                tag(args[0]) in ('list', 'tuple'):
            return ('list' if fn[1].endswith('list') else 'tuple', args[0][1])      # list(('a', 'b')) is ['a', 'b']
        if tg == 'g' and fn[1] in ('builtins.list',) and len(args) == 1 and not kws and tag(args[0]) == 'lc' \
                and args[0][1] == 'list':
            return args[0]
        if tg == 'g' and fn[1] in ('builtins.list',) and len(args) == 1 and not kws and tag(args[0]) == 'loopres' \
                and args[0][2] == YIELDED:
            return args[0]              # list(generator()) with the generator expanded
        if tg == 'g' and fn[1] in ('numpy.unique', 'builtins.len', 'numpy.sum', 'numpy.isnan', 'numpy.nanmin', 'numpy.nanmax',
                                   'numpy.nansum', 'numpy.count_nonzero', 'numpy.min', 'numpy.max') and len(args) == 1 and not kws:
            r = args[0]
            while (tag(r) == 'vals' and tag(r[1]) in ('col', 'mask', 'cols', 'rows', 'index')) or \
                    (tag(r) == 'mcall' and r[2] == 'to_numpy' and not r[3] and not r[4] and tag(r[1]) in ('col', 'mask', 'cols', 'rows', 'index')):
                r = r[1]            # the values of a column are the column, as far as these are concerned
            args = (r,)
        if tg == 'g' and fn[1] in ('numpy.any', 'numpy.all') and len(args) == 1 and not kws:
            r = args[0]
            while tag(r) == 'vals' or (tag(r) == 'mcall' and r[2] in ('to_numpy', 'to_list') and not r[3]):
                r = r[1]
            args = (r,)
        if tg == 'g' and fn[1] in ('numpy.logical_and', 'numpy.logical_or') and len(args) == 2 and not kws:
            return T.mk_bin('&' if fn[1].endswith('and') else '|', _truthy_array(args[0]), _truthy_array(args[1]))
        if tg == 'g' and fn[1] == 'builtins.len' and len(args) == 1 and not kws:
            a0 = args[0]
            if T.is_const(a0) and isinstance(a0[1], (str, tuple)):
                return C(len(a0[1]))
            if tag(a0) == 'phi' and len(a0[1]) <= 8 and T.has_const_alternative(a0):
                return T.mk_phi([(g, self.call(fn, (v,), (), node, st)) for g, v in a0[1]])
        if tg == 'g' and fn[1] in _OPERATOR_CMP and len(args) == 2 and not kws:
            return T.mk_cmp(_OPERATOR_CMP[fn[1]], args[0], args[1])          # operator.lt(a, b) is a < b
        if tg == 'g' and fn[1] in _OPERATOR_BIN and len(args) == 2 and not kws:
            return T.mk_bin(_OPERATOR_BIN[fn[1]], args[0], args[1])
        if tg == 'g' and fn[1] in ('operator.not_', '_operator.not_') and len(args) == 1 and not kws:
            return T.mk_not(_truth(args[0]))
        if tg == 'g' and fn[1] in ('operator.contains', '_operator.contains') and len(args) == 2 and not kws:
            return T.mk_cmp('in', args[1], args[0])
        if tg == 'g' and fn[1] in ('operator.getitem', '_operator.getitem') and len(args) == 2 and not kws:
            return T.mk_sub(args[0], args[1])
        if tg == 'g' and fn[1] in ('builtins.any', 'builtins.all') and len(args) == 1 and not kws and \
                tag(args[0]) in ('tuple', 'list') and len(args[0][1]) <= 8 and all(T.boolish(x) for x in args[0][1]):
            # any((c1, c2, c3)) over a literal sequence of conditions is their disjunction
            parts = [_truth(x) for x in args[0][1]]
            return T.mk_or(parts) if fn[1].endswith('any') else T.mk_and(parts)
        if tg == 'g' and fn[1] == 'builtins.bool' and len(args) == 1 and not kws and T.boolish(args[0]):
            return args[0]              # bool() of a condition is that condition
        if tg == 'g' and fn[1] == 'numpy.logical_not' and len(args) == 1 and not kws:
            return T.mk_un('~', _truthy_array(args[0]))
        # ---- builtins with static meaning
        if tg == 'g':
            q = fn[1]
            if q == 'builtins.getattr' and len(args) >= 2 and T.is_const(args[1]) \
                    and isinstance(args[1][1], str):
                t = self.attr(args[0], args[1][1], node, st)
                if tag(t) == 'bound':
                    return t
                return t
            if q == 'builtins.setattr' and len(args) == 3 and T.is_const(args[1]):
                self.emit('store', _stmt_of(node), st, target=('attr', args[0], args[1][1]),
                          base=args[0], value=args[2], note='setattr')
                return NONE
            if q == 'builtins.setattr' and len(args) == 3:
                self.emit('store', _stmt_of(node), st, target=('attr', args[0], '*'),
                          base=args[0], value=args[2], note='setattr-dynamic')
                return NONE
            if q == 'builtins.delattr' and len(args) == 2:
                self.emit('del', _stmt_of(node), st, target=('attr', args[0], '*'), base=args[0])
                return NONE
            if q == 'builtins.super' and not args and self.func.cls is not None:
                return ('super', self.func.cls.qname, st.env.get('self', ('p', 'self')))
            if q in self.p.funcs:
                f = self.p.funcs[q]
                return self.call_func(f, None, args, kws, node, st)
            if q in self.p.classes and _record_fields(self.p, self.p.classes[q]) is not None \
                    and not any(tag(a) == 'star' for a in args) and not any(k is None for k, _ in kws):
                # NamedTuple / dataclass: a record of its fields (so that values travelling through one are seen)
                fields = _record_fields(self.p, self.p.classes[q])
                vals = {}
                for (nm, dflt), a in zip(fields, args):
                    vals[nm] = a
                for k_, v_ in kws:
                    vals[k_] = v_
                for nm, dflt in fields:
                    if nm not in vals:
                        vals[nm] = self.ev(dflt, State({})) if dflt is not None else ('unk', f'field:{nm}')
                self.emit('call', node, st, call=('call', fn, args, kws))
                return ('record', q, tuple((nm, vals[nm]) for nm, _ in fields))
            if q in self.p.classes:
                k = self.p.classes[q]
                inst = ('new', q, f'{self.func.qname}:{getattr(node, "lineno", 0)}')
                init = self.p.find_method(k, '__init__')
                call_t = ('call', fn, args, kws)
                if init is not None:
                    n_before, g0 = len(self.events), st.guard
                    self.call_func(init, inst, args, kws, node, st, call_t=call_t)
                    rec = self._instance_as_record(q, inst, self.events[n_before:], g0)
                    if rec is not None:
                        return rec
                else:
                    self.emit('call', node, st, call=call_t)
                return inst
            if q in EXTERNAL_SIGS:
                args, kws = _positional(EXTERNAL_SIGS[q], args, kws)
            t = ('call', fn, args, kws)
            self.emit('call', node, st, call=t)
            return t
        if tg == 'bound':
            f = self.p.funcs[fn[2]]
            return self.call_func(f, fn[1], args, kws, node, st)
        if tg == 'attr' and tag(fn[1]) == 'super':
            k = self.p.classes[fn[1][1]]
            for base in self.p.mro(k)[1:]:
                if fn[2] in base.methods:
                    return self.call_func(base.methods[fn[2]], fn[1][2], args, kws, node, st)
        if tg in ('attr', 'col', 'vals', 'index', 'columns'):
            # method call on a value
            recv, name = (fn[1], fn[2]) if tg in ('attr', 'col') else (fn, None)
            if tg == 'vals' and tag(fn[1]) in ('lc', 'dict') and not args and not kws:
                recv, name = fn[1], 'values'            # .values() of a dictionary, not the array of a Series
            if name is None:
                t = ('call', fn, args, kws)
            else:
                if tg == 'col' and name in T.DATA_COLS:
                    # e.g. data.type(...) is not a thing; keep generic
                    pass
                t = self._mcall(recv, name, args, kws)
            self.emit('call', node, st, call=t)
            return t
        t = ('call', fn, args, kws)
        self.emit('call', node, st, call=t)
        return t

    def _function_as_lambda(self, t):
        """A package function handed over as a value (series.apply(helper)) is the lambda with its body."""
        if tag(t) != 'g' or t[1] not in self.p.funcs:
            return t
        f = self.p.funcs[t[1]]
        a = f.node.args
        if a.vararg or a.kwarg or a.kwonlyargs or a.defaults or f.cls is not None or len(a.args) > 3:
            return t
        if any(isinstance(n, (ast.Yield, ast.YieldFrom, ast.Nonlocal, ast.Global)) for n in ast.walk(f.node)):
            return t
        if f.parent is not None and f.parent is not self.func:
            return t
        binding = {x.arg: ('lamv', i) for i, x in enumerate(a.args)}
        binding['__inlined__'] = True
        if f.parent is self.func and self._cur_state is not None:
            own = _bound_names(f.node.body) | set(binding)
            free = {n.id for n in ast.walk(f.node) if isinstance(n, ast.Name) and isinstance(n.ctx, ast.Load)
                    and n.id not in own and n.id in self._cur_state.env}
            binding['__free__'] = tuple(sorted((nm, self._cur_state.env[nm]) for nm in free))
        n_before = len(self.events)
        summ = self.ex.run(f, binding, self.depth + 1)
        if any(e.kind in ('store', 'aug', 'mutcall', 'del', 'raise') for e in summ.events):
            return t                    # not a pure expression function
        return ('lam', len(a.args), summ.ret)

    def _mcall(self, recv, name, args, kws):
        if tag(recv) == 'lc' and recv[1] == 'dict' and name in ('values', 'keys', 'items') and not args and not kws \
                and tag(recv[2]) == 'tuple' and len(recv[2][1]) == 2:
            # {k(x): v(x) for x in xs}.values() is [v(x) for x in xs] (insertion order; keys assumed distinct, as when
            # xs are the distinct names / ids the dictionary is keyed by)
            k, v = recv[2][1]
            return ('lc', 'list', {'values': v, 'keys': k, 'items': recv[2]}[name], recv[3])
        if T.is_const(recv) and isinstance(recv[1], str) and all(T.is_const(a) for a in args) and \
                all(k is not None and T.is_const(v) for k, v in kws) and name in _STR_FOLD:
            # a method of a string literal on literal arguments (a file-name template filled in, ...)
            try:
                out = getattr(recv[1], name)(*[a[1] for a in args], **{k: v[1] for k, v in kws})
                if isinstance(out, (str, bool, int)):
                    return C(out)
            except Exception:  # pylint: disable=broad-except
                pass
        if T.is_const(recv) and isinstance(recv[1], str) and name == 'join' and len(args) == 1 and not kws and \
                tag(args[0]) in ('tuple', 'list') and all(T.is_const(a) and isinstance(a[1], str) for a in args[0][1]):
            return C(recv[1].join(a[1] for a in args[0][1]))
        # aliases and keyword spellings of pandas methods
        name = {'isnull': 'isna', 'notnull': 'notna', 'tolist': 'to_list'}.get(name, name)
        if name in ('round', 'abs') and not args and not kws and tag(recv) not in ('g', 'dict', 'list', 'tuple', 'c'):
            return ('call', ('g', f'numpy.{name}'), (recv,), ())       # x.round() is np.round(x)
        if name in ('any', 'all') and not args and not kws and tag(recv) not in ('g', 'dict', 'list', 'tuple'):
            # mask.any() is np.any(mask) (one spelling for the rules): also for the values of the mask
            r = recv
            while tag(r) == 'vals' or (tag(r) == 'mcall' and r[2] in ('to_numpy', 'to_list') and not r[3]):
                r = r[1]
            return ('call', ('g', f'numpy.{name}'), (r,), ())
        if name == 'copy' and not args and dict(kws) == {'deep': T.TRUE} and tag(recv) not in ('dict', 'list', 'g') and \
                tag(T.root(recv)) == 'attr' and tag(recv) in ('attr', 'col', 'cols', 'mask', 'rows', 'upd', 'mcall'):
            # frame.copy(deep=True) is what deepcopy(frame) does - for an object known to be a frame (an attribute of the
            # chunk or something selected from it); on an argument that has not been validated yet the two differ
            # (None.copy is an AttributeError, deepcopy(None) is None: C08-R4)
            return ('call', ('g', 'copy.deepcopy'), (recv,), ())
        if name == 'drop' and not args:
            kw = dict(kws)
            if set(kw) <= {'index', 'inplace'} and 'index' in kw:
                args, kws = (kw['index'],), tuple((k, v) for k, v in kws if k != 'index')
            elif set(kw) <= {'columns', 'inplace'} and 'columns' in kw:
                args = (kw['columns'],)
                kws = tuple(sorted([(k, v) for k, v in kws if k != 'columns'] + [('axis', C(1))], key=lambda kv: kv[0]))
        if name in ('apply', 'map', 'transform', 'applymap') and args and tag(args[0]) == 'g':
            args = (self._function_as_lambda(args[0]),) + tuple(args[1:])
        if name in METHOD_SIGS:
            args, kws = _positional(METHOD_SIGS[name], args, kws)
        if name in T.VALS_METHODS and not args:
            return ('vals', recv)
        if name == 'keys' and not args:
            return ('mcall', recv, 'keys', (), ())
        return ('mcall', recv, name, args, kws)

    def _instance_as_record(self, q, inst, events, g0):
        """A small helper object whose constructor just stores its arguments (or values computed from them) in attributes
        is the record of those attributes: its methods then read them like the locals they replace.  Only for classes
        that are not one of the package's public classes, and only when every attribute store of the constructor is
        unconditional and made exactly once."""
        from sa.anchors import _public_class
        k = self.p.classes[q]
        if _public_class(self.p, k):
            return None
        stores = [e for e in events if e.kind in ('store', 'aug') and tag(e.target) == 'attr' and e.target[1] == inst]
        if not stores or not any(e.kind == 'call' and getattr(e, 'inlined', False) for e in events[:1]):
            return None
        fields = {}
        for e in stores:
            if e.kind != 'store' or e.target[2] in fields or e.guard != g0 or e.loops != tuple(self.loopstack):
                return None
            fields[e.target[2]] = e.value
        # nothing else may write the object's attributes later on: checked where it would happen (a store to a field of
        # a record is an event on an unknown base and changes nothing here)
        return ('record', q, tuple(sorted(fields.items())))

    def call_func(self, f: Func, recv, args, kws, node, st, call_t=None):
        """Call of a package function: bind, optionally inline."""
        if recv is not None and not f.is_static:
            full_args = (recv,) + tuple(args)
        else:
            full_args = tuple(args)
        if not any(tag(x) == 'star' for x in full_args):
            a = f.node.args
            sig = tuple(x.arg for x in a.posonlyargs + a.args)
            full_args, kws = _positional(sig, full_args, kws)
        t = call_t or ('call', ('g', f.qname), full_args, kws)
        is_nested = '<locals>' in f.qname
        # a local function called by the function that defines it is expanded in place, its free variables bound
        # to the current values of the enclosing locals (unless it rebinds them: nonlocal)
        closure = is_nested and f.parent is self.func and self.depth < self.ex.max_depth and \
            not any(isinstance(n, (ast.Nonlocal, ast.Global, ast.YieldFrom)) for n in ast.walk(f.node))
        # a memoised function is not re-executed on every call: never looked through (its result is a shared object)
        memo = any(d in ('functools.lru_cache', 'functools.cache', 'functools.cached_property') for d in f.decorators)
        do_inline = not memo and (closure or ((not is_nested) and self.depth < self.ex.max_depth and
                                              (self.ex.inline(f.qname, self.depth) or _trivial_accessor(f))))
        self.emit('call', node, st, call=t, inlined=do_inline)
        if not do_inline:
            return t
        binding = self.bind(f, full_args, kws)
        if binding is None:
            return t
        if closure and do_inline:
            own = _bound_names(f.node.body) | {a.arg for a in ast.walk(f.node.args) if isinstance(a, ast.arg)}
            free = {n.id for n in ast.walk(f.node) if isinstance(n, ast.Name) and isinstance(n.ctx, ast.Load)
                    and n.id not in own and n.id in st.env}
            binding = dict(binding)
            binding['__inlined__'] = True
            binding['__free__'] = tuple(sorted((nm, st.env[nm]) for nm in free))
        summ = self.ex.run(f, binding, self.depth + 1)
        self.embed(summ, node, st)
        if summ.normal != TRUE:
            st.guard = T.mk_and([st.guard, summ.normal])
        if closure and do_inline:
            # in-place updates of enclosing locals made by the local function (x[k] = v, x.append(..)) are updates of
            # the caller's variables
            for nm, old_val in binding.get('__free__', ()):
                new_val = summ.env.get(nm)
                if new_val is not None and new_val != old_val and nm in st.env:
                    st.env[nm] = new_val
        # a helper that works in place on a frame / list it was handed (`sort_by_base(pdf)`: pdf.sort_values(inplace=True))
        # has modified the caller's object: the caller's local now denotes the modified object
        if isinstance(node, ast.Call) and summ.env.get('__inplace__'):
            a1 = f.node.args
            pnames = [x.arg for x in a1.posonlyargs + a1.args]
            if recv is not None and not f.is_static and pnames:
                pnames = pnames[1:]
            arg_asts = dict(zip(pnames, node.args))
            arg_asts.update({k.arg: k.value for k in node.keywords if k.arg})
            for nm in summ.env['__inplace__']:
                aast = arg_asts.get(nm)
                new_val = summ.env.get(nm)
                if isinstance(aast, ast.Name) and new_val is not None and aast.id in st.env and \
                        st.env[aast.id] == binding.get(nm) and new_val != st.env[aast.id]:
                    st.env[aast.id] = new_val
        if recv is not None and tag(recv) == 'record' and not f.is_static:
            a0 = f.node.args
            first = (a0.posonlyargs + a0.args)[0].arg if (a0.posonlyargs + a0.args) else None
            after = summ.env.get(first) if first else None
            if tag(after) == 'record' and after[1] == recv[1] and after != recv:
                self._recv_update = (recv, after)       # the method changed attributes of its object
        if f.name == '__init__':
            return recv
        return summ.ret

    def inline_call(self, f: Func, binding: dict, node, st, is_prop=False):
        if self.depth >= self.ex.max_depth:
            return ('attr', binding['self'], f.name) if is_prop else ('unk', 'depth')
        b = dict(binding)
        b['__inlined__'] = True
        summ = self.ex.run(f, b, self.depth + 1)
        self.emit('propget' if is_prop else 'call', node, st,
                  call=('call', ('g', f.qname), (binding.get('self'),), ()), inlined=True)
        self.embed(summ, node, st)
        if summ.normal != TRUE:
            st.guard = T.mk_and([st.guard, summ.normal])
        return summ.ret

    def bind(self, f: Func, args, kws) -> Optional[dict]:
        a = f.node.args
        names = [x.arg for x in a.posonlyargs + a.args]
        binding = {'__inlined__': True}
        pos = list(args)
        if any(tag(x) == 'star' for x in pos):
            return None
        for nm, v in zip(names, pos):
            binding[nm] = v
        extra = pos[len(names):]
        if extra:
            if a.vararg is None:
                return None
            binding[a.vararg.arg] = ('tuple', tuple(extra))
        kwextra = []
        allnames = set(names) | {x.arg for x in a.kwonlyargs}
        for k, v in kws:
            if k is None:
                # **expr : distribute over the remaining named parameters symbolically
                if a.kwarg is not None:
                    kwextra.append((('c', '**'), v))
                else:
                    for nm in allnames:
                        if nm not in binding:
                            binding[nm] = ('kwget', v, nm, self._default_term(f, nm))
                continue
            if k in allnames:
                binding[k] = v
            elif a.kwarg is not None:
                kwextra.append((C(k), v))
            else:
                return None
        if a.kwarg is not None:
            if len(kwextra) == 1 and kwextra[0][0] == ('c', '**'):
                binding[a.kwarg.arg] = ('kwrest', kwextra[0][1])
            else:
                binding[a.kwarg.arg] = ('dict', tuple(kwextra))
        return binding

    def _default_term(self, f: Func, nm: str):
        a = f.node.args
        allargs = a.posonlyargs + a.args
        defaults = [None] * (len(allargs) - len(a.defaults)) + list(a.defaults)
        for x, d in list(zip(allargs, defaults)) + list(zip(a.kwonlyargs, a.kw_defaults)):
            if x.arg == nm and d is not None:
                r = _Run(self.ex, f, self.depth + 1)
                return r.ev(d, State({}))
        return ('unk', 'nodefault')


# ---------------------------------------------------------------------- helpers
_BINOP = {ast.Add: '+', ast.Sub: '-', ast.Mult: '*', ast.Div: '/', ast.FloorDiv: '//',
          ast.Mod: '%', ast.Pow: '**', ast.BitAnd: '&', ast.BitOr: '|', ast.BitXor: '^',
          ast.LShift: '<<', ast.RShift: '>>', ast.MatMult: '@'}
_STR_FOLD = {'format', 'lower', 'upper', 'strip', 'lstrip', 'rstrip', 'replace', 'startswith', 'endswith', 'title',
             'capitalize', 'zfill', 'removeprefix', 'removesuffix'}
_OPERATOR_CMP = {}
for _m in ('operator', '_operator'):
    _OPERATOR_CMP.update({f'{_m}.lt': '<', f'{_m}.le': '<=', f'{_m}.gt': '>', f'{_m}.ge': '>=', f'{_m}.eq': '==',
                          f'{_m}.ne': '!=', f'{_m}.is_': 'is', f'{_m}.is_not': 'isnot'})
_OPERATOR_BIN = {}
for _m in ('operator', '_operator'):
    _OPERATOR_BIN.update({f'{_m}.add': '+', f'{_m}.sub': '-', f'{_m}.mul': '*', f'{_m}.truediv': '/',
                          f'{_m}.floordiv': '//', f'{_m}.mod': '%', f'{_m}.pow': '**', f'{_m}.and_': '&',
                          f'{_m}.or_': '|', f'{_m}.xor': '^'})
_CMPOP = {ast.Lt: '<', ast.Gt: '>', ast.LtE: '<=', ast.GtE: '>=', ast.Eq: '==', ast.NotEq: '!=',
          ast.Is: 'is', ast.IsNot: 'isnot', ast.In: 'in', ast.NotIn: 'notin'}


def guard_lits(g) -> list:
    if g == TRUE:
        return []
    return list(g[1]) if tag(g) == 'and' else [g]


def _truth(c):
    """A term used as a condition."""
    if T.is_const(c):
        return TRUE if c[1] else FALSE
    if tag(c) == 'phi' and all((T.is_const(v) and isinstance(v[1], bool)) or T.boolish(v) for _, v in c[1]):
        # a flag set on some paths and cleared on others: true exactly under the conditions of the paths that set it
        return T.mk_or([T.mk_and([g, _truth(v)]) for g, v in c[1]])
    return c


def _stmt_of(node):
    cur = node
    while cur is not None and not isinstance(cur, ast.stmt):
        cur = getattr(cur, '_parent', None)
    return cur or node


def _assigned_names(stmts) -> set:
    out = set()
    for s in stmts:
        for n in ast.walk(s):
            if isinstance(n, (ast.Yield, ast.YieldFrom)):
                out.add(YIELDED)
            if isinstance(n, ast.Name) and isinstance(n.ctx, (ast.Store, ast.Del)):
                out.add(n.id)
            elif isinstance(n, (ast.FunctionDef, ast.ClassDef)) and n is not s:
                out.add(n.name)
            elif isinstance(n, ast.Call) and isinstance(n.func, ast.Attribute) \
                    and isinstance(n.func.value, ast.Name):
                # x.sort_values(inplace=True) / x.append(..) rebinding of locals
                if n.func.attr in MUTATING_METHODS or any(
                        k.arg == 'inplace' for k in n.keywords):
                    out.add(n.func.value.id)
            elif isinstance(n, (ast.Subscript, ast.Attribute)) and isinstance(n.ctx, ast.Store):
                b = _store_base(n)
                if isinstance(b, ast.Name):
                    out.add(b.id)
    return out


_RECORD_CACHE: dict = {}


def _record_fields(project, k):
    """[(field name, default ast or None)] of a typing.NamedTuple subclass or a dataclass, else None."""
    key = (id(project), k.qname)
    if key in _RECORD_CACHE:
        return _RECORD_CACHE[key]
    is_nt = any(b in ('typing.NamedTuple', 'NamedTuple') for b in k.bases)
    is_dc = any(isinstance(d, (ast.Name, ast.Attribute, ast.Call)) and 'dataclass' in ast.unparse(d)
                for d in k.node.decorator_list)
    out = None
    if (is_nt or is_dc) and '__init__' not in k.methods and '__new__' not in k.methods and '__post_init__' not in k.methods:
        out = [(s.target.id, s.value) for s in k.node.body
               if isinstance(s, ast.AnnAssign) and isinstance(s.target, ast.Name)]
    _RECORD_CACHE[key] = out
    return out


def _cvs_outside_lc(t, acc=None):
    """Comprehension variables occurring in t outside any embedded comprehension term."""
    acc = [] if acc is None else acc
    if not isinstance(t, tuple) or not t:
        return acc
    tg = t[0] if isinstance(t[0], str) else None
    if tg == 'cv':
        acc.append(t)
        return acc
    if tg == 'lc':
        return acc
    for x in (t[1:] if tg is not None else t):
        if isinstance(x, tuple):
            _cvs_outside_lc(x, acc)
    return acc


def _own_depth(lc):
    ds = [x[1] for x in _cvs_outside_lc(lc[2])] + [x[1] for _, cs in lc[3] for c in cs for x in _cvs_outside_lc(c)]
    return min(ds, default=None)


def _subst_cv(t, mapping, d):
    """Substitute comprehension variables of depth d, leaving alone embedded comprehensions that bind variables of the
    same depth themselves (siblings read back from a table, not nested ones)."""
    if not isinstance(t, tuple) or not t:
        return t
    if t in mapping:
        return mapping[t]
    tg = t[0] if isinstance(t[0], str) else None
    if tg == 'lc' and _own_depth(t) == d:
        return t
    if tg is None:
        return tuple(_subst_cv(x, mapping, d) if isinstance(x, tuple) else x for x in t)
    new = tuple([t[0]] + [_subst_cv(x, mapping, d) if isinstance(x, tuple) else x for x in t[1:]])
    return T.rebuild(new) if new != t else t


_TRIVIAL: dict = {}


def _trivial_accessor(f) -> bool:
    """A method whose whole body is `return <expression without calls>` (a getter behind a property, `_get_prms`): looked
    through under every inlining policy, like the property getters themselves."""
    k = id(f.node)
    if k not in _TRIVIAL:
        body = [n for n in f.node.body if not (isinstance(n, ast.Expr) and isinstance(n.value, ast.Constant))]
        _TRIVIAL[k] = not f.decorators and '<locals>' not in f.qname and len(body) == 1 and isinstance(body[0], ast.Return) and \
            body[0].value is not None and not any(isinstance(n, (ast.Call, ast.Yield, ast.Await, ast.Lambda))
                                                  for n in ast.walk(body[0].value))
    return _TRIVIAL[k]


def _constant_items(it):
    """The elements of a literal tuple / list of constants (or of constant tuples / records; also enumerate() / zip() of
    such sequences), else None."""
    def const(x):
        return T.is_const(x) or tag(x) == 'g' or (tag(x) in ('tuple', 'list') and all(const(y) for y in x[1])) or \
            (tag(x) == 'record' and all(const(v) for _, v in x[2])) or \
            (tag(x) == 'dict' and all(const(k) and const(v) for k, v in x[1]))
    if tag(it) in ('tuple', 'list') and all(const(x) for x in it[1]):
        return list(it[1])
    if tag(it) == 'call' and it[1] == ('g', 'builtins.enumerate') and it[2] and len(it[2]) <= 2:
        inner = _constant_items(it[2][0])
        start = 0
        if len(it[2]) == 2 or it[3]:
            sv = it[2][1] if len(it[2]) == 2 else dict(it[3]).get('start')
            if sv is None or not (T.is_const(sv) and isinstance(sv[1], int)):
                return None
            start = sv[1]
        if inner is not None:
            return [('tuple', (C(i + start), x)) for i, x in enumerate(inner)]
    if tag(it) == 'call' and it[1] == ('g', 'builtins.zip') and len(it[2]) >= 2 and not it[3]:
        cols = [_constant_items(a) for a in it[2]]
        if all(c is not None for c in cols):
            return [('tuple', tuple(r)) for r in zip(*cols)]
    if tag(it) == 'mcall' and it[2] in ('items', 'keys', 'values') and not it[3] and not it[4] and tag(it[1]) == 'dict' \
            and all(const(k) and const(v) for k, v in it[1][1]):
        if it[2] == 'items':
            return [('tuple', (k, v)) for k, v in it[1][1]]
        return [k if it[2] == 'keys' else v for k, v in it[1][1]]
    return None


def _truthy_array(t):
    return t


def _zip_range_as_enumerate(it):
    """zip(range(len(X)), X) enumerates X."""
    if tag(it) == 'call' and it[1] == ('g', 'builtins.zip') and len(it[2]) == 2 and not it[3]:
        r, x = it[2]
        if tag(r) == 'call' and r[1] == ('g', 'builtins.range') and len(r[2]) == 1 and \
                r[2][0] == ('call', ('g', 'builtins.len'), (x,), ()):
            return ('call', ('g', 'builtins.enumerate'), (x,), ())
    return it


def _bound_names(stmts) -> set:
    """Names *bound* by the statements (assignment / for / with / import / def / class): a name that is only
    modified in place (x.update(..), x[k] = v) is not bound there and resolves further out."""
    out = set()
    for s in stmts:
        for n in ast.walk(s):
            if isinstance(n, ast.Name) and isinstance(n.ctx, (ast.Store, ast.Del)):
                out.add(n.id)
            elif isinstance(n, (ast.FunctionDef, ast.AsyncFunctionDef, ast.ClassDef)):
                out.add(n.name)
            elif isinstance(n, (ast.Import, ast.ImportFrom)):
                for a in n.names:
                    out.add((a.asname or a.name).split('.')[0])
    return out


def _store_base(tgt):
    """The expression denoting the object modified by a store to `tgt`."""
    cur = tgt.value
    if isinstance(cur, ast.Attribute) and cur.attr in T.ACCESSORS:
        cur = cur.value
    return cur


def _as_load(node):
    """The evaluator ignores expression contexts, so a store target can be read as it stands."""
    return node


def _rebase(target, base):
    """Express a store target relative to its base object (base replaced by ('it',))."""
    return T.subst(target, {base: ('it',)}) if base != ('it',) else target


def _read_through(t):
    """cell/col read on a chain of functional updates: return the stored value when the most recent
    matching update wrote exactly that location."""
    tg = tag(t)
    if tg == 'cell':
        obj, row, col = t[1], t[2], t[3]
        cur = obj
        while tag(cur) == 'upd':
            tgt = cur[2]
            if tag(tgt) == 'cell' and tgt[1] == ('it',) and tgt[3] == col:
                if tgt[2][1] == row[1]:
                    return cur[3]
                return t
            if tag(tgt) == 'cell' and tgt[1] == ('it',):
                cur = cur[1]
                continue
            if tag(tgt) == 'col' and tgt[1] == ('it',) and tgt[2] != col:
                cur = cur[1]
                continue
            return t
        return t
    return t


def upd_chain(t):
    """[(target_rel, value), ...] newest first, and the base object under the updates."""
    out = []
    while tag(t) == 'upd':
        out.append((t[2], t[3]))
        t = t[1]
    return out, t
