"""Minimal reader for the packaged parameter file (block mappings, flow lists, scalars, comments).
Anything outside that subset is an AnalysisError: the file is data for the checks, never executed."""
from __future__ import annotations

import re

from .core import AnalysisError


def _scalar(s: str):
    s = s.strip()
    if s in ('null', '~', ''):
        return None
    if s in ('true', 'True'):
        return True
    if s in ('false', 'False'):
        return False
    if (s[0] == s[-1]) and s[0] in '"\'' and len(s) >= 2:
        return s[1:-1]
    if s.startswith('[') and s.endswith(']'):
        inner = s[1:-1].strip()
        return [] if not inner else [_scalar(x) for x in inner.split(',')]
    try:
        return int(s)
    except ValueError:
        pass
    try:
        return float(s)
    except ValueError:
        pass
    if re.fullmatch(r'[A-Za-z0-9_\-\.]+', s):
        return s
    raise AnalysisError('YAML', f'unsupported scalar: {s!r}')


def load(text: str) -> dict:
    root: dict = {}
    stack = [(-1, root)]
    for raw in text.splitlines():
        line = raw.split(' #')[0] if not raw.lstrip().startswith('#') else ''
        if not line.strip():
            continue
        indent = len(line) - len(line.lstrip(' '))
        m = re.fullmatch(r'\s*([A-Za-z0-9_]+):\s*(.*)', line.rstrip())
        if not m:
            raise AnalysisError('YAML', f'unsupported line: {raw!r}')
        key, val = m.group(1), m.group(2)
        while stack and stack[-1][0] >= indent:
            stack.pop()
        parent = stack[-1][1]
        if val == '':
            child: dict = {}
            parent[key] = child
            stack.append((indent, child))
        else:
            parent[key] = _scalar(val)
    return root
