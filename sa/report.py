"""E8 - obligations, verdicts, evidence, known findings."""
from __future__ import annotations

import ast
import json
import os
import time
from pathlib import Path

from .core import AnalysisError, Project

VERIF = Path(__file__).resolve().parent.parent
# VERIF_OUT redirects evidence / replay files (used when a scratch copy is analysed instead of /repo,
# so that the committed evidence always describes /repo itself)
_OUT = Path(os.environ.get('VERIF_OUT') or VERIF)
EVID = _OUT / 'evidence'
REPLAY = _OUT / 'replay'
KNOWN = VERIF / 'known_findings.json'


STANDING = [
    'A1: the API summary tables of the checker describe pandas / NumPy / scikit-learn / statsmodels / matplotlib '
    'correctly (which calls mutate in place, return new objects, consume the global RNG, write rcParams, ...)',
    'A3: Python semantics of the supported AST subset as encoded in sa/symexec.py (an unsupported construct is an '
    'ANALYSIS-ERROR, never a pass)',
]


def norm_stmt(node_or_text) -> str:
    """Statement text normalised for keys: unparsed AST, whitespace collapsed (never line numbers)."""
    if isinstance(node_or_text, ast.AST):
        try:
            node_or_text = ast.unparse(node_or_text)
        except Exception:  # pylint: disable=broad-except
            node_or_text = '<?>'
    return ' '.join(str(node_or_text).split())[:300]


class Ctx:
    def __init__(self, prop: str, tier: str, level: str = 'other', project: Project | None = None,
                 replay: str | None = None):
        self.prop = prop
        self.tier = tier
        self.level = level
        self.t0 = time.time()
        self.project = project or Project()
        self.obligations: list = []
        self.samples: list = []
        self.assumptions: list = []
        self.undecided: list = []
        self.tables: dict = {}
        self.extra: dict = {}
        self.replay = replay
        self.seed = int(os.environ.get('VERIF_SEED', '0') or 0)
        self._known = self._load_known()
        self.analysed: dict = {'functions': set(), 'call_sites': 0, 'events': 0}
        self.floor_failures: list = []

    # ------------------------------------------------------------------ known findings
    @staticmethod
    def _load_known() -> list:
        if not KNOWN.exists():
            return []
        try:
            return json.loads(KNOWN.read_text()).get('known', [])
        except Exception as err:  # pylint: disable=broad-except
            raise AnalysisError('E8', f'known_findings.json unreadable: {err}') from err

    def _is_known(self, rule, func, stmt):
        for k in self._known:
            if k.get('property') == self.prop and k.get('rule') == rule and \
                    k.get('function') == func and k.get('statement') == stmt:
                return k
        return None

    # ------------------------------------------------------------------ recording
    def ok(self, rule: str, instance: str, loc: str = '', detail: str = '') -> None:
        self.obligations.append({'rule': rule, 'instance': instance, 'loc': loc, 'status': 'ok',
                                 'detail': detail})

    def violation(self, rule: str, func: str, node, loc: str, msg: str, facts=None,
                  instance: str = '') -> None:
        stmt = norm_stmt(node)
        known = self._is_known(rule, func, stmt)
        self.obligations.append({
            'rule': rule, 'instance': instance or f'{func}: {stmt[:80]}', 'loc': loc,
            'status': 'known' if known else 'violation', 'function': func, 'statement': stmt,
            'detail': msg, 'facts': facts or {}, 'known': known.get('what') if known else None})

    def check(self, cond: bool, rule: str, func: str, node, loc: str, msg: str, facts=None,
              instance: str = '', detail: str = '') -> bool:
        if cond:
            self.ok(rule, instance or f'{func}: {norm_stmt(node)[:80]}', loc, detail)
        else:
            self.violation(rule, func, node, loc, msg, facts, instance)
        return bool(cond)

    def floor(self, rule: str, what: str, found: int, minimum: int) -> None:
        """A rule matching fewer instances than confirmed by reading passes vacuously: refuse."""
        if found < minimum:
            # deferred: a violation found by the same run is the more specific verdict
            self.floor_failures.append((rule, f'{what}: {found} instance(s) found, at least {minimum} '
                                              'were confirmed by reading the pinned tree'))
        self.tables.setdefault('floors', {})[f'{rule}:{what}'] = {'found': found, 'floor': minimum}

    def sample(self, obj) -> None:
        if len(self.samples) < 40:
            self.samples.append(obj)

    def saw(self, *funcs) -> None:
        for f in funcs:
            self.analysed['functions'].add(getattr(f, 'qname', f))

    # ------------------------------------------------------------------ finish
    def finish(self) -> int:
        viol = [o for o in self.obligations if o['status'] == 'violation']
        if self.floor_failures and not viol:
            raise AnalysisError(*self.floor_failures[0])
        known = [o for o in self.obligations if o['status'] == 'known']
        okc = sum(1 for o in self.obligations if o['status'] == 'ok')
        REPLAY.mkdir(parents=True, exist_ok=True)
        EVID.mkdir(parents=True, exist_ok=True)
        for o in known:
            print(f"KNOWN-FINDING: property={self.prop} rule={o['rule']} {o['function']}: "
                  f"{o['statement'][:100]} -- {o['known'] or o['detail']}")
        lines = []
        for i, o in enumerate(viol):
            path = REPLAY / f'{self.prop}_{i}.json'
            path.write_text(json.dumps({'property': self.prop, **{k: v for k, v in o.items()}},
                                       indent=1, default=str))
            print(f"  {o['rule']} at {o['loc']} in {o.get('function', '')}: {o['detail']}")
            print(f"    statement: {o.get('statement', '')}")
            lines.append(f'VIOLATION property={self.prop} replay={path}')
        stats = self.project.stats()
        rules = sorted({o['rule'] for o in self.obligations})
        evidence = {
            'property_id': self.prop, 'tier': self.tier, 'seed': self.seed, 'level': self.level,
            'coverage': {
                'explanation': (
                    f'Static analysis of /repo/src/ampycloud ({stats["modules"]} modules, '
                    f'{stats["functions"]} functions, {stats["loc"]} lines) parsed from the working '
                    f'tree on this run; {len(self.obligations)} obligations over rules '
                    f'{", ".join(rules)}; nothing of the package was imported or executed. '
                    + self.extra.pop('explanation', '')),
                'obligations': len(self.obligations),
                'discharged': okc,
                'known_findings': len(known),
                'evaluations': max(1, len(self.obligations)),
                'distinct_nontrivial': len({(o['rule'], o['instance']) for o in self.obligations}),
                'rule': 'one obligation per rule instance found in the source (call site, store, '
                        'guard, transition, table row); distinct = distinct (rule, instance) pairs',
                'samples': self.samples[:40] or [o for o in self.obligations[:10]],
                'rules': rules,
                'instances': [{k: o[k] for k in ('rule', 'instance', 'loc', 'status')}
                              for o in self.obligations][:400],
                'analysed': {'modules': stats['modules'], 'functions_in_package': stats['functions'],
                             'functions_consulted': sorted(self.analysed['functions'])[:200],
                             'call_sites': self.analysed['call_sites'],
                             'events': self.analysed['events']},
                'tables': self.tables,
                'undecided_clauses': self.undecided,
                'exhaustive': bool(self.extra.pop('exhaustive', False)),
                **self.extra,
            },
            'assumptions': self.assumptions + STANDING,
            'wall_s': round(time.time() - self.t0, 3),
            'violations': len(viol),
        }
        (EVID / f'{self.prop}.json').write_text(json.dumps(evidence, indent=1, default=str))
        print(f'{self.prop} [{self.tier}] obligations={len(self.obligations)} discharged={okc} '
              f'known={len(known)} violations={len(viol)} wall={evidence["wall_s"]}s')
        for ln in lines:
            print(ln)
        return 1 if viol else 0
