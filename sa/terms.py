"""Provenance terms (E3) and predicate normalisation (E5).

Terms are nested tuples (hashable, structurally comparable).  The smart constructors below bring
the pandas / NumPy spellings used in the repository to one canonical form so that rules compare
*what is computed*, not how it is spelled.

tags
  ('c', v)                      constant
  ('g', qname)                  resolved global (module, function, class, module-level variable)
  ('p', name)                   parameter of the function under analysis (free symbol)
  ('new', clsq, tag)            fresh instance created by a constructor call
  ('attr', b, name)             attribute read
  ('prm', path)                 self._prms[path[0]][path[1]]...  (the chunk's parameter snapshot)
  ('col', b, name)              string-key subscript (frame column / dict entry)
  ('cols', b, names)            list-of-strings subscript
  ('mask', b, cond)             boolean row selection
  ('rows', b, kind, sel)        row selection by labels ('lab') or positions ('pos')
  ('cell', b, (kind, row), col) one cell
  ('sub', b, idx)               any other subscript
  ('vals', b)                   .values / .to_numpy() / .to_list()
  ('index', b) ('columns', b)
  ('call', f, args, kw)         call of a resolved or computed callable
  ('mcall', recv, name, args, kw)  method call on a value
  ('cmp', op, a, b)             op in lt le eq ne is in   (gt/ge are flipped)
  ('and', items) ('or', items) ('not', a)
  ('bin', op, a, b) ('un', op, a) ('ifexp', c, a, b)
  ('phi', ((guard, term), ...)) value merge at a join
  ('lv', loopid, role)          loop variable (role: 'elem', 'idx', 'item', or name)
  ('lphi', loopid, name)        loop-carried variable at loop entry
  ('loopres', loopid, name, init, body)  value after the loop
  ('lc', kind, elt, gens)       comprehension, gens = ((iter, conds), ...), bound vars ('cv', d, i)
  ('lam', n, body)              lambda, bound vars ('lamv', i)
  ('fstr', parts) ('tuple', items) ('list', items) ('set', items) ('dict', pairs)
  ('slice', lo, hi, step) ('star', t) ('unk', why)
"""
from __future__ import annotations

DATA_COLS = ('ceilo', 'dt', 'height', 'type')
ACCESSORS = ('loc', 'iloc', 'at', 'iat')
BOOL_METHODS = {'notna', 'isna', 'isnull', 'notnull', 'isin', 'duplicated', 'any', 'all',
                'isdisjoint', 'issubset', 'startswith', 'endswith', 'equals', 'between', 'eq', 'ne',
                'lt', 'le', 'gt', 'ge'}
VALS_METHODS = {'to_numpy', 'to_list', 'tolist'}
NONE = ('c', None)
TRUE = ('c', True)
FALSE = ('c', False)
SLICE_ALL = ('slice', NONE, NONE, NONE)


def C(v):
    return ('c', v)


def is_const(t) -> bool:
    return isinstance(t, tuple) and len(t) == 2 and t[0] == 'c'


def tag(t):
    return t[0] if isinstance(t, tuple) and t else None


def key(t) -> str:
    return repr(t)


def boolish(t) -> bool:
    tg = tag(t)
    if tg in ('cmp', 'and', 'or', 'not'):
        return True
    if tg == 'c':
        return isinstance(t[1], bool)
    if tg == 'mcall':
        if t[2] in BOOL_METHODS:
            return True
        if t[2] in ('fillna', 'astype', 'copy', 'reset_index', 'to_numpy') and boolish(t[1]):
            return True
        if t[2] in ('apply', 'map') and t[3] and tag(t[3][0]) == 'lam' and boolish(t[3][0][2]):
            return True
        return False
    if tg == 'vals':
        return boolish(t[1])
    if tg == 'call' and tag(t[1]) == 'g':
        q = t[1][1]
        if q in ('numpy.isnan', 'numpy.isin', 'numpy.isfinite', 'numpy.any', 'numpy.all',
                 'builtins.isinstance', 'builtins.any', 'builtins.all', 'builtins.bool',
                 'numpy.logical_and', 'numpy.logical_or', 'numpy.logical_not', 'builtins.hasattr',
                 'builtins.callable'):
            return True
        if q in ('numpy.array', 'numpy.asarray') and t[2]:
            return boolish(t[2][0])
    if tg == 'phi':
        return all(boolish(x[1]) for x in t[1])
    return False


# ------------------------------------------------------------------ boolean / comparison algebra
_FLIP = {'lt': 'le', 'le': 'lt'}


def mk_not(a):
    tg = tag(a)
    if tg == 'c':
        return C(not a[1])
    if tg == 'not':
        return a[1]
    if tg == 'cmp':
        op, x, y = a[1], a[2], a[3]
        if op == 'lt':
            return ('cmp', 'le', y, x)
        if op == 'le':
            return ('cmp', 'lt', y, x)
        if op == 'eq':
            return ('cmp', 'ne', x, y)
        if op == 'ne':
            return ('cmp', 'eq', x, y)
        return ('not', a)
    if tg == 'and':
        return mk_or([mk_not(x) for x in a[1]])
    if tg == 'or':
        return mk_and([mk_not(x) for x in a[1]])
    return ('not', a)


def _flat(kind, items):
    out = []
    for it in items:
        if tag(it) == kind:
            out.extend(it[1])
        else:
            out.append(it)
    return out


def mk_and(items):
    items = _flat('and', items)
    out = []
    for it in items:
        if it == TRUE:
            continue
        if it == FALSE:
            return FALSE
        if it not in out:
            out.append(it)
    for it in out:
        if mk_not(it) in out:
            return FALSE
    # unit propagation into disjunctions: a & (a | X) -> a ; ~a & (a | X) -> ~a & X
    if any(tag(x) == 'or' for x in out) and len(out) > 1:
        lits = [x for x in out if tag(x) != 'or']
        new, changed = [], False
        for x in out:
            if tag(x) != 'or':
                new.append(x)
                continue
            if any(d in lits for d in x[1]):
                changed = True
                continue
            keep = [d for d in x[1] if mk_not(d) not in lits]
            if len(keep) != len(x[1]):
                changed = True
                new.append(mk_or(keep))
            else:
                new.append(x)
        if changed:
            return mk_and(new)
    if not out:
        return TRUE
    if len(out) == 1:
        return out[0]
    return ('and', tuple(sorted(out, key=key)))


def mk_or(items):
    items = _flat('or', items)
    out = []
    for it in items:
        if it == FALSE:
            continue
        if it == TRUE:
            return TRUE
        if it not in out:
            out.append(it)
    for it in out:
        if mk_not(it) in out:
            return TRUE
    # or(and(X, a), and(X, ~a)) -> X ; or(X, and(X, a)) -> X
    changed = True
    while changed and len(out) > 1:
        changed = False
        sets = [frozenset(x[1]) if tag(x) == 'and' else frozenset([x]) for x in out]
        for i in range(len(out)):
            for j in range(len(out)):
                if i == j:
                    continue
                if sets[i] <= sets[j]:
                    del out[j]
                    changed = True
                    break
                if len(sets[i]) == 1 and mk_not(next(iter(sets[i]))) in sets[j]:
                    # a | (~a & X) -> a | X
                    rest = sets[j] - {mk_not(next(iter(sets[i])))}
                    out[j] = mk_and(list(rest)) if rest else TRUE
                    changed = True
                    break
                da, db = sets[i] - sets[j], sets[j] - sets[i]
                if len(da) == 1 and len(db) == 1 and mk_not(next(iter(da))) == next(iter(db)):
                    common = sets[i] & sets[j]
                    new = mk_and(list(common)) if common else TRUE
                    out = [x for k, x in enumerate(out) if k not in (i, j)] + [new]
                    changed = True
                    break
            if changed:
                break
    if TRUE in out:
        return TRUE
    if not out:
        return FALSE
    if len(out) == 1:
        return out[0]
    # common factor: (X & a) | (X & b) -> X & (a | b), so that what holds on every alternative stays a literal
    sets = [frozenset(x[1]) if tag(x) == 'and' else frozenset([x]) for x in out]
    common = frozenset.intersection(*sets)
    if common:
        rests = [s_ - common for s_ in sets]
        if any(not r for r in rests):
            return mk_and(list(common))
        return mk_and(list(common) + [mk_or([mk_and(list(r)) for r in rests])])
    return ('or', tuple(sorted(out, key=key)))


def anti_unify(alts):
    """[(guard, term)] -> one term in which the alternatives' single point of difference has become a selection:
    phi{g: f(x); h: f(y)} is f(phi{g: x; h: y}).  Returns the plain selection when the alternatives differ in more than
    one place."""
    t0 = alts[0][1]
    if all(t == t0 for _, t in alts):
        return t0
    if all(isinstance(t, tuple) and len(t) == len(t0) and bool(t) for _, t in alts) and isinstance(t0, tuple) and t0 \
            and tag(t0) not in ('c', 'phi', 'lv', 'cv', 'p', 'g'):
        head_is_tag = isinstance(t0[0], str)
        if not head_is_tag or all(t[0] == t0[0] for _, t in alts):
            start = 1 if head_is_tag else 0
            diffs = [i for i in range(start, len(t0)) if any(t[i] != t0[i] for _, t in alts)]
            if len(diffs) == 1 and all(isinstance(t[diffs[0]], tuple) for _, t in alts):
                i = diffs[0]
                inner = anti_unify([(g, t[i]) for g, t in alts])
                return t0[:i] + (inner,) + t0[i + 1:]
    return mk_phi(list(alts))


def dnf(f, limit: int = 256) -> list:
    """Disjunctive normal form of a guard (already in negation normal form): list of conjunctions (each a formula built
    by mk_and, FALSE ones dropped).  None when it would exceed `limit` conjunctions."""
    tg = tag(f)
    if tg == 'or':
        out = []
        for x in f[1]:
            d = dnf(x, limit)
            if d is None:
                return None
            out += d
            if len(out) > limit:
                return None
        return out
    if tg == 'and':
        acc = [TRUE]
        for x in f[1]:
            d = dnf(x, limit)
            if d is None:
                return None
            acc = [mk_and([a, b]) for a in acc for b in d]
            acc = [a for a in acc if a != FALSE]
            if len(acc) > limit:
                return None
        return acc
    return [] if f == FALSE else [f]


def _prop_atoms(f, acc):
    tg = tag(f)
    if tg in ('and', 'or'):
        for x in f[1]:
            _prop_atoms(x, acc)
    elif tg == 'not':
        _prop_atoms(f[1], acc)
    elif tg == 'c' and isinstance(f[1], bool):
        pass
    else:
        n = mk_not(f)
        # one atom per complementary pair of comparisons (a < b / b <= a)
        a = f if tag(n) == 'not' or key(f) <= key(n) else n
        if a not in acc:
            acc.append(a)


def _prop_eval(f, val):
    tg = tag(f)
    if tg == 'and':
        return all(_prop_eval(x, val) for x in f[1])
    if tg == 'or':
        return any(_prop_eval(x, val) for x in f[1])
    if tg == 'not':
        return not _prop_eval(f[1], val)
    if tg == 'c' and isinstance(f[1], bool):
        return f[1]
    if f in val:
        return val[f]
    return not val[mk_not(f)]


def implies(premise, conclusion, max_atoms: int = 16):
    """Propositional entailment by truth table over the atoms of both formulas (comparisons and their complements
    share an atom; atoms are otherwise treated as independent, so True is sound and False may be pessimistic).
    Returns None when there are too many atoms."""
    atoms = []
    _prop_atoms(premise, atoms)
    _prop_atoms(conclusion, atoms)
    if len(atoms) > max_atoms:
        return None
    for bits in range(1 << len(atoms)):
        val = {a: bool(bits >> i & 1) for i, a in enumerate(atoms)}
        if _prop_eval(premise, val) and not _prop_eval(conclusion, val):
            return False
    return True


def _const_cmp(op, a, b):
    try:
        if op == 'lt':
            return a < b
        if op == 'le':
            return a <= b
        if op == 'eq':
            return a == b
        if op == 'ne':
            return a != b
        if op == 'is':
            return a is b if (a is None or b is None or isinstance(a, bool) or isinstance(b, bool)) \
                else None
        if op == 'in':
            return a in b
    except TypeError:
        return None
    return None


def has_const_alternative(ph) -> bool:
    """Some alternative of the selection (at any nesting depth) is a constant."""
    return any(is_const(v) or (tag(v) == 'phi' and has_const_alternative(v)) for _, v in ph[1])


def mk_cmp(pyop: str, a, b):
    """pyop in < > <= >= == != is isnot in notin."""
    if pyop == '>':
        return mk_cmp('<', b, a)
    if pyop == '>=':
        return mk_cmp('<=', b, a)
    if pyop == 'isnot':
        return mk_not(mk_cmp('is', a, b))
    if pyop == 'notin':
        return mk_not(mk_cmp('in', a, b))
    op = {'<': 'lt', '<=': 'le', '==': 'eq', '!=': 'ne', 'is': 'is', 'in': 'in'}[pyop]
    if op in ('lt', 'le', 'eq', 'ne'):
        # element-wise comparisons of the values of a column are comparisons of the column (row by row)
        if tag(a) == 'vals' and tag(a[1]) in ('col', 'mask', 'cols'):
            a = a[1]
        if tag(b) == 'vals' and tag(b[1]) in ('col', 'mask', 'cols'):
            b = b[1]
    if op == 'is' and a == NONE and b != NONE:
        a, b = b, a                 # `None is x` is `x is None`
    # a value chosen on different paths compared with a constant: the comparison of each alternative on its path
    if tag(a) == 'phi' and is_const(b) and len(a[1]) <= 8 and has_const_alternative(a):
        return mk_or([mk_and([g, mk_cmp(pyop, v, b)]) for g, v in a[1]])
    if tag(b) == 'phi' and is_const(a) and len(b[1]) <= 8 and has_const_alternative(b):
        return mk_or([mk_and([g, mk_cmp(pyop, a, v)]) for g, v in b[1]])
    # a condition compared with True / False is that condition or its negation
    if op in ('eq', 'ne') and is_const(b) and isinstance(b[1], bool) and boolish(a) and not is_const(a):
        return a if (b[1] is True) == (op == 'eq') else mk_not(a)
    if op in ('eq', 'ne') and is_const(a) and isinstance(a[1], bool) and boolish(b) and not is_const(b):
        return b if (a[1] is True) == (op == 'eq') else mk_not(b)
    if is_const(a) and is_const(b):
        r = _const_cmp(op, a[1], b[1])
        if r is not None:
            return C(bool(r))
    if op == 'is' and b == NONE and tag(a) in ('dict', 'list', 'tuple', 'set', 'new', 'lc', 'fstr', 'lam', 'cmp', 'and',
                                                'or', 'not', 'bin', 'mask', 'col', 'cols', 'rows', 'vals', 'index', 'record',
                                                'columns', 'upd'):
        return FALSE        # a value that certainly is an object (a frame, a Series, a container, ...)
    if op == 'is' and b == NONE and tag(a) == 'sub' and tag(a[1]) == 'index':
        return FALSE        # an index label
    if op == 'is' and b == NONE and tag(a) == 'phi' and len(a[1]) <= 4 and any(v == NONE for _, v in a[1]):
        return mk_or([mk_and([g, mk_cmp('is', v, NONE)]) for g, v in a[1]])
    if op == 'in' and is_const(a) and tag(b) in ('list', 'tuple', 'set') \
            and all(is_const(x) for x in b[1]):
        return C(a[1] in [x[1] for x in b[1]])
    if op == 'in' and is_const(a) and tag(b) == 'dict' and all(is_const(k) for k, _ in b[1]):
        try:
            return C(a[1] in {k[1]: None for k, _ in b[1]})
        except TypeError:
            pass
    if op == 'in' and is_const(a) and tag(b) == 'mcall' and b[2] == 'keys' and tag(b[1]) == 'dict' \
            and all(is_const(k) for k, _ in b[1][1]):
        return C(a[1] in [k[1] for k, _ in b[1][1]])
    if op in ('eq', 'ne') and key(a) > key(b):
        a, b = b, a
    if op == 'ne':
        return ('cmp', 'ne', a, b)
    return ('cmp', op, a, b)


# ------------------------------------------------------------------ arithmetic
def mk_bin(op: str, a, b):
    if op in ('*', '&') and (boolish(a) or boolish(b)):
        return mk_and([a, b])
    if op in ('|',) and (boolish(a) or boolish(b)):
        return mk_or([a, b])
    if op == '+' and boolish(a) and boolish(b):
        return mk_or([a, b])
    if is_const(a) and is_const(b):
        try:
            x, y = a[1], b[1]
            if op == '+':
                return C(x + y)
            if op == '-':
                return C(x - y)
            if op == '*':
                return C(x * y)
            if op == '/':
                return C(x / y)
            if op == '//':
                return C(x // y)
            if op == '%':
                return C(x % y)
            if op == '**':
                return C(x ** y)
        except Exception:  # pylint: disable=broad-except
            pass
    if op in ('+', '*') and tag(a) in ('list',) and tag(b) in ('list',) and op == '+':
        return ('list', a[1] + b[1])
    # index arithmetic: (i + 1) - 1 is i (exact for integers: only done on loop positions and counts)
    if op in ('+', '-') and is_const(b) and isinstance(b[1], int) and not isinstance(b[1], bool) and \
            tag(a) == 'bin' and a[1] in ('+', '-') and is_const(a[3]) and isinstance(a[3][1], int) and \
            not isinstance(a[3][1], bool) and _int_valued(a[2]):
        k = (a[3][1] if a[1] == '+' else -a[3][1]) + (b[1] if op == '+' else -b[1])
        if k == 0:
            return a[2]
        return ('bin', '+', a[2], C(k)) if k > 0 else ('bin', '-', a[2], C(-k))
    return ('bin', op, a, b)


def _int_valued(t) -> bool:
    tg = tag(t)
    if tg == 'lv':
        return t[2] == 'idx'
    if tg == 'cv':
        return isinstance(t[2], str) and t[2].endswith('idx')
    if tg == 'call' and t[1] == ('g', 'builtins.len'):
        return True
    if tg == 'bin' and t[1] in ('+', '-', '*', '//', '%'):
        return _int_valued(t[2]) and (_int_valued(t[3]) or (is_const(t[3]) and isinstance(t[3][1], int)))
    return False


def mk_un(op: str, a):
    if op in ('~', 'not'):
        if boolish(a) or op == 'not':
            return mk_not(a)
    if op == '-' and is_const(a) and isinstance(a[1], (int, float)):
        return C(-a[1])
    if op == '+' and is_const(a):
        return a
    return ('un', op, a)


# ------------------------------------------------------------------ attribute / subscript
def mk_attr(base, name: str):
    tg = tag(base)
    if name in ACCESSORS:
        return ('acc', name, base)
    if name == 'values':
        return ('vals', base)
    if name == 'index':
        return ('index', base)
    if name == 'columns':
        return ('columns', base)
    if name == 'size' and (tg in ('index', 'col', 'vals', 'mask', 'rows') or (
            tg == 'call' and base[1] in (('g', 'numpy.unique'), ('g', 'numpy.array'), ('g', 'numpy.asarray')))):
        return ('call', ('g', 'builtins.len'), (base,), ())      # number of elements of a 1-D object
    if name in DATA_COLS and tg not in ('g', 'c', 'new'):
        return ('col', base, name)
    return ('attr', base, name)


def _const_list_of_str(t):
    return tag(t) in ('list', 'tuple') and t[1] and \
        all(is_const(x) and isinstance(x[1], str) for x in t[1])


def _mk_col(base, name):
    # canonical order: select rows first, then the column
    return ('col', base, name)


def _under_cell_updates(t):
    """The frame under a chain of cell / column stores (which leave its index as it was)."""
    while tag(t) == 'upd' and tag(t[2]) in ('cell', 'col', 'cols') :
        t = t[1]
    return t


def _rowsel(base, sel, kind):
    """kind: 'lab' (label based) or 'pos' (positional)."""
    if sel == SLICE_ALL:
        return base
    if boolish(sel):
        return mk_mask(base, sel)
    if kind == 'lab' and tag(sel) == 'sub' and tag(sel[1]) == 'index' and _under_cell_updates(sel[1][1]) == \
            _under_cell_updates(base) and not boolish(sel[2]) and tag(sel[2]) != 'slice':
        return ('rows', base, 'pos', sel[2])          # x.at[x.index[i], c] is x.iat[i, c] (cell stores keep the index)
    return ('rows', base, kind, sel)


def mk_mask(base, cond):
    tg = tag(base)
    while (tag(cond) == 'vals' and boolish(cond[1])) or (tag(cond) == 'mcall' and cond[2] == 'to_numpy' and not cond[3]
                                                          and boolish(cond[1])):
        cond = cond[1]          # a mask handed over as a plain array selects the same rows
    if tg == 'col':          # x[c][m] -> x[m][c]
        return ('col', mk_mask(base[1], cond), base[2])
    if tg == 'cols':
        return ('cols', mk_mask(base[1], cond), base[2])
    if tg == 'mask':         # x[a][b] -> x[a & b]
        return ('mask', base[1], mk_and([base[2], cond]))
    if tg == 'index':        # x.index[m] -> x[m].index
        return ('index', mk_mask(base[1], cond))
    return ('mask', base, cond)


def mk_sub(base, idx):
    tg = tag(base)
    if tg == 'attr' and base[2] == 'shape' and idx == C(0):
        return ('call', ('g', 'builtins.len'), (base[1],), ())       # x.shape[0] is len(x)
    if tg == 'acc':
        kind, obj = base[1], base[2]
        lab = 'lab' if kind in ('loc', 'at') else 'pos'
        if tag(idx) == 'tuple' and len(idx[1]) == 2:
            r, c = idx[1]
            colname = None
            if is_const(c) and isinstance(c[1], str):
                colname = c[1]
            elif tag(c) in ('list', 'tuple') and len(c[1]) == 1 and is_const(c[1][0]) \
                    and isinstance(c[1][0][1], str):
                colname = c[1][0][1]          # x.loc[m, ['c']] behaves as x.loc[m, 'c'] for stores
            elif tag(c) == 'mcall' and c[2] == 'get_loc' and tag(c[1]) == 'columns' and c[3] \
                    and is_const(c[3][0]):
                colname = c[3][0][1]          # x.iloc[i, x.columns.get_loc('c')]
            rows = _rowsel(obj, r, lab)
            if colname is not None:
                if tag(rows) == 'rows' and not _is_multi(rows[3]):
                    return ('cell', obj, (rows[2], rows[3]), colname)
                return _mk_col(rows, colname)
            if _const_list_of_str(c):
                return ('cols', rows, tuple(x[1] for x in c[1]))
            if c == SLICE_ALL:
                return rows
            if lab == 'pos':
                return ('poscol', rows, c)      # column addressed by position
            return ('sub', rows, c)
        r = _rowsel(obj, idx, lab)
        return r
    if tg == 'attr' and base[2] == '_prms' and is_const(idx):
        return ('prm', (idx[1],))
    if tg == 'prm' and is_const(idx):
        return ('prm', base[1] + (idx[1],))
    if tg == 'record' and is_const(idx) and isinstance(idx[1], int) and -len(base[2]) <= idx[1] < len(base[2]):
        return base[2][idx[1]][1]
    if tg == 'dict' and is_const(idx):
        for k, v in base[1]:
            if k == idx:
                return v
    if tg in ('dict', 'tuple', 'list') and ((tag(idx) == 'call' and idx[1] == ('g', 'builtins.bool') and len(idx[2]) == 1
                                            and not idx[3]) or tag(idx) in ('cmp', 'and', 'or', 'not')):
        # TABLE[bool(x)] / TABLE[a < b]: the entry for True when the condition holds, else the entry for False
        cond = idx[2][0] if tag(idx) == 'call' else idx
        def entry(flag):
            if tg == 'dict':
                for k, v in base[1]:
                    if is_const(k) and k[1] == flag and isinstance(k[1], (bool, int)):
                        return v
                return None
            return base[1][int(flag)] if len(base[1]) == 2 else None
        yes, no = entry(True), entry(False)
        if yes is not None and no is not None:
            return mk_phi([(cond, yes), (mk_not(cond), no)])
    if is_const(idx) and isinstance(idx[1], str):
        if tg == 'rows' and not _is_multi(base[3]):
            return ('cell', base[1], (base[2], base[3]), idx[1])
        return _mk_col(base, idx[1])
    if _const_list_of_str(idx):
        return ('cols', base, tuple(x[1] for x in idx[1]))
    if boolish(idx):
        return mk_mask(base, idx)
    if is_const(base) and isinstance(base[1], (str, tuple)):
        if is_const(idx) and isinstance(idx[1], int):
            try:
                return C(base[1][idx[1]])
            except Exception:  # pylint: disable=broad-except
                pass
        if tag(idx) == 'slice' and all(is_const(x) for x in idx[1:]):
            try:
                return C(base[1][slice(idx[1][1], idx[2][1], idx[3][1])])
            except Exception:  # pylint: disable=broad-except
                pass
    if tg in ('list', 'tuple') and is_const(idx) and isinstance(idx[1], int):
        try:
            return base[1][idx[1]]
        except IndexError:
            pass
    return ('sub', base, idx)


def _is_multi(sel) -> bool:
    """Is this row selector (possibly) a collection of labels rather than a single one?"""
    tg = tag(sel)
    if tg in ('index', 'list', 'tuple', 'slice', 'vals', 'lc'):
        return True
    if tg == 'lv':
        return False
    if tg == 'c':
        return False
    if tg == 'bin':
        return _is_multi(sel[2]) or _is_multi(sel[3])
    if tg in ('p',):
        return sel[1] in ('grp',)
    return False


# ------------------------------------------------------------------ traversal helpers
def children(t):
    if not isinstance(t, tuple):
        return
    for x in t[1:] if isinstance(t[0], str) else t:
        if isinstance(x, tuple):
            if x and isinstance(x[0], str):
                yield x
            else:
                for y in x:
                    if isinstance(y, tuple):
                        if y and isinstance(y[0], str):
                            yield y
                        else:
                            for z in y:
                                if isinstance(z, tuple) and z and isinstance(z[0], str):
                                    yield z


def walk(t, _seen=None):
    """All sub-terms, pre-order (shared sub-terms visited once)."""
    stack = [t]
    seen = set()
    while stack:
        cur = stack.pop()
        if not isinstance(cur, tuple):
            continue
        i = id(cur)
        if i in seen:
            continue
        seen.add(i)
        if cur and isinstance(cur[0], str):
            yield cur
            stack.extend(x for x in cur[1:] if isinstance(x, tuple))
        else:
            stack.extend(x for x in cur if isinstance(x, tuple))


def contains(t, pred) -> bool:
    return any(pred(x) for x in walk(t))


def find(t, pred) -> list:
    return [x for x in walk(t) if pred(x)]


def subst(t, mapping: dict, _memo=None):
    """Replace sub-terms (exact match) by others, rebuilding through the smart constructors where
    that matters (constants flowing into folds)."""
    if _memo is None:
        _memo = {}
    if not isinstance(t, tuple):
        return t
    if t in mapping:
        return mapping[t]
    i = id(t)
    if i in _memo:
        return _memo[i][1]
    if t and isinstance(t[0], str):
        new = tuple([t[0]] + [subst(x, mapping, _memo) if isinstance(x, tuple) else x
                              for x in t[1:]])
        if new != t:
            new = rebuild(new)
        else:
            new = t
    else:
        new = tuple(subst(x, mapping, _memo) if isinstance(x, tuple) else x for x in t)
    _memo[i] = (t, new)
    return new


def rebuild(t):
    """Re-run the smart constructor of the outermost node (after substitution)."""
    tg = tag(t)
    if tg == 'bin':
        return mk_bin(t[1], t[2], t[3])
    if tg == 'cmp':
        return mk_cmp({'lt': '<', 'le': '<=', 'eq': '==', 'ne': '!=', 'is': 'is', 'in': 'in'}[t[1]],
                      t[2], t[3])
    if tg == 'and':
        return mk_and(list(t[1]))
    if tg == 'or':
        return mk_or(list(t[1]))
    if tg == 'not':
        return mk_not(t[1])
    if tg == 'sub':
        return mk_sub(t[1], t[2])
    if tg == 'fstr':
        return mk_fstr(list(t[1]))
    if tg == 'ifexp':
        if is_const(t[1]):
            return t[2] if t[1][1] else t[3]
    if tg == 'phi':
        return mk_phi(list(t[1]))
    return t


def mk_fstr(parts):
    out = []
    for p in parts:
        if is_const(p) and out and is_const(out[-1]):
            out[-1] = C(str(out[-1][1]) + str(p[1]))
        elif is_const(p):
            out.append(C(str(p[1])))
        else:
            out.append(p)
    if len(out) == 1 and is_const(out[0]):
        return out[0]
    if not out:
        return C('')
    return ('fstr', tuple(out))


def mk_phi(alts):
    """alts: list of (guard, term). Drops impossible guards, merges equal terms."""
    merged: list = []
    for g, t in alts:
        if g == FALSE:
            continue
        for i, (g2, t2) in enumerate(merged):
            if t2 == t:
                merged[i] = (mk_or([g2, g]), t)
                break
        else:
            merged.append((g, t))
    if not merged:
        return ('unk', 'no-value')
    if len(merged) == 1:
        return merged[0][1]
    return ('phi', tuple(merged))


def peel(t):
    """Strip representation-only wrappers (values / list() / np.array / flatten / reshape)."""
    while True:
        tg = tag(t)
        if tg == 'vals':
            t = t[1]
        elif tg == 'call' and tag(t[1]) == 'g' and t[1][1] in (
                'builtins.list', 'builtins.tuple', 'numpy.array', 'numpy.asarray') and len(t[2]) == 1:
            t = t[2][0]
        elif tg == 'mcall' and t[2] in ('flatten', 'ravel', 'copy', 'squeeze') and not t[3]:
            t = t[1]
        elif tg == 'mcall' and t[2] == 'reshape':
            t = t[1]
        else:
            return t


def root(t):
    """The object a derived reference is rooted at (follows attribute / subscript chains that
    reach *into* an object, not operations that build a new object)."""
    while True:
        tg = tag(t)
        if tg == 'attr' and tag(t[1]) == 'p' and t[1][1] == 'self':
            return t    # an attribute of the instance is an object of its own
        if tg in ('attr', 'col', 'cols', 'sub', 'acc', 'cell', 'rows', 'vals', 'index', 'columns', 'poscol'):
            t = t[2] if tg == 'acc' else t[1]
        elif tg in ('mask', 'upd'):
            t = t[1]
        else:
            return t


def show(t, depth: int = 0, maxlen: int = 400) -> str:
    s = _show(t)
    return s if len(s) <= maxlen else s[:maxlen - 3] + '...'


def _show(t) -> str:
    tg = tag(t)
    if tg is None:
        return repr(t)
    if tg == 'c':
        return repr(t[1])
    if tg == 'g':
        return t[1].replace('ampycloud.', '~')
    if tg == 'p':
        return t[1]
    if tg == 'attr':
        return f'{_show(t[1])}.{t[2]}'
    if tg == 'prm':
        return 'PRM' + ''.join(f'[{k!r}]' for k in t[1])
    if tg == 'col':
        return f'{_show(t[1])}[{t[2]!r}]'
    if tg == 'cols':
        return f'{_show(t[1])}[{list(t[2])!r}]'
    if tg == 'mask':
        return f'{_show(t[1])}[{_show(t[2])}]'
    if tg == 'rows':
        return f'{_show(t[1])}.{t[2]}rows[{_show(t[3])}]'
    if tg == 'cell':
        return f'{_show(t[1])}.{t[2][0]}cell[{_show(t[2][1])},{t[3]!r}]'
    if tg == 'sub':
        return f'{_show(t[1])}[{_show(t[2])}]'
    if tg == 'vals':
        return f'{_show(t[1])}.values'
    if tg in ('index', 'columns'):
        return f'{_show(t[1])}.{tg}'
    if tg == 'acc':
        return f'{_show(t[2])}.{t[1]}'
    if tg == 'call':
        a = [_show(x) for x in t[2]] + [f'{k}={_show(v)}' if k else f'**{_show(v)}' for k, v in t[3]]
        return f'{_show(t[1])}({", ".join(a)})'
    if tg == 'mcall':
        a = [_show(x) for x in t[3]] + [f'{k}={_show(v)}' if k else f'**{_show(v)}' for k, v in t[4]]
        return f'{_show(t[1])}.{t[2]}({", ".join(a)})'
    if tg == 'cmp':
        sym = {'lt': '<', 'le': '<=', 'eq': '==', 'ne': '!=', 'is': 'is', 'in': 'in'}[t[1]]
        return f'({_show(t[2])} {sym} {_show(t[3])})'
    if tg == 'and':
        return '(' + ' & '.join(_show(x) for x in t[1]) + ')'
    if tg == 'or':
        return '(' + ' | '.join(_show(x) for x in t[1]) + ')'
    if tg == 'not':
        return f'~{_show(t[1])}'
    if tg == 'bin':
        return f'({_show(t[2])} {t[1]} {_show(t[3])})'
    if tg == 'un':
        return f'{t[1]}{_show(t[2])}'
    if tg == 'ifexp':
        return f'({_show(t[2])} if {_show(t[1])} else {_show(t[3])})'
    if tg == 'phi':
        return 'phi{' + '; '.join(f'{_show(g)}: {_show(v)}' for g, v in t[1]) + '}'
    if tg == 'lv':
        return f'<{t[2]}@L{t[1]}>'
    if tg == 'lphi':
        return f'<{t[2]}@entry L{t[1]}>'
    if tg == 'loopres':
        return f'<{t[2]} after L{t[1]}>'
    if tg == 'lc':
        return f'[{_show(t[2])} for {"; ".join(_show(g[0]) for g in t[3])}]'
    if tg == 'cv':
        return f'cv{t[1]}_{t[2]}'
    if tg == 'lamv':
        return f'arg{t[1]}'
    if tg == 'lam':
        return f'(lambda/{t[1]}: {_show(t[2])})'
    if tg == 'fstr':
        return 'f"' + ''.join(p[1] if is_const(p) else '{' + _show(p) + '}' for p in t[1]) + '"'
    if tg in ('tuple', 'list', 'set'):
        o, c = {'tuple': '()', 'list': '[]', 'set': '{}'}[tg]
        return o + ', '.join(_show(x) for x in t[1]) + c
    if tg == 'dict':
        return '{' + ', '.join(f'{_show(k)}: {_show(v)}' for k, v in t[1]) + '}'
    if tg == 'slice':
        return ':'.join('' if x == NONE else _show(x) for x in t[1:])
    if tg == 'new':
        return f'new {t[1].split(".")[-1]}'
    if tg == 'star':
        return '*' + _show(t[1])
    if tg == 'unk':
        return f'?{t[1]}'
    if tg == 'upd':
        return f'{_show(t[1])}{{{_show(t[2])} := {_show(t[3])}}}'
    if tg == 'it':
        return '@'
    if tg == 'bound':
        return f'{_show(t[1])}.{t[2].split(".")[-1]}'
    if tg == 'kwrest':
        return f'**{_show(t[1])}'
    if tg == 'kwget':
        return f'{_show(t[1])}.get({t[2]!r}, {_show(t[3])})'
    if tg == 'withval':
        return f'<as {_show(t[1])}>'
    if tg == 'free':
        return f'free:{t[1]}'
    return repr(t)


# ------------------------------------------------------------------ linear normal form (E5)
def linear(t):
    """Return ({atom: coef}, const) for +/-/scalar* expressions, atoms being non-arithmetic terms."""
    tg = tag(t)
    if tg == 'c' and isinstance(t[1], (int, float)) and not isinstance(t[1], bool):
        return {}, t[1]
    if tg == 'bin' and t[1] in ('+', '-'):
        la, ca = linear(t[2])
        lb, cb = linear(t[3])
        sgn = 1 if t[1] == '+' else -1
        out = dict(la)
        for k, v in lb.items():
            out[k] = out.get(k, 0) + sgn * v
        return {k: v for k, v in out.items() if v != 0}, ca + sgn * cb
    if tg == 'un' and t[1] == '-':
        la, ca = linear(t[2])
        return {k: -v for k, v in la.items()}, -ca
    if tg == 'bin' and t[1] == '*':
        for a, b in ((t[2], t[3]), (t[3], t[2])):
            if is_const(a) and isinstance(a[1], (int, float)):
                lb, cb = linear(b)
                return {k: v * a[1] for k, v in lb.items()}, cb * a[1]
    return {t: 1}, 0


def lin_cmp(t):
    """Canonical form of an order comparison: ('lin', op, ((atom, coef), ...), const) meaning
    sum(coef*atom) + const  op  0 with op in lt/le/eq/ne, leading coefficient sign normalised."""
    if tag(t) != 'cmp' or t[1] not in ('lt', 'le', 'eq', 'ne'):
        return t
    la, ca = linear(t[2])
    lb, cb = linear(t[3])
    out = dict(la)
    for k, v in lb.items():
        out[k] = out.get(k, 0) - v
    out = {k: v for k, v in out.items() if v != 0}
    const = ca - cb
    items = tuple(sorted(out.items(), key=lambda kv: key(kv[0])))
    op = t[1]
    if op in ('eq', 'ne') and items and items[0][1] < 0:
        items = tuple((k, -v) for k, v in items)
        const = -const
    return ('lin', op, items, const)


def count_cond(t):
    """M when t counts the rows a boolean selection M keeps, in any spelling: len(x[M]), len(x[M].index), x[M].shape[0],
    M.sum(), np.sum(M), np.count_nonzero(M), len(M[M]), int(...) of these; else None."""
    t0 = t
    for _ in range(4):
        if tag(t0) == 'call' and t0[1] in (('g', 'builtins.int'), ('g', 'numpy.int64')) and len(t0[2]) == 1 and not t0[3]:
            t0 = t0[2][0]
        else:
            break
    if tag(t0) == 'call' and t0[1] == ('g', 'builtins.len') and len(t0[2]) == 1:
        x = t0[2][0]
        while tag(x) in ('index', 'vals', 'col', 'cols') or (tag(x) == 'mcall' and x[2] in ('to_numpy', 'to_list', 'copy')):
            x = x[1]
        if tag(x) == 'mask':
            return x[2]
        return None
    m = None
    if tag(t0) == 'mcall' and t0[2] == 'sum' and not t0[3] and not t0[4]:
        m = t0[1]
    if tag(t0) == 'call' and t0[1] in (('g', 'numpy.sum'), ('g', 'numpy.count_nonzero'), ('g', 'builtins.sum')) and \
            len(t0[2]) == 1 and not t0[3]:
        m = t0[2][0]
    if m is not None:
        while tag(m) == 'vals' or (tag(m) == 'mcall' and m[2] in ('to_numpy', 'astype', 'copy') and boolish(m[1])):
            m = m[1]
        if boolish(m) or tag(m) in ('lphi',):
            return m
    return None
