"""History of a sli/gro/lay table as built by CeiloChunk.metarize(which): the functional update chain
produced by the abstract executor, flattened to a list of operations (newest first)."""
from __future__ import annotations

from dataclasses import dataclass

from sa.anchors import is_helper
from sa import terms as T
from sa.core import AnalysisError
from sa.symexec import Executor
from sa.terms import tag, C

CHUNK = 'ampycloud.data.CeiloChunk'
SELF = ('p', 'self')
DATA = ('attr', SELF, '_data')
WHICH = ('slices', 'groups', 'layers')


@dataclass
class Op:
    kind: str            # 'set' (cell / column store), 'call' (functional method), 'base'
    state: tuple         # table term *before* this op
    after: tuple         # table term after this op
    col: str = None
    row: tuple = None    # (kind, term) for a cell, None for a whole column
    value: tuple = None
    guard: tuple = T.TRUE
    loops: tuple = ()
    name: str = None     # method name for 'call'
    args: tuple = ()
    kws: tuple = ()
    target: tuple = None


def _phi_alternatives(t, guard=T.TRUE):
    if tag(t) == 'phi':
        out = []
        for g, v in t[1]:
            out.extend(_phi_alternatives(v, T.mk_and([guard, g])))
        return out
    return [(guard, t)]


def flatten(t, guard=T.TRUE, loops=(), stop_at_lphi=False) -> list:
    out = []
    cur = t
    while True:
        tg = tag(cur)
        if tg == 'upd':
            tgt, val = cur[2], cur[3]
            col, row = None, None
            if tag(tgt) == 'cell' and tgt[1] == ('it',):
                col, row = tgt[3], tgt[2]
                if row[0] == 'lab' and tag(row[1]) == 'lv' and row[1][2] == 'idx':
                    # the tables are created row by row under the labels 0, 1, 2, ... of an enumeration
                    # (_setup_sligrolay_pdf): addressed by that enumeration index, label and position coincide
                    row = ('pos', row[1])
            elif tag(tgt) == 'col' and tgt[1] == ('it',):
                col = tgt[2]
            elif tag(tgt) == 'col' and tag(tgt[1]) == 'mask' and tgt[1][1] == ('it',):
                col, row = tgt[2], ('mask', tgt[1][2])
            elif tag(tgt) == 'col' and tag(tgt[1]) == 'rows' and tgt[1][1] == ('it',):
                col, row = tgt[2], ('rows', tgt[1][2], tgt[1][3])
            elif tag(tgt) == 'cols' and tag(tgt[1]) in ('mask', 'rows') and tgt[1][1] == ('it',):
                col = tgt[2][0] if len(tgt[2]) == 1 else ('multi', tgt[2])
                row = ('mask', tgt[1][2]) if tag(tgt[1]) == 'mask' else ('rows', tgt[1][2], tgt[1][3])
            elif tag(tgt) == 'sub' and tgt[1] == ('it',):
                col = ('dyn', tgt[2])
            if tag(val) == 'phi':
                # f(x) on one path and f(y) on the other is f(x or y): one store of one routine
                val = T.anti_unify(_phi_alternatives(val))
            if tag(val) == 'phi':
                # a value chosen by a helper with early returns == one guarded store per alternative
                for g, alt in _phi_alternatives(val):
                    out.append(Op('set', cur[1], cur, col=col, row=row, value=alt, guard=T.mk_and([guard, g]),
                                  loops=loops, target=tgt))
            else:
                out.append(Op('set', cur[1], cur, col=col, row=row, value=val, guard=guard, loops=loops, target=tgt))
            cur = cur[1]
        elif tg == 'mcall':
            out.append(Op('call', cur[1], cur, name=cur[2], args=cur[3], kws=cur[4], guard=guard, loops=loops))
            cur = cur[1]
        elif tg == 'mask':
            # x[cond]: a row filter producing the next state of the frame
            out.append(Op('call', cur[1], cur, name='filter', args=(cur[2],), guard=guard, loops=loops))
            cur = cur[1]
        elif tg == 'loopres':
            out.extend(flatten(cur[4], guard, loops + (cur[1],), stop_at_lphi=True))
            cur = cur[3]
        elif tg == 'phi':
            merged = []
            for g, alt in cur[1]:
                for o in flatten(alt, T.mk_and([guard, g]), loops, stop_at_lphi=True):
                    for x in merged:
                        if (x.kind, x.col, x.row, x.value, x.loops, x.name, x.args, x.kws) == \
                                (o.kind, o.col, o.row, o.value, o.loops, o.name, o.args, o.kws):
                            x.guard = T.mk_or([x.guard, o.guard])   # same step on several branches
                            break
                    else:
                        merged.append(o)
            out.extend(merged)
            return out      # every alternative ends at the enclosing loop entry
        elif tg == 'lphi':
            return out
        else:
            out.append(Op('base', cur, cur, guard=guard, loops=loops))
            return out


_CACHE = {}


def table_history(ctx, which, rule):
    """(method, executor, summary, store event of the table, ops newest first)."""
    key = (id(ctx.project), which)
    if key in _CACHE:
        return _CACHE[key]
    p = ctx.project
    k = p.klass(CHUNK, rule)
    m = p.find_method(k, 'metarize')
    if m is None:
        raise AnalysisError(rule, 'anchor method vanished: CeiloChunk.metarize')
    ex = Executor(p, inline=lambda q, d: q.startswith('ampycloud.data.') or is_helper(p, q), max_depth=6)
    s = ex.run(m, {'which': C(which)})
    stores = [e for e in s.events if e.kind == 'store' and tag(e.target) == 'attr' and e.target[1] == SELF
              and e.target[2] == '_' + which and e.guard != T.FALSE]
    if len(stores) != 1:
        raise AnalysisError(rule, f"metarize('{which}') assigns self._{which} {len(stores)} times")
    ops = flatten(stores[0].value)
    _CACHE[key] = (m, ex, s, stores[0], ops)
    ctx.saw(m)
    return _CACHE[key]


def sets_of(ops, col):
    return [o for o in ops if o.kind == 'set' and o.col == col]


def is_cast(op) -> bool:
    """col := same column .astype(...) (a dtype cast: values and order unchanged)."""
    v = op.value
    if op.kind != 'set' or op.row is not None:
        return False
    if tag(v) == 'mcall' and v[2] == 'astype':
        src = v[1]
        if tag(src) == 'col' and (src[2] == op.col or (isinstance(op.col, tuple) and tag(op.target) == 'sub'
                                                        and tag(src) == 'sub')):
            return True
        if tag(src) == 'sub' and isinstance(op.col, tuple) and src[2] == op.col[1]:
            return True
    return False


def id_col(which) -> str:
    return which[:-1] + '_id'


def member_mask(which, elem):
    """in_sligrolay: data[<which>_id] == cid."""
    return T.mk_cmp('==', ('col', DATA, id_col(which)), elem)
