"""C12: parameter routes."""
from __future__ import annotations

import ast

from sa import terms as T
from sa import yamlmini
from sa.core import AnalysisError
from sa.anchors import is_helper
from sa.effects import PRMS_GLOBAL
from sa.rules.common import effects, call_head, guard_literals, processing_path
from sa.terms import tag

G = ('g', PRMS_GLOBAL)
DEEPCOPY_OF_G = ('call', ('g', 'copy.deepcopy'), (G,), ())
WRITERS = {'ampycloud.core.set_prms', 'ampycloud.core.reset_prms'}
PLOT_KEY = 'MPL_STYLE'


def global_read_discipline(ctx, rule='C12-R1'):
    """The live global dictionary is read (a) in _setup_prms, only as the argument of a deep copy,
    (b) by its two documented writers, (c) by plot code for the key MPL_STYLE only."""
    fx = effects(ctx)
    p = ctx.project
    n_snapshot = 0
    n_reads = 0
    for q, e, where in fx.global_reads(PRMS_GLOBAL):
        n_reads += 1
        f = p.funcs[q]
        ctx.saw(f)
        if e.kind == 'assign' and e.value == G:
            continue    # a local alias: its uses are judged where they happen (terms are substituted)
        if e.kind == 'return' and e.ctx and e.value == G:
            continue    # an expanded accessor handing the dictionary to its caller: judged where the caller uses it
        if e.kind == 'call' and tag(e.call) == 'call' and tag(e.call[1]) == 'g' and e.call[1][1] in p.funcs and \
                is_helper(p, e.call[1][1]) and G in e.call[2]:
            continue    # the dictionary handed to a helper: judged by what the (expanded) helper does with it
        if q in WRITERS:
            ctx.ok(rule, f'{q}: documented writer reads the global', e.loc())
            continue
        residual = []
        for nm, v in fx.terms_of(e):
            if nm == 'guard':
                continue
            v2 = T.subst(v, {DEEPCOPY_OF_G: ('snapshot',),
                             ('col', G, PLOT_KEY): ('mplstyle',)})
            if T.contains(v2, lambda x: x == G):
                residual.append(T.show(v, maxlen=200))
            if T.contains(v2, lambda x: x == ('snapshot',)):
                n_snapshot += 1 if nm == 'call' and v == DEEPCOPY_OF_G else 0
            if T.contains(v2, lambda x: x == ('mplstyle',)) and not f.module.name.startswith(
                    'ampycloud.plots'):
                residual.append('MPL_STYLE read outside plots: ' + T.show(v, maxlen=120))
        ctx.check(not residual, rule, q, e.node, e.loc(),
                  'reads the live global parameter dictionary instead of the chunk snapshot '
                  '(allowed: the deep copy in _setup_prms; MPL_STYLE in plot code): '
                  + '; '.join(residual[:2]), facts={'terms': residual},
                  instance=f'{q}: {e.text()[:70]}')
    ctx.floor(rule, 'reads of dynamic.AMPYCLOUD_PRMS', n_reads, 6)
    setup = p.func('ampycloud.data.AbstractChunk._setup_prms', rule)
    ctx.check(n_snapshot >= 1, rule, setup.qname, setup.node.name, setup.loc(),
              'no deep copy of the global parameter dictionary found: the snapshot is not taken',
              instance='snapshot = deepcopy(global)')
    # opaque access to the module object (vars(dynamic), getattr(dynamic, name), dynamic.__dict__)
    dyn = ('g', 'ampycloud.dynamic')
    for q, e in fx.all_events():
        for nm, v in fx.terms_of(e):
            if nm != 'guard' and T.contains(v, lambda x: x == dyn or x == ('g', 'ampycloud.dynamic.__dict__')):
                ctx.violation(rule, q, e.node, e.loc(),
                              'the parameter module is used as a value (opaque access to its globals)')
                break


def no_from_import(ctx, rule='C12-R4'):
    n = 0
    for mod in ctx.project.modules.values():
        for node in ast.walk(mod.tree):
            if isinstance(node, (ast.ImportFrom, ast.Import)):
                n += 1
            if isinstance(node, ast.ImportFrom):
                for al in node.names:
                    nm = al.asname or al.name
                    target = mod.imports.get(nm)
                    f = ctx.project._enclosing_func(node)
                    if f is not None:
                        for fn in ctx.project.funcs.values():
                            if fn.node is f:
                                target = fn.local_imports.get(nm, target)
                    if target and ctx.project._canon(target) == PRMS_GLOBAL and al.name != '*':
                        ctx.violation(rule, mod.name, node, f'{mod.relpath}:{node.lineno}',
                                      'binds the parameter dictionary by name at import time: stale '
                                      'once reset_prms()/set_prms() rebinds dynamic.AMPYCLOUD_PRMS')
    ctx.ok(rule, f'{n} import statements: none binds AMPYCLOUD_PRMS by name', '')


def merge_routine(ctx, rule='C12-R2'):
    fx = effects(ctx)
    p = ctx.project
    adj = 'ampycloud.utils.utils.adjust_nested_dict'
    f = p.func(adj, rule)
    ctx.saw(f)
    # both routes call it
    for caller, arg0_ok in (('ampycloud.data.AbstractChunk._setup_prms', None),
                            ('ampycloud.core.set_prms', None)):
        cf = p.func(caller, rule)
        sites = [e for e in fx.deep_events(caller) if e.kind == 'call' and call_head(e) == adj]
        ctx.check(len(sites) >= 1, rule, caller, cf.node.name, cf.loc(),
                  f'{caller} does not merge through adjust_nested_dict',
                  instance=f'{caller} -> adjust_nested_dict')
        af = p.func(adj, rule)
        for e in sites:
            bound = fx._bind(af, e.call[2], e.call[3])
            a0 = bound.get(af.params[0])
            if caller.endswith('set_prms'):
                ctx.check(a0 == G, rule, caller, e.node, e.loc(),
                          f'set_prms merges into {T.show(a0)} instead of the global dictionary',
                          instance='set_prms: target is the global')
                # and the result is bound back to the global
                # what is merged is the content of the file the caller named
                a1 = bound.get(af.params[1])
                loaded = a1 is not None and T.contains(a1, lambda t: (tag(t) == 'mcall' and t[2] in ('load', 'safe_load', 'load_all')
                                                                      or (tag(t) == 'call' and tag(t[1]) == 'g' and
                                                                          t[1][1].split('.')[-1] in ('load', 'safe_load')))
                                                       and T.contains(t, lambda y: y == ('p', cf.params[0])))
                ctx.check(loaded, rule, caller, e.node, e.loc(),
                          f'set_prms merges {T.show(a1, maxlen=100) if a1 is not None else None}: not the parameters loaded from '
                          'the file it was given', instance='set_prms: source is the YAML file named by the caller')
                rebinds = [x for x in fx.deep_events(caller) if x.kind == 'store' and x.target == G]
                ctx.check(any(T.contains(x.value, lambda t: t == e.call) for x in rebinds) or
                          not rebinds, rule, caller, e.node, e.loc(),
                          'the merged dictionary is not what gets bound to dynamic.AMPYCLOUD_PRMS',
                          instance='set_prms: result bound to the global')
            else:
                ctx.check(a0 is not None and not fx.origin(a0, True, cf), rule, caller, e.node, e.loc(),
                          f'_setup_prms merges into {T.show(a0, maxlen=80)}, which is not a private '
                          'deep copy', instance='_setup_prms: target is a private deep copy')
                a1 = bound.get(af.params[1])
                ctx.check(a1 == ('p', 'prms'), rule, caller, e.node, e.loc(),
                          f'_setup_prms merges {T.show(a1)} instead of the per-call dictionary',
                          instance='_setup_prms: source is the per-call dictionary')
    # unknown keys: warn, never store (local functions and helpers expanded)
    evs = fx.deep_events(adj)
    ref = ('p', f.params[0])
    stores = [e for e in evs if e.kind in ('store', 'aug', 'mutcall', 'del')
              and T.root(e.base) == ref or (e.kind in ('store', 'aug') and tag(T.root(e.base)) == 'lphi'
                                            and T.root(e.base)[2] == f.params[0])]
    # a store of a value chosen by a conditional expression counts as one store per alternative
    from dataclasses import replace as _replace
    split = []
    for e in stores:
        if e.kind == 'store' and tag(e.value) == 'phi':
            split.extend(_replace(e, value=v, guard=T.mk_and([e.guard, g])) for g, v in e.value[1])
        else:
            split.append(e)
    stores = split
    ctx.floor(rule, 'stores into the reference dictionary', len(stores), 2)

    def known_key_literal(lit):
        # key in ref_dict  /  key in ref_dict.keys()
        if tag(lit) == 'cmp' and lit[1] == 'in' and tag(lit[2]) == 'lv':
            c = T.peel(lit[3])
            if tag(c) == 'mcall' and c[2] == 'keys':
                c = c[1]
            r = T.root(c)
            return r == ref or (tag(r) == 'lphi' and r[2] == f.params[0])
        return False
    for e in stores:
        lits = guard_literals(e.guard)
        ctx.check(any(known_key_literal(l) for l in lits), rule, adj, e.node, e.loc(),
                  'a store into the reference dictionary is reachable for a key that is not in it '
                  '(unknown keys must be ignored without adding keys)',
                  facts={'guard': T.show(e.guard, maxlen=300)},
                  instance=f'store {e.text()[:60]} guarded by key-in-ref')
        # the stored key is the loop key
        tgt = e.target
        if tag(tgt) in ('sub', 'col'):
            pass
    # every per-call value of a known key is taken over: the stores together cover "key in ref_dict"
    cover = T.mk_or([T.mk_and([l for l in guard_literals(e.guard) if T.contains(l, lambda x: tag(x) == 'lv')])
                     for e in stores if e.kind == 'store'])
    known = [l for e in stores for l in guard_literals(e.guard) if known_key_literal(l)]
    ctx.check(bool(known) and cover == known[0], rule, adj, f.node.name, f.loc(),
              f'values of known keys are only taken over under {T.show(cover, maxlen=200)}: some legal per-call values '
              '(e.g. None, as in MSA: null) are silently skipped, so the per-call / YAML routes no longer agree with '
              'editing the global dictionary', facts={'coverage': T.show(cover, maxlen=400)},
              instance='adjust_nested_dict: every value of a known key is stored')
    # what happens to a known key does not depend on what the key is called: whether an entry is descended into or taken
    # over whole is decided by the kind of value alone (a carve-out such as "keys ending in _kwargs are replaced, not
    # merged" drops the siblings of a partially overridden sub-dictionary)
    keyvars = {l[2] for e in stores for l in guard_literals(e.guard) if known_key_literal(l)}
    rec_calls = [e for e in evs if e.kind == 'call' and call_head(e) == adj and e.ctx == ()]
    for e in list(stores) + rec_calls:
        for l in guard_literals(e.guard):
            inner = l[1] if tag(l) == 'not' else l
            if known_key_literal(inner):
                continue
            # (the key used to look the value up - new_dict[key] - is a use of the value, not of the name)
            stripped = T.subst(l, {x: ('value',) for x in T.walk(l)
                                   if tag(x) in ('sub', 'col') and len(x) > 2 and x[2] in keyvars})
            if any(T.contains(stripped, lambda x, kv=kv: x == kv) for kv in keyvars):
                ctx.violation(rule, adj, e.node, e.loc(),
                              f'the merge treats an entry differently depending on the name of its key ({T.show(l, maxlen=120)}): '
                              'every known key is either descended into (dictionary values) or taken over (anything else)',
                              instance='adjust_nested_dict: merge semantics independent of the key name')
                break
    warns = [e for e in evs if e.kind == 'call' and call_head(e) == 'warnings.warn']
    good = False
    for e in warns:
        lits = guard_literals(e.guard)
        neg = any(tag(l) == 'not' and known_key_literal(l[1]) for l in lits)
        cat = e.call[2][1] if len(e.call[2]) > 1 else None
        for k, v in e.call[3]:
            if k == 'category':
                cat = v
        if neg and cat == ('g', 'ampycloud.errors.AmpycloudWarning'):
            good = True
    ctx.check(good, rule, adj, f.node.name, f.loc(),
              'no AmpycloudWarning is issued on the unknown-key path', instance='unknown key -> AmpycloudWarning')
    # recursion / leaf assignment use the same key on both sides
    for e in stores:
        if e.kind == 'store':
            idx = e.target[2] if tag(e.target) in ('sub',) else None
            if idx is not None and tag(idx) == 'lv':
                vals = T.find(e.value, lambda x: tag(x) == 'lv')
                ctx.check(True, rule, adj, e.node, e.loc(), '', instance=f'{e.text()[:60]}: keyed by the loop key')


def reset_fresh(ctx, rule='C12-R3'):
    fx = effects(ctx)
    p = ctx.project
    gd = 'ampycloud.dynamic.get_default_prms'
    f = p.func(gd, rule)
    ctx.saw(f)
    s = fx.deep(gd)[1]            # helpers (a shared YAML loader, ...) expanded
    gd_events = fx.deep_events(gd)
    ctx.check(not f.decorators, rule, gd, f.node.name, f.loc(),
              f'get_default_prms is decorated by {f.decorators}: a memoised result is shared state',
              instance='get_default_prms: no memo decorator')
    org = fx.origin(s.ret, True, f)
    ctx.check(not org, rule, gd, f.node.name, f.loc(),
              f'get_default_prms returns an object shared with {[T.show(r) for r, _ in org]}',
              instance='get_default_prms: returns a fresh object')
    loads = [e for e in gd_events if e.kind == 'call' and (call_head(e) or '').endswith('.load')
             or (e.kind == 'call' and (call_head(e) or '').endswith('safe_load'))]

    def names_the_file(x):
        if x == ('c', 'ampycloud_default_prms.yml'):
            return True
        if tag(x) == 'g':           # a module-level constant holding the path
            modq, _, nm = x[1].rpartition('.')
            mod = p.modules.get(modq)
            return mod is not None and any('ampycloud_default_prms.yml' in ast.unparse(n) for n in mod.globals.get(nm, []))
        return False
    names = [e for e in gd_events if e.kind in ('call', 'assign', 'return') and any(
        T.contains(v, names_the_file) for _, v in fx.terms_of(e))]
    ctx.check(bool(loads) and bool(names), rule, gd, f.node.name, f.loc(),
              'get_default_prms does not load the packaged ampycloud_default_prms.yml on each call',
              instance='get_default_prms: loads the packaged YAML at call time')
    ret_is_load = any(T.contains(s.ret, lambda x: x == e.call) for e in loads)
    ctx.check(ret_is_load, rule, gd, f.node.name, f.loc(),
              'the returned object is not the freshly loaded one', instance='get_default_prms: returns the load')
    # reset_prms
    rq = 'ampycloud.core.reset_prms'
    rf = p.func(rq, rule)
    ctx.saw(rf)
    rq_events = fx.deep_events(rq)
    stores = [e for e in rq_events if e.kind in ('store',) and T.root(e.base) == G]
    ctx.floor(rule, 'stores to the global in reset_prms', len(stores), 2)
    # every name of the list is dealt with: the loop over the names is left early only by a refusal - a `return` (or
    # `break`) inside it ("nothing to reset for this one") leaves the names after it as they were
    per_name = [e for e in stores if e.loops]
    if per_name:
        lid = per_name[0].loops[-1]
        early = [e for e in rq_events if e.kind == 'return' and not e.ctx and lid in e.loops]
        node = rf.node
        import ast as _ast
        loop_node = fx.deep_loops(rq)[lid].node if lid in fx.deep_loops(rq) else None
        breaks = [n for n in _ast.walk(loop_node) if isinstance(n, _ast.Break)] if loop_node is not None else []
        ctx.check(not early and not breaks, rule, rq, (early[0].node if early else (breaks[0] if breaks else node.name)),
                  early[0].loc() if early else rf.loc(),
                  'reset_prms leaves the loop over the given names before the last one without refusing: the names '
                  'after that point are not reset', instance='reset some: every listed name is reset')
    fresh_call = ('call', ('g', gd), (), ())
    for e in stores:
        if e.target == G:
            ctx.check(e.value == fresh_call, rule, rq, e.node, e.loc(),
                      f'reset_prms() rebinds the global to {T.show(e.value, maxlen=100)} instead of a '
                      'fresh read of the packaged defaults', instance='reset all: global := get_default_prms()')
            # "all" means "no names given" (which is None), not "an empty selection": reset_prms([]) restores nothing
            wp = ('p', rf.params[0]) if rf.params else None
            is_none = ('cmp', 'is', wp, T.NONE)
            ctx.check(wp is not None and T.implies(e.guard, is_none) is True, rule, rq, e.node, e.loc(),
                      f'everything is reset under {T.show(e.guard, maxlen=120)}: expected "no selection was given" '
                      f'({rf.params[0] if rf.params else "which"} is None) - a truth test also takes an empty list of names, for which '
                      'nothing is to be restored, and wipes every value the user had set',
                      instance='reset all: only when no selection is given (identity test against None)')
        else:
            # AMPYCLOUD_PRMS[prm] = fresh[prm]
            idx = e.target[2] if tag(e.target) in ('sub', 'col') else None
            v = e.value
            same = tag(v) in ('sub', 'col') and v[1] == fresh_call and v[2] == idx
            ctx.check(same, rule, rq, e.node, e.loc(),
                      f'reset_prms(which) stores {T.show(v, maxlen=100)} under key {T.show(idx)}: '
                      'expected the same key of a fresh read of the packaged defaults',
                      instance='reset named: global[k] := get_default_prms()[k]')
    # unknown names refused
    raises = [e for e in rq_events if e.kind == 'raise']
    ctx.check(len(raises) >= 1, rule, rq, rf.node.name, rf.loc(), 'unknown parameter names are not refused',
              instance='reset named: unknown name raises')


def yaml_keys(ctx, rule='C12-R5'):
    fx = effects(ctx)
    p = ctx.project
    path = p.src / 'prms' / 'ampycloud_default_prms.yml'
    if not path.exists():
        raise AnalysisError(rule, f'packaged parameter file missing: {path}')
    tree = yamlmini.load(path.read_text(encoding='utf-8'))
    seen = {}
    for q, e in fx.all_events():
        for nm, v in fx.terms_of(e):
            if nm == 'guard':
                continue
            for t in T.find(v, lambda x: tag(x) == 'prm'):
                seen.setdefault(t[1], (q, e))
    # keep maximal paths only
    for path_t, (q, e) in sorted(seen.items()):
        cur = tree
        ok = True
        for k in path_t:
            if isinstance(cur, dict) and k in cur:
                cur = cur[k]
            else:
                ok = False
                break
        ctx.check(ok, rule, q, e.node, e.loc(),
                  f'parameter path {list(path_t)} is read from the snapshot but does not exist in the '
                  'packaged defaults (per-call and YAML routes could not set it)',
                  instance='PRM' + ''.join(f'[{k!r}]' for k in path_t))
    ctx.tables['parameter_paths_read'] = [list(k) for k in sorted(seen)]
    ctx.tables['top_level_keys_in_yaml'] = sorted(tree)
    ctx.floor(rule, 'distinct parameter paths read from the snapshot', len(seen), 15)
    # MPL_STYLE, the one key read from the live global
    ctx.check(PLOT_KEY in tree, rule, 'yaml', PLOT_KEY, str(path), 'MPL_STYLE missing from the defaults',
              instance="global['MPL_STYLE'] exists in the defaults")


# ---------------------------------------------------------------------------------------------- C12-R6
def set_prms_refusals(ctx, rule='C12-R6'):
    """The YAML route is open to every file the caller can name: on the path of set_prms() that reaches the merge, every
    test of the path object is a *positive* one (it is a Path, it exists, it is a file), the tests are made on the path
    after a str has been converted, and a type test has the type on the right.  A negated test on that path means that
    set_prms() goes on exactly when the file is missing and refuses the files that exist: the third documented way of
    setting parameters is closed."""
    fx = effects(ctx)
    p = ctx.project
    q = 'ampycloud.core.set_prms'
    f = p.func(q, rule)
    ctx.saw(f)
    adj = 'ampycloud.utils.utils.adjust_nested_dict'
    prm = ('p', f.params[0])
    merges = [e for e in fx.deep_events(q) if e.kind == 'call' and call_head(e) == adj]
    ctx.floor(rule, 'merge call of set_prms', len(merges), 1)
    FILE_TESTS = ('exists', 'is_file')
    OS_TESTS = ('os.path.exists', 'os.path.isfile', 'posixpath.exists', 'posixpath.isfile', 'genericpath.exists',
                'genericpath.isfile')
    n = 0

    def about_path(t):
        return T.contains(t, lambda y: y == prm)

    def converted(x):
        return T.contains(x, lambda y: tag(y) == 'call' and y[1] == ('g', 'pathlib.Path') and y[2] and about_path(y[2][0]))
    PATHISH = {'pathlib.Path', 'pathlib.PurePath', 'os.PathLike'}

    def isinst(l):
        a = l[1] if tag(l) == 'not' else l
        if tag(a) == 'call' and a[1] == ('g', 'builtins.isinstance') and len(a[2]) == 2:
            return a, {c[1] for c in T.walk(a[2][1]) if tag(c) == 'g'}
        return None, set()
    for e in merges:
        # any type test met on the way (also those that only steer the conversion of the path) has the type on the right
        for a in T.walk(e.guard):
            if tag(a) == 'call' and a[1] == ('g', 'builtins.isinstance') and len(a[2]) == 2 and about_path(a[2][1]) \
                    and not about_path(a[2][0]):
                n += 1
                ctx.violation(rule, q, e.node, e.loc(),
                              f'set_prms tests {T.show(a, maxlen=120)}: the path is on the right of isinstance (TypeError for '
                              'every path that is not itself a type)', instance='set_prms: isinstance(path, type)')
        admits_str = 0
        alts = T.dnf(e.guard) or [e.guard]
        for alt in alts:
            lits = guard_literals(alt)
            # an alternative that cannot hold for a str argument is about paths given as Path objects: nothing to convert
            for_str = True
            for l in lits:
                a, classes = isinst(l)
                if a is None or a[2][0] != prm:
                    continue
                if tag(l) == 'not' and 'builtins.str' in classes:
                    for_str = False
                if tag(l) != 'not' and 'builtins.str' not in classes and classes & PATHISH:
                    for_str = False
            admits_str += for_str
            for l in lits:
                neg = tag(l) == 'not'
                a = l[1] if neg else l
                kind, subject = None, None
                if tag(a) == 'mcall' and a[2] in FILE_TESTS and about_path(a[1]):
                    kind, subject = f'.{a[2]}()', a[1]
                elif tag(a) == 'call' and tag(a[1]) == 'g' and a[1][1] in OS_TESTS and a[2] and about_path(a[2][0]):
                    kind = a[1][1]
                elif isinst(l)[0] is not None and (about_path(a[2][0]) or about_path(a[2][1])):
                    n += 1
                    ctx.check(about_path(a[2][0]) and not about_path(a[2][1]), rule, q, e.node, e.loc(),
                              f'set_prms tests {T.show(a, maxlen=120)}: the path is on the right of isinstance (TypeError for '
                              'every path that is not itself a type)', instance='set_prms: isinstance(path, type)')
                    classes = isinst(l)[1]
                    if 'builtins.str' in classes or not classes & PATHISH:
                        continue      # a test that lets strings through: either polarity is about something else
                    kind = 'isinstance(., Path)'
                    if for_str and not neg:
                        n += 1
                        ctx.check(converted(a[2][0]), rule, q, e.node, e.loc(),
                                  f'set_prms requires {T.show(a, maxlen=120)} of a path that was never converted from str: a '
                                  'file named by a string is refused', instance='set_prms: str converted before the Path test')
                if kind is None:
                    continue
                n += 1
                ctx.check(not neg, rule, q, e.node, e.loc(),
                          f'set_prms reaches the merge only when {T.show(l, maxlen=120)}: the test is the wrong way round, files '
                          'that exist are refused and the YAML route is closed',
                          instance=f'set_prms: {kind} positive on the path to the merge')
                if subject is not None and for_str:
                    n += 1
                    ctx.check(converted(subject), rule, q, e.node, e.loc(),
                              f'set_prms calls {kind} on {T.show(subject, maxlen=100)}, which is the raw argument: a file named by '
                              'a string has no such method', instance=f'set_prms: {kind} on the converted path')
        n += 1
        ctx.check(admits_str > 0, rule, q, e.node, e.loc(),
                  f'no way to the merge is open to a path given as a str ({T.show(e.guard, maxlen=160)}): the documented '
                  "set_prms('./ampycloud_default_prms.yml') is refused", instance='set_prms: a str path reaches the merge')
    ctx.floor(rule, 'path tests on the way to the merge in set_prms', n, 3)


# ---------------------------------------------------------------------------------------------- C12-R8
def same_loader(ctx, rule='C12-R8'):
    """The file handed to set_prms() is read by the very loader that reads the packaged defaults (same constructor, same
    arguments): two YAML readers agree on the mappings but not on every scalar - 1e3, 010, yes / no - so "identical results
    for identical effective values" fails for files spelt that way as soon as the two routes parse differently."""
    fx = effects(ctx)
    p = ctx.project

    def loaders(q):
        out = set()
        for e in fx.deep_events(q):
            if e.kind != 'call':
                continue
            c = e.call
            if tag(c) == 'mcall' and c[2] in ('load', 'safe_load', 'load_all'):
                r = T.peel(c[1])
                if tag(r) == 'new':
                    out.add(('object of', r[1]))
                elif tag(r) == 'call' and tag(r[1]) == 'g':
                    out.add((r[1][1], tuple(T.show(a) for a in r[2]), tuple((k, T.show(v)) for k, v in r[3])))
                elif tag(r) == 'g' and not r[1].startswith(p.pkg + '.'):
                    out.add((r[1] + '.' + c[2], (), tuple((k, T.show(v)) for k, v in c[4] if k not in ('stream',))))
                else:
                    out.add(('receiver', T.show(r, maxlen=80)))
            elif tag(c) == 'call' and tag(c[1]) == 'g' and c[1][1].split('.')[-1] in ('load', 'safe_load', 'load_all') \
                    and not c[1][1].startswith(p.pkg + '.'):
                out.add((c[1][1], (), tuple((k, T.show(v)) for k, v in c[3] if k not in ('stream',))))
        return out
    a, b = loaders('ampycloud.core.set_prms'), loaders('ampycloud.dynamic.get_default_prms')
    f = p.func('ampycloud.core.set_prms', rule)
    ctx.saw(f)
    ctx.floor(rule, 'YAML load calls in set_prms / get_default_prms', min(len(a), len(b)), 1)
    ctx.check(a == b, rule, f.qname, f.node.name, f.loc(),
              f'set_prms reads the user file with {sorted(a)}, the packaged defaults are read with {sorted(b)}: the two '
              'loaders do not resolve every scalar alike (1e3, 010, yes / no), so the same text gives other effective values '
              'through the file route than through the defaults', instance='set_prms and get_default_prms use the same YAML loader')


def stateless_routes(ctx, rule='C12-R9'):
    """The routines behind the three routes (set_prms, reset_prms, _setup_prms, the merge routine and what they call) keep
    nothing between calls besides the global dictionary itself: a registry of "already reported" keys or a memoised
    merge makes the second use of a route behave differently from the first (a warning given once, a stale result)."""
    from sa.rules.confinement import module_state
    fx = effects(ctx)
    entries = ['ampycloud.core.set_prms', 'ampycloud.core.reset_prms', 'ampycloud.data.AbstractChunk._setup_prms',
               'ampycloud.utils.utils.adjust_nested_dict', 'ampycloud.dynamic.get_default_prms']
    for q in entries:
        ctx.project.func(q, rule)
    scope = fx.reachable([q for q in entries if q in fx.summ])
    ctx.floor(rule, 'parameter routines and what they call', len(scope), 5)
    # (who may write the global dictionary itself is C11-R2's business: these routines are its writers)
    module_state(ctx, rule, scope=scope, ignore=(PRMS_GLOBAL,))
