"""Decision-table extraction: which return / raise of a function is taken for concrete small inputs,
decided by folding the guards of the abstract executor's events (checker semantics, no execution)."""
from __future__ import annotations

from sa import terms as T
from sa.core import AnalysisError
from sa.anchors import is_helper
from sa.symexec import Executor
from sa.terms import tag

_SUMM = {}


def summary(ctx, f, binding=None):
    key = (id(ctx.project), f.qname, tuple(sorted((binding or {}).items())))
    if key not in _SUMM:
        # private helpers of the same module are expanded at their call sites (helper extraction is invisible)
        funcs, mod, q = ctx.project.funcs, f.module.name, f.qname

        def inline(cq, depth):
            cf = funcs.get(cq)
            return cq != q and (is_helper(ctx.project, cq) or (
                cf is not None and cf.module.name == mod and cf.name.startswith('_')
                and not cf.name.startswith('__')))
        ex = Executor(ctx.project, inline=inline, max_depth=7)
        _SUMM[key] = (ex, ex.run(f, binding or {}))
    return _SUMM[key]


def fold(t, mapping):
    """Substitute and constant-fold (re-running the smart constructors bottom-up)."""
    return T.subst(t, mapping)


def _constant_tables(ctx, f, t):
    """Module-level names bound once to a literal tuple / list / dict of constants -> constant terms."""
    import ast
    mapping = {}
    for g in T.find(t, lambda x: tag(x) == 'g'):
        modq, _, nm = g[1].rpartition('.')
        mod = ctx.project.modules.get(modq)
        if mod is None or nm not in mod.globals or len(mod.globals[nm]) != 1:
            continue
        node = mod.globals[nm][0]
        try:
            val = ast.literal_eval(node)
        except Exception:  # pylint: disable=broad-except
            continue
        if isinstance(val, (tuple, list)) and all(isinstance(v, (int, float, str, type(None), bool)) for v in val):
            mapping[g] = T.C(tuple(val))
        elif isinstance(val, dict) and all(isinstance(k, (int, str)) for k in val):
            mapping[g] = ('dict', tuple((T.C(k), T.C(v)) for k, v in val.items()))
    return mapping


def _index_error(t) -> bool:
    """An indexing of a constant table that could not be folded (out of range / missing key)."""
    return T.contains(t, lambda x: tag(x) in ('sub', 'col') and (
        (T.is_const(x[1]) and isinstance(x[1][1], tuple)) or tag(x[1]) == 'dict') and
        (tag(x) == 'col' or T.is_const(x[2])))


def decide_returns(ctx, f, values: dict):
    """values: {param name: const term}. Returns ('return', term) / ('raise', class) / ('none', None)
    for the unique exit whose guard folds to True; AnalysisError if undecidable.
    try / except IndexError|KeyError around a constant-table lookup is decided by folding the lookup."""
    ex, s = summary(ctx, f)
    mapping = {('p', k): v for k, v in values.items()}
    # a raise inside an expanded helper (`_refuse(msg)`) ends the caller too; returns of helpers do not
    events = [e for e in s.events if (e.kind == 'return' and not e.ctx) or e.kind == 'raise']
    tables = {}
    for e in events:
        tables.update(_constant_tables(ctx, f, e.value))
        tables.update(_constant_tables(ctx, f, e.guard))
    mapping.update(tables)

    def fire(exc_name):
        hits = []
        for e in events:
            g = e.guard
            excs = {x for x in T.find(g, lambda y: tag(y) == 'exc')}
            g = T.subst(g, {x: (T.TRUE if (exc_name is not None and exc_name in x[1]) else T.FALSE) for x in excs})
            g = _fold_isinstance(fold(g, mapping))
            if g == T.TRUE:
                hits.append(e)
            elif g != T.FALSE:
                raise AnalysisError('E5', f'{f.qname}: exit guard does not fold for {values}: '
                                          f'{T.show(g, maxlen=200)}')
        return min(hits, key=lambda x: x.seq) if hits else None
    e = fire(None)
    if e is not None and e.kind == 'return' and _index_error(fold(e.value, mapping)):
        e2 = fire('IndexError') or fire('KeyError') or fire('LookupError') or fire('Exception')
        if e2 is None:
            return ('raise', 'builtins.IndexError')
        e = e2
    if e is None:
        return ('none', None)
    if e.kind == 'raise':
        v = e.value
        cls = v[1] if tag(v) == 'new' else (v[1][1] if tag(v) == 'call' and tag(v[1]) == 'g' else None)
        return ('raise', cls)
    return ('return', fold(e.value, mapping))


class _NumpyScalar:       # no Python literal is an instance of a NumPy scalar type
    pass


_TYPES = {'numpy.integer': _NumpyScalar, 'numpy.floating': _NumpyScalar, 'numpy.number': _NumpyScalar,
          'numpy.bool_': _NumpyScalar, 'numpy.int64': _NumpyScalar, 'numpy.float64': _NumpyScalar,
          'numpy.generic': _NumpyScalar, 'numbers.Integral': int, 'numbers.Real': (int, float),
          'numbers.Number': (int, float, complex),
          'builtins.int': int, 'builtins.float': float, 'builtins.str': str, 'builtins.bool': bool,
          'builtins.list': list, 'builtins.tuple': tuple, 'builtins.dict': dict}


def _fold_isinstance(g):
    """isinstance(<const>, <builtin type or tuple of them>) -> bool."""
    mapping = {}
    for x in T.find(g, lambda t: tag(t) == 'call' and t[1] == ('g', 'builtins.isinstance')
                    and len(t[2]) == 2 and T.is_const(t[2][0])):
        ty = x[2][1]
        tys = ty[1] if tag(ty) == 'tuple' else (ty,)
        if all(tag(t) == 'g' and t[1] in _TYPES for t in tys):
            val = x[2][0][1]
            mapping[x] = T.C(isinstance(val, tuple(_TYPES[t[1]] for t in tys)))
    return T.subst(g, mapping) if mapping else g
