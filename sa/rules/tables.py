"""Decision-table extraction: which return / raise of a function is taken for concrete small inputs,
decided by folding the guards of the abstract executor's events (checker semantics, no execution)."""
from __future__ import annotations

from sa import terms as T
from sa.core import AnalysisError
from sa.symexec import Executor
from sa.terms import tag

_SUMM = {}


def summary(ctx, f, binding=None):
    key = (id(ctx.project), f.qname, tuple(sorted((binding or {}).items())))
    if key not in _SUMM:
        ex = Executor(ctx.project)
        _SUMM[key] = (ex, ex.run(f, binding or {}))
    return _SUMM[key]


def fold(t, mapping):
    """Substitute and constant-fold (re-running the smart constructors bottom-up)."""
    return T.subst(t, mapping)


def decide_returns(ctx, f, values: dict):
    """values: {param name: const term}. Returns ('return', term) / ('raise', class) / ('none', None)
    for the unique exit whose guard folds to True; AnalysisError if undecidable."""
    ex, s = summary(ctx, f)
    mapping = {('p', k): v for k, v in values.items()}
    hits = []
    for e in s.events:
        if e.kind not in ('return', 'raise') or e.ctx:
            continue
        g = fold(e.guard, mapping)
        g = _fold_isinstance(g)
        if g == T.TRUE:
            hits.append(e)
        elif g != T.FALSE:
            raise AnalysisError('E5', f'{f.qname}: exit guard does not fold for {values}: '
                                      f'{T.show(g, maxlen=200)}')
    if not hits:
        return ('none', None)
    e = min(hits, key=lambda x: x.seq)
    if e.kind == 'raise':
        v = e.value
        cls = v[1] if tag(v) == 'new' else (v[1][1] if tag(v) == 'call' and tag(v[1]) == 'g' else None)
        return ('raise', cls)
    return ('return', fold(e.value, mapping))


_TYPES = {'builtins.int': int, 'builtins.float': float, 'builtins.str': str, 'builtins.bool': bool,
          'builtins.list': list, 'builtins.tuple': tuple, 'builtins.dict': dict}


def _fold_isinstance(g):
    """isinstance(<const>, <builtin type or tuple of them>) -> bool."""
    mapping = {}
    for x in T.find(g, lambda t: tag(t) == 'call' and t[1] == ('g', 'builtins.isinstance')
                    and len(t[2]) == 2 and T.is_const(t[2][0])):
        ty = x[2][1]
        tys = ty[1] if tag(ty) == 'tuple' else (ty,)
        if all(tag(t) == 'g' and t[1] in _TYPES for t in tys):
            val = x[2][0][1]
            mapping[x] = T.C(isinstance(val, tuple(_TYPES[t[1]] for t in tys)))
    return T.subst(g, mapping) if mapping else g
