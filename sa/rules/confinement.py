"""C13-R1 / C09-R6: no state outside the chunk instance on the processing path."""
from __future__ import annotations

import ast

from sa import terms as T
from sa.effects import PRMS_GLOBAL
from sa.rules.common import effects, processing_path, call_head
from sa.terms import tag

CACHING_DECORATORS = ('functools.lru_cache', 'functools.cache', 'functools.cached_property')
ALLOWED_GLOBAL_WRITERS = {PRMS_GLOBAL: {'ampycloud.core.set_prms', 'ampycloud.core.reset_prms'}}


def _escapes(f) -> bool:
    """A local function that is returned, stored or passed on outlives the call that defined it, and so do the
    variables it closes over; one that is only called on the spot does not."""
    par = f.parent
    if par is None:
        return True
    for n in ast.walk(par.node):
        if isinstance(n, ast.Call) and isinstance(n.func, ast.Name) and n.func.id == f.name:
            n.func._direct_call = True
    for n in ast.walk(par.node):
        if isinstance(n, ast.Name) and n.id == f.name and isinstance(n.ctx, ast.Load) and not getattr(n, '_direct_call', False):
            return True
    return any(d for d in f.decorators)


def module_state(ctx, rule: str, scope=None, ignore=()) -> None:
    """scope: the functions looked at (qualified names); default: everything reachable from the processing entry
    points."""
    fx = effects(ctx)
    p = ctx.project
    if scope is None:
        reach = processing_path(fx)
        ctx.tables['processing_path_functions'] = len(reach)
        ctx.floor(rule, 'functions reachable from run()/CeiloChunk', len(reach), 40)
    else:
        reach = set(scope)
    # writers of any module-level / class-level / function-level object, package wide
    written = {}
    for q in fx.summ:
        for (key, deep), (e, via) in fx.mutations(q).items():
            if key[0] == 'global':
                written.setdefault(key[1], []).append((q, e, via))
    for q in sorted(reach):
        f = p.funcs[q]
        ctx.saw(f)
        # (a) global / nonlocal declarations
        for e in fx.own_events(q):
            if e.kind == 'global':
                ctx.violation(rule, q, e.node, e.loc(),
                              f'{e.text()}: state shared through a module-level name on the '
                              'processing path')
        # (b) writes to module / class / function objects
        for (key, deep), (e, via) in fx.mutations(q).items():
            if key[0] == 'global':
                if q in ALLOWED_GLOBAL_WRITERS.get(key[1], ()) or key[1] in ignore:
                    continue
                ctx.violation(rule, q, e.node, e.loc(),
                              f'writes module-level object {key[1]}' +
                              (f' (through {via})' if via else ''),
                              facts={'object': key[1], 'deep': deep})
            if key[0] == 'free' and _escapes(f):
                ctx.violation(rule, q, e.node, e.loc(), f'writes closure variable {key[1]}')
        # (c) mutable default arguments
        a = f.node.args
        for d in list(a.defaults) + [x for x in a.kw_defaults if x is not None]:
            if isinstance(d, (ast.List, ast.Dict, ast.Set, ast.ListComp, ast.DictComp, ast.SetComp)) \
                    or (isinstance(d, ast.Call)):
                ctx.violation(rule, q, d, f.loc(d),
                              f'mutable default argument {ast.unparse(d)} is shared by all calls')
        # (g) memoising decorators
        for d in f.decorators:
            if d in CACHING_DECORATORS:
                ctx.violation(rule, q, f.node.name, f.loc(),
                              f'{d} keeps results of earlier calls in a process-wide cache')
        # (d) class attribute stores through type(self) / self.__class__
        for e in fx.own_events(q):
            if e.kind in ('store', 'aug') and e.base is not None:
                b = T.root(e.base)
                if tag(b) == 'call' and b[1] == ('g', 'builtins.type'):
                    ctx.violation(rule, q, e.node, e.loc(), 'writes a class attribute')
        # (f) reads of module-level objects that somebody writes
        for e in fx.own_events(q):
            for nm, v in fx.terms_of(e):
                if nm == 'guard':
                    continue
                for g in T.find(v, lambda x: tag(x) == 'g'):
                    gq = g[1]
                    if gq in written and gq != PRMS_GLOBAL:
                        writers = sorted({w[0] for w in written[gq]})
                        if e.kind in ('store', 'aug', 'mutcall', 'del') and T.root(e.base) == g:
                            continue  # reported as a write above
                        ctx.violation(rule, q, e.node, e.loc(),
                                      f'reads module-level object {gq}, which is written by '
                                      f'{", ".join(writers)}', facts={'object': gq})
        ctx.ok(rule, f'{q}: no module-level, class-level, closure or memoised state', f.loc())


# Calls that change interpreter- or library-wide settings: what one chunk switches, every other chunk being processed in
# the same process sees (and a `with` that restores the setting restores it for the others too, at the wrong moment).
PROCESS_WIDE_SWITCHES = {
    'warnings.catch_warnings': 'the list of warning filters (module-level, swapped and restored non-atomically)',
    'warnings.simplefilter': 'the list of warning filters', 'warnings.filterwarnings': 'the list of warning filters',
    'warnings.resetwarnings': 'the list of warning filters',
    'numpy.seterr': 'the floating-point error handling', 'numpy.seterrcall': 'the floating-point error handling',
    'numpy.set_printoptions': 'the print options', 'numpy.setbufsize': 'the ufunc buffer size',
    'pandas.set_option': 'the pandas options', 'pandas.reset_option': 'the pandas options',
    'pandas.option_context': 'the pandas options', 'pandas.options': 'the pandas options',
    'locale.setlocale': 'the locale', 'os.chdir': 'the working directory', 'os.putenv': 'the environment',
    'os.umask': 'the file mode mask', 'sys.setrecursionlimit': 'the recursion limit', 'sys.settrace': 'the trace hook',
    'sys.setprofile': 'the profile hook', 'logging.disable': 'the logging threshold',
    'logging.basicConfig': 'the root logger', 'logging.captureWarnings': 'the routing of warnings',
    'gc.disable': 'the garbage collector', 'gc.enable': 'the garbage collector', 'gc.set_threshold': 'the garbage collector',
    'signal.signal': 'the signal handlers', 'socket.setdefaulttimeout': 'the default socket timeout',
    'time.tzset': 'the time zone', 'matplotlib.use': 'the matplotlib backend',
    'matplotlib.pyplot.switch_backend': 'the matplotlib backend', 'sklearn.set_config': 'the scikit-learn configuration',
    'sklearn.config_context': 'the scikit-learn configuration (thread-local only from 1.0 on)',
}
PROCESS_WIDE_METHODS = {'setLevel': 'the level of a logger (loggers are process-wide objects)',
                        'addHandler': 'the handlers of a logger', 'removeHandler': 'the handlers of a logger',
                        'addFilter': 'the filters of a logger'}


def process_wide_switches(ctx, rule: str) -> None:
    """No function on the processing path flips an interpreter- or library-wide switch."""
    fx = effects(ctx)
    p = ctx.project
    reach = processing_path(fx)
    n = 0
    for q in sorted(reach):
        f = p.funcs[q]
        for e in fx.own_events(q):
            if e.kind not in ('call', 'with'):
                continue
            n += 1
            head = call_head(e) if e.kind == 'call' else None
            if e.kind == 'with' and tag(e.value) == 'call' and tag(e.value[1]) == 'g':
                head = e.value[1][1]
            what = PROCESS_WIDE_SWITCHES.get(head or '')
            c = getattr(e, 'call', None)
            if what is None and e.kind == 'call' and tag(c) == 'mcall' and c[2] in PROCESS_WIDE_METHODS and \
                    T.contains(c[1], lambda x: tag(x) == 'call' and x[1] == ('g', 'logging.getLogger') or
                               (tag(x) == 'g' and x[1].endswith('.logger'))):
                what, head = PROCESS_WIDE_METHODS[c[2]], f'logger.{c[2]}'
            if what is None and head and head.rsplit('.', 1)[-1] in PROCESS_WIDE_METHODS and \
                    ('.logger.' in head or head.startswith('logging.')):
                what, head = PROCESS_WIDE_METHODS[head.rsplit('.', 1)[-1]], 'logger.' + head.rsplit('.', 1)[-1]
            if what is None and e.kind == 'call' and tag(c) == 'mcall' and tag(T.root(c[1])) == 'g' and \
                    T.root(c[1])[1] == 'os.environ' and c[2] in ('update', 'pop', 'setdefault', 'clear', '__setitem__'):
                what, head = 'the environment', 'os.environ.' + c[2]
            if what is not None:
                ctx.violation(rule, q, e.node, e.loc(),
                              f'{head} changes {what}: a setting of the whole process, switched while other chunks are being '
                              'processed (threads) - their warnings become errors, their output changes - and restored at a '
                              'moment that suits this chunk only',
                              instance=f'{q}: no process-wide switch ({head})')
        for e in fx.own_events(q):
            if e.kind == 'store' and e.base is not None and tag(T.root(e.base)) == 'g' and T.root(e.base)[1] == 'os.environ':
                ctx.violation(rule, q, e.node, e.loc(), 'os.environ is written on the processing path: the environment is shared '
                              'by every chunk of the process', instance=f'{q}: no process-wide switch (os.environ)')
    ctx.floor(rule, 'calls and with-blocks on the processing path scanned for process-wide switches', n, 200)
