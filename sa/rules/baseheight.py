"""C04 / C06: base heights - parameter binding, selection, routine internals, statistics columns."""
from __future__ import annotations

from sa.anchors import is_helper
from sa import terms as T
from sa.core import AnalysisError
from sa.rules.common import effects, call_head, guard_literals
from sa.rules.tablemodel import table_history, sets_of, is_cast, WHICH, DATA, SELF, id_col, member_mask
from sa.symexec import Executor
from sa.terms import tag, C

CBH = 'ampycloud.utils.utils.calc_base_height'
LOOKBACK = ('prm', ('BASE_LVL_LOOKBACK_PERC',))
HPERC = ('prm', ('BASE_LVL_HEIGHT_PERC',))
EXCL = ('prm', ('EXCLUDE_FOR_BASE_HEIGHT_CALC',))
P0 = ('prm', ('MAX_HITS_OKTA0',))
LOWESS = ('prm', ('LOWESS',))
NCOMP = 'ampycloud.layer.ncomp_from_gmm'


def cbh_sites(ctx, rule):
    """All calls of calc_base_height reachable from the stage methods, with callers inlined so that the
    arguments are expressed in chunk terms: [(label, event, vals, lookback, height_perc)]."""
    p = ctx.project
    cf = p.func(CBH, rule)
    names = cf.params
    out = []
    k = p.klass('ampycloud.data.CeiloChunk', rule)
    for mname, binding in (('metarize', {'which': C('layers')}), ('find_groups', {}), ('find_layers', {})):
        m = p.find_method(k, mname)
        if m is None:
            raise AnalysisError(rule, f'anchor method vanished: CeiloChunk.{mname}')
        ex = Executor(p, inline=lambda q, d: ((q.startswith('ampycloud.data.') or is_helper(p, q)) and not q.endswith('.metarize'))
                      or q == NCOMP, max_depth=6)
        s = ex.run(m, binding)
        for e in s.events:
            if e.kind == 'call' and call_head(e) == CBH and e.guard != T.FALSE:
                b = {}
                for nm, v in zip(names, e.call[2]):
                    b[nm] = v
                for kname, v in e.call[3]:
                    b[kname] = v
                out.append((f'{mname}: {e.where()}', e, b.get(names[0]), b.get(names[1]), b.get(names[2]), ex))
    return out


def parameter_binding(ctx, rule='C04-R1'):
    sites = cbh_sites(ctx, rule)
    seen = set()
    for label, e, vals, lb, hp, ex in sites:
        key = (e.func.qname, e.node.lineno)
        ctx.check(lb == LOOKBACK and hp == HPERC, rule, e.func.qname, e.node, e.loc(),
                  f'calc_base_height is called with lookback={T.show(lb, maxlen=80)}, '
                  f'height_perc={T.show(hp, maxlen=80)} ({label}): both must come from the chunk snapshot '
                  '(BASE_LVL_LOOKBACK_PERC, BASE_LVL_HEIGHT_PERC), in that order - at report time and at '
                  'decision time alike', instance=f'{label.split(":")[0]}: {e.func.qname.split(".")[-1]} binds '
                  'look-back and percentile from the snapshot')
        seen.add(e.func.qname)
    ctx.floor(rule, 'functions calling calc_base_height', len(seen), 2)


def routine_internals(ctx, rule='C04-R3'):
    fx = effects(ctx)
    p = ctx.project
    f = p.func(CBH, rule)
    ctx.saw(f)
    vals, lb, hp = (('p', x) for x in f.params[:3])
    evs = fx.deep_events(CBH)
    pct = [e for e in evs if e.kind == 'call' and call_head(e) in ('numpy.percentile', 'numpy.nanpercentile')]
    ctx.floor(rule, 'percentile call', len(pct), 1)
    n = ('call', ('g', 'builtins.len'), (vals,), ())
    for e in pct:
        tail, q = e.call[2][0], e.call[2][1] if len(e.call[2]) > 1 else None
        num, den = None, None
        ok_tail = False
        if tag(tail) == 'sub' and tail[1] == vals and tag(tail[2]) == 'slice' and tail[2][2] == T.NONE \
                and tail[2][3] == T.NONE:
            lo = tail[2][1]
            if tag(lo) == 'un' and lo[1] == '-' and tag(lo[2]) == 'call' and lo[2][1] == ('g', 'builtins.int'):
                inner = lo[2][2][0]
                from sa.rules.amount import _muldiv
                nu, de = _muldiv(inner)
                ok_tail = sorted(nu, key=T.key) == sorted([n, lb], key=T.key) and de == [C(100)]
        ctx.check(ok_tail, rule, CBH, e.node, e.loc(),
                  f'the look-back selection is {T.show(tail, maxlen=160)}: expected the LAST '
                  'int(len(vals) * lookback_perc / 100) values (most recent hits)',
                  instance='calc_base_height: tail slice of the most recent look-back fraction')
        ctx.check(q == hp, rule, CBH, e.node, e.loc(),
                  f'percentile rank is {T.show(q)}: expected height_perc', instance='calc_base_height: percentile = height_perc')
        rets = [r for r in evs if r.kind == 'return']
        ctx.check(len(rets) == 1 and rets[0].value == e.call, rule, CBH, e.node, e.loc(),
                  'the returned base is not that percentile', instance='calc_base_height: returns the percentile')


def selection(ctx, rule='C04-R2'):
    """height_base[row] = calc_base_height(time-sorted heights of the member rows, possibly without the
    excluded ceilometers when enough of those remain)."""
    for which in WHICH:
        m, ex, s, st, ops = table_history(ctx, which, rule)
        hb = [o for o in sets_of(ops, 'height_base') if not is_cast(o)]
        ctx.check(len(hb) == 1, rule, m.qname, m.node.name, m.loc(),
                  f"metarize('{which}'): height_base written {len(hb)} times", instance=f"metarize('{which}'): one height_base store")
        if len(hb) != 1:
            continue
        o = hb[0]
        elem = ('lv', o.loops[-1], 'elem') if o.loops else None
        member = member_mask(which, elem)
        v = o.value
        if not (tag(v) == 'call' and v[1] == ('g', CBH) and v[2]):
            ctx.violation(rule, m.qname, m.node.name, m.loc(),
                          f"metarize('{which}'): height_base = {T.show(v, maxlen=160)}: not computed by calc_base_height",
                          instance=f"metarize('{which}'): base from calc_base_height")
            continue
        vals = T.peel(v[2][0])
        ok_shape = tag(vals) == 'col' and vals[2] == 'height' and tag(vals[1]) == 'mask'
        ctx.check(ok_shape, rule, m.qname, m.node.name, m.loc(),
                  f"metarize('{which}'): values fed to the base routine are {T.show(vals, maxlen=200)}: not the heights "
                  'of a row selection', instance=f"metarize('{which}'): base from heights of a row selection")
        if not ok_shape:
            continue
        frame, sel = vals[1][1], vals[1][2]
        ordered = tag(frame) == 'mcall' and frame[2] == 'sort_values' and frame[1] == DATA and \
            (frame[3][:1] == (C('dt'),) or dict(frame[4]).get('by') == C('dt')) and \
            dict(frame[4]).get('ascending', T.TRUE) == T.TRUE
        ctx.check(ordered, rule, m.qname, m.node.name, m.loc(),
                  f"metarize('{which}'): the selection is taken from {T.show(frame, maxlen=120)}: the base routine needs "
                  "values ordered in time, most recent last (data sorted by ascending 'dt')",
                  instance=f"metarize('{which}'): heights time-ordered before the look-back")
        # leaves of the selection
        leaves = _phi_leaves(sel)
        notexcl = ('mcall', ('col', DATA, 'ceilo'), 'apply',
                   (('lam', 1, T.mk_not(('cmp', 'in', ('lamv', 0), EXCL))),), ())
        filt = T.mk_and([member, notexcl])
        notexcl2 = T.mk_not(('mcall', ('col', DATA, 'ceilo'), 'isin', (EXCL,), ()))
        filt2 = T.mk_and([member, notexcl2])
        for g, leaf in leaves:
            if leaf == filt2:
                leaf, filt_here = filt, filt2
                g = T.subst(g, {filt2: filt})
            if leaf == member:
                ctx.ok(rule, f"metarize('{which}'): selection = all member hits under {T.show(g, maxlen=60)}", m.loc())
            elif leaf == filt:
                lits = set(guard_literals(g))
                cnt_ok = any(tag(l) == 'cmp' and l[1] == 'lt' and l[2] == P0 and
                             T.contains(l[3], lambda x: x == filt) for l in lits)
                ctx.check(cnt_ok, rule, m.qname, m.node.name, m.loc(),
                          f"metarize('{which}'): the exclusion filter is applied under {T.show(g, maxlen=200)}: it must "
                          'be applied only when more than MAX_HITS_OKTA0 member hits remain (else fall back to all)',
                          instance=f"metarize('{which}'): exclusion filter only when enough hits remain")
            else:
                sub = tag(leaf) == 'and' and member in leaf[1]
                ctx.check(False, rule, m.qname, m.node.name, m.loc(),
                          f"metarize('{which}'): base computed on {T.show(leaf, maxlen=200)}"
                          + (' (a subset of the members, but not the documented exclusion filter)' if sub else
                             ': not a subset of the member hits, the base can leave [height_min, height_max]'),
                          instance=f"metarize('{which}'): selection is members or members minus excluded ceilometers")
        ctx.floor(rule, f'selection alternatives ({which})', len(leaves), 2)


def _phi_leaves(t, guard=T.TRUE):
    if tag(t) == 'phi':
        out = []
        for g, v in t[1]:
            out.extend(_phi_leaves(v, T.mk_and([guard, g])))
        return out
    return [(guard, t)]


def statistics_columns(ctx, rule='C04-R4'):
    REDUCERS = {'height_mean': 'mean', 'height_std': 'std', 'height_min': 'min', 'height_max': 'max'}
    for which in WHICH:
        m, ex, s, st, ops = table_history(ctx, which, rule)
        vals = {}
        for col, red in REDUCERS.items():
            w = [o for o in sets_of(ops, col) if not is_cast(o)]
            ctx.check(len(w) == 1, rule, m.qname, m.node.name, m.loc(), f"metarize('{which}'): {col} written {len(w)} times",
                      instance=f"metarize('{which}'): one {col} store")
            if len(w) != 1:
                continue
            o = w[0]
            elem = ('lv', o.loops[-1], 'elem') if o.loops else None
            member = member_mask(which, elem)
            src = ('col', T.mk_mask(DATA, member), 'height')
            v = o.value
            ok = tag(v) == 'mcall' and v[2] == red and T.peel(v[1]) == src and \
                dict(v[4]).get('skipna', T.TRUE) == T.TRUE and not v[3]
            if not ok and tag(v) == 'call' and tag(v[1]) == 'g' and v[1][1] in (f'numpy.nan{red}', f'numpy.{red}') \
                    and v[2] and T.peel(v[2][0]) == src:
                ok = True
            vals[col] = v
            ctx.check(ok, rule, m.qname, m.node.name, m.loc(),
                      f"metarize('{which}'): {col} = {T.show(v, maxlen=160)}: expected the {red} of the member hits' "
                      'heights', instance=f"metarize('{which}'): {col} = {red}(member heights)")
        th = [o for o in sets_of(ops, 'thickness') if not is_cast(o)]
        if len(th) == 1 and 'height_max' in vals and 'height_min' in vals:
            ctx.check(th[0].value == ('bin', '-', vals['height_max'], vals['height_min']), rule, m.qname, m.node.name,
                      m.loc(), f"metarize('{which}'): thickness = {T.show(th[0].value, maxlen=160)}: not height_max - height_min",
                      instance=f"metarize('{which}'): thickness = max - min")
        fl = [o for o in sets_of(ops, 'fluffiness') if not is_cast(o)]
        ctx.check(len(fl) == 1, rule, m.qname, m.node.name, m.loc(), f"metarize('{which}'): fluffiness written {len(fl)} times",
                  instance=f"metarize('{which}'): one fluffiness store")
        if len(fl) == 1:
            o = fl[0]
            elem = ('lv', o.loops[-1], 'elem') if o.loops else None
            member = member_mask(which, elem)
            v = o.value
            call = v[1] if tag(v) == 'sub' and v[2] == C(0) else None
            ok = call is not None and tag(call) == 'call' and call[1] == ('g', 'ampycloud.fluffer.get_fluffiness') \
                and call[2] and T.peel(call[2][0]) == ('cols', T.mk_mask(DATA, member), ('dt', 'height')) \
                and call[3] == ((None, LOWESS),)
            ctx.check(ok, rule, m.qname, m.node.name, m.loc(),
                      f"metarize('{which}'): fluffiness = {T.show(v, maxlen=200)}: expected get_fluffiness(member "
                      "(dt, height) pairs, **prms['LOWESS'])[0]", instance=f"metarize('{which}'): fluffiness of the members")


def fluffiness_sign(ctx, rule='C04-R7'):
    fx = effects(ctx)
    p = ctx.project
    q = 'ampycloud.fluffer.get_fluffiness'
    f = p.func(q, rule)
    ctx.saw(f)
    rets = [e for e in fx.deep_events(q) if e.kind == 'return' and not e.ctx]
    ctx.floor(rule, 'returns of get_fluffiness', len(rets), 2)
    for e in rets:
        v = e.value
        first = v[1][0] if tag(v) == 'tuple' and v[1] else None
        ok = first == C(0)
        if not ok and tag(first) == 'bin' and first[1] == '*':
            factors = [first[2], first[3]]
            consts = [x for x in factors if T.is_const(x) and isinstance(x[1], (int, float)) and x[1] > 0]
            means = [x for x in factors if tag(x) == 'call' and x[1] in (('g', 'numpy.mean'), ('g', 'numpy.nanmean'),
                                                                        ('g', 'numpy.median'))
                     and x[2] and tag(x[2][0]) == 'call' and x[2][0][1] in (('g', 'numpy.abs'), ('g', 'numpy.fabs'),
                                                                            ('g', 'builtins.abs'))]
            ok = len(consts) == 1 and len(means) == 1
        ctx.check(ok, rule, q, e.node, e.loc(),
                  f'fluffiness returned as {T.show(first, maxlen=120)}: not 0 or a positive multiple of a mean of '
                  'absolute deviations (could be negative)', instance='get_fluffiness: 0 or c * mean(|.|), c > 0')
