"""C20: diagnostic plotting leaves matplotlib's global configuration, the chunk and the figure
registry as they were; style cycles are indexed modulo their length."""
from __future__ import annotations

from sa import terms as T
from sa.core import AnalysisError
from sa.rules.common import effects, call_head, guard_literals, kwarg
from sa.terms import tag, C

PLOT_MODULES = ('ampycloud.plots.core', 'ampycloud.plots.diagnostics', 'ampycloud.plots.tools',
                'ampycloud.plots.secondary', 'ampycloud.plots.hardcoded', 'ampycloud.plots')
RC_OBJECTS = {'matplotlib.rcParams', 'matplotlib.pyplot.rcParams', 'matplotlib.rcParamsDefault',
              'matplotlib.rcParamsOrig', 'matplotlib.pyplot.rcParamsDefault'}
RC_WRITERS = {'matplotlib.rc', 'matplotlib.pyplot.rc', 'matplotlib.rcdefaults',
              'matplotlib.pyplot.rcdefaults', 'matplotlib.rc_file', 'matplotlib.rc_file_defaults',
              'matplotlib.pyplot.rc_file', 'matplotlib.style.use', 'matplotlib.pyplot.style.use',
              'matplotlib.use', 'matplotlib.pyplot.switch_backend', 'matplotlib.pyplot.xkcd',
              'matplotlib.pyplot.ion', 'matplotlib.pyplot.ioff', 'matplotlib.interactive',
              'matplotlib.pyplot.style.reload_library', 'matplotlib.style.reload_library',
              'matplotlib.set_loglevel', 'matplotlib.pyplot.set_loglevel',
              'matplotlib.rcParams.update', 'matplotlib.pyplot.rcParams.update',
              'matplotlib.rcParams.setdefault', 'matplotlib.pyplot.rcParams.setdefault',
              'matplotlib.rcParams.pop', 'matplotlib.pyplot.rcParams.pop',
              'matplotlib.rcParams.clear', 'matplotlib.pyplot.rcParams.clear',
              'matplotlib.rcParams.__setitem__', 'matplotlib.pyplot.rcParams.__setitem__',
              'matplotlib.rcParams._set', 'matplotlib.pyplot.rcParams._set'}
RC_SCOPED = {'matplotlib.pyplot.style.context', 'matplotlib.style.context', 'matplotlib.rc_context',
             'matplotlib.pyplot.rc_context'}
FIG_CREATORS = {'matplotlib.pyplot.figure', 'matplotlib.pyplot.subplots', 'matplotlib.pyplot.subplot_mosaic',
                'matplotlib.figure.Figure'}
FIG_CLOSERS = {'matplotlib.pyplot.close'}
SET_STYLE = 'ampycloud.plots.tools.set_mplstyle'
INNER = 'ampycloud.plots.tools.set_mplstyle.<locals>.inner_deco'


def rc_untouched(ctx, rule='C20-R1'):
    fx = effects(ctx)
    p = ctx.project
    n_reads = 0
    for q, e in fx.all_events():
        head = call_head(e) if e.kind == 'call' else None
        if head in RC_WRITERS:
            ctx.violation(rule, q, e.node, e.loc(),
                          f'{head} changes matplotlib\'s global configuration (only a scoped '
                          'plt.style.context / rc_context may)', instance=f'{q}: {head}')
        if e.kind in ('store', 'aug', 'del', 'mutcall') and e.base is not None:
            r = T.root(e.base)
            if tag(r) == 'g' and r[1] in RC_OBJECTS:
                ctx.violation(rule, q, e.node, e.loc(), 'writes into matplotlib.rcParams',
                              instance=f'{q}: store to rcParams')
        for nm, v in fx.terms_of(e):
            if nm != 'guard' and T.contains(v, lambda x: tag(x) == 'g' and x[1] in RC_OBJECTS):
                n_reads += 1
                break
    ctx.floor(rule, 'events reading rcParams', n_reads, 4)
    ctx.ok(rule, 'package wide: no unscoped writer of matplotlib global configuration', '')
    # figure-creating public entry points are decorated
    creators = {q for q, e in fx.all_events() if e.kind == 'call' and call_head(e) in FIG_CREATORS}
    ctx.floor(rule, 'functions creating a figure', len(creators), 2)
    n_pub = 0
    for q, f in sorted(p.funcs.items()):
        if not f.module.name.startswith('ampycloud.plots') or f.cls is not None or '<locals>' in q \
                or f.name.startswith('_'):
            continue
        reach = fx.reachable([q])
        if not (reach & creators):
            continue
        n_pub += 1
        ctx.check(SET_STYLE in f.decorators, rule, q, f.node.name, f.loc(),
                  f'public plotting function {q} creates a figure but is not wrapped by set_mplstyle: '
                  'the ampycloud style is not applied inside a scoped context',
                  instance=f'{q}: decorated by set_mplstyle')
    ctx.floor(rule, 'public figure-creating functions', n_pub, 2)
    # the decorator applies the style through a scoped context manager around the call
    inner = p.func(INNER, rule)
    calls = [e for e in fx.own_events(INNER) if e.kind == 'call' and tag(e.call) == 'call'
             and e.call[1] == ('free', 'func')]
    ok = bool(calls) and all(any(tag(w) == 'call' and tag(w[1]) == 'g' and w[1][1] in RC_SCOPED
                                 for w in e.withs) for e in calls)
    ctx.check(ok, rule, INNER, inner.node.name, inner.loc(),
              'set_mplstyle does not run the wrapped function inside `with plt.style.context(...)`: the '
              'style leaks into (or is not restored to) the global rcParams',
              instance='set_mplstyle: func() inside with plt.style.context')


def _show_false_literal(f):
    return T.mk_not(('p', 'show'))


def figure_lifecycle(ctx, rule='C20-R2'):
    fx = effects(ctx)
    p = ctx.project
    for q, closer_pred in (('ampycloud.plots.core.diagnostic',
                            lambda h: h == 'ampycloud.plots.diagnostics.DiagnosticPlot.close_fig'),
                           ('ampycloud.plots.secondary.scaling_fcts', lambda h: h in FIG_CLOSERS)):
        f = p.func(q, rule)
        ctx.saw(f)
        if 'show' not in f.params:
            raise AnalysisError(rule, f'{q} has no `show` parameter any more')
        evs = list(fx.own_events(q))
        # saving / showing / closing moved into a private function of the plot module (`_wrap_up(adp, stem, fmts, show)`):
        # its statements are read in place of the call, its parameters replaced by what is passed
        from dataclasses import replace as _replace
        expanded = []
        for e in evs:
            head = call_head(e) or ''
            hf = p.funcs.get(head)
            if e.kind == 'call' and hf is not None and hf.module.name.startswith('ampycloud.plots') and \
                    hf.name.startswith('_') and not hf.name.startswith('__') and head in fx.summ and tag(e.call) == 'call':
                bound = fx._bind(hf, e.call[2], e.call[3])
                mapping = {('p', k): v for k, v in bound.items()}
                for he in fx.own_events(head):
                    if he.kind == 'return':
                        continue                    # (leaves the helper, not the plotting function)
                    expanded.append(_replace(he, guard=T.mk_and([e.guard, T.subst(he.guard, mapping)]),
                                             call=T.subst(he.call, mapping) if he.call is not None else None,
                                             seq=e.seq, loops=tuple(e.loops) + tuple(he.loops)))
            else:
                expanded.append(e)
        evs = expanded
        closes = [e for e in evs if e.kind == 'call' and closer_pred(call_head(e) or '')]
        notshow = T.mk_not(('p', 'show'))
        good = [e for e in closes if set(guard_literals(e.guard)) <= {notshow} and not e.loops]
        ctx.check(bool(good), rule, q, f.node.name, f.loc(),
                  'with show=False the figure is not closed on every normal path (no close call guarded '
                  'by `not show` alone)', instance=f'{q}: figure closed when not shown')
        for e in closes:
            a = e.call[2]
            if call_head(e) in FIG_CLOSERS:
                ctx.check(not (a and a[0] == C('all')), rule, q, e.node, e.loc(),
                          "plt.close('all') also closes the caller's figures", instance=f'{q}: closes its own figure')
        if good:
            early = [e for e in evs if e.kind == 'return' and e.seq < good[0].seq
                     and T.mk_and([e.guard, notshow]) != T.FALSE]
            ctx.check(not early, rule, q, early[0].node if early else f.node.name, f.loc(),
                      'a return precedes the close call on a show=False path',
                      instance=f'{q}: no early return before close')
    # DiagnosticPlot.close_fig closes exactly its own figure
    cq = 'ampycloud.plots.diagnostics.DiagnosticPlot.close_fig'
    cf = p.func(cq, rule)
    cl = [e for e in fx.own_events(cq) if e.kind == 'call' and call_head(e) in FIG_CLOSERS]
    ok = bool(cl) and all(e.call[2] and T.contains(e.call[2][0], lambda x: x == ('attr', ('p', 'self'), '_fig'))
                          and e.guard == T.TRUE for e in cl)
    ctx.check(ok, rule, cq, cf.node.name, cf.loc(), 'close_fig does not close self._fig unconditionally',
              instance='close_fig: plt.close(own figure)')
    # files: written only when a stem is given, once per requested format
    writers = []
    from sa.anchors import is_helper
    loop_tables = {}
    seen_nodes = set()
    for fq in sorted(fx.summ):
        if not p.funcs[fq].module.name.startswith('ampycloud.plots') or is_helper(p, fq):
            continue        # (a helper that wraps savefig is seen where it is used, with its parameters bound)
        loop_tables[fq] = fx.deep_loops(fq)
        for e in fx.deep_events(fq):
            if e.kind == 'call' and ((call_head(e) or '').endswith('savefig') or
                                     (call_head(e) or '') in ('?.savefig', 'matplotlib.pyplot.imsave')):
                if (id(e.node), len(e.ctx)) in seen_nodes and e.ctx:
                    continue
                seen_nodes.add((id(e.node), len(e.ctx)))
                writers.append((fq, e))
    ctx.floor(rule, 'savefig call sites', len(writers), 2)
    # a private one-line wrapper of savefig (def _savefig_as(self, fn_out, fmt)) is judged at its call sites, with its
    # parameters replaced by what is passed
    cases = []
    for fq, e in writers:
        f = p.funcs[fq]
        name = e.call[2][0] if tag(e.call) == 'call' and e.call[2] else \
            (e.call[3][0] if tag(e.call) == 'mcall' and e.call[3] else None)
        sites = [(cq, se) for cq, se in fx.sites.get(fq, []) if p.funcs[cq].module.name.startswith('ampycloud.plots')]
        wrapper = f.name.startswith('_') and not f.name.startswith('__') and not e.loops and e.guard == T.TRUE and sites \
            and name is not None
        if not wrapper:
            cases.append((fq, e, name, [loop_tables[fq][l] for l in e.loops if l in loop_tables[fq]], e.guard))
            continue
        for cq, se in sites:
            c = se.call
            args, kws = (c[2], c[3]) if tag(c) == 'call' else (c[3], c[4])
            if tag(c) == 'call' and f.cls is not None and not f.is_static:
                bound = fx._bind(f, args, kws)
            else:
                bound = fx._bind(f, ((('p', 'self'),) + tuple(args)) if f.cls is not None and not f.is_static else args, kws)
            nm2 = T.subst(name, {('p', k): v for k, v in bound.items() if k != 'self'})
            tbl = fx.ex.loops               # (call sites are own events of the caller: the executor's loop table)
            cases.append((cq, se, nm2, [tbl[l] for l in se.loops if l in tbl], se.guard))
    # format-specific options: `metadata=`, `pil_kwargs=` are accepted by some writers and refused (ValueError) by others
    # (jpg, tif, webp, raw, ... take no metadata); the format is the caller's choice
    FORMAT_SPECIFIC = {'metadata', 'pil_kwargs', 'papertype', 'backend'}
    for fq, e in writers:
        kws = e.call[3] if tag(e.call) == 'call' else (e.call[4] if tag(e.call) == 'mcall' else ())
        bad_kw = [k for k, _ in kws if k in FORMAT_SPECIFIC or k is None]
        ctx.check(not bad_kw, rule, fq, e.node, e.loc(),
                  f'savefig is given {bad_kw}: an option that only some file formats accept, while the format is whatever the '
                  'caller asks for - the writers of the other formats raise', instance=f'{fq}: savefig options valid for every format')
    for fq, e, name, loops, guard in cases:
        in_fmt_loop = any(T.contains(l.iter, lambda x: tag(x) == 'p' and 'fmt' in x[1]) for l in loops)
        per_fmt = name is not None and T.contains(name, lambda x: tag(x) == 'lv')
        lvs = [x for x in T.walk(name) if tag(x) == 'lv'] if name is not None else []
        stems = [x for x in T.walk(name) if tag(x) == 'p' and ('stem' in x[1] or x[1] in ('fn_out',))] \
            if name is not None else []
        exact = False
        if lvs and stems:
            st_, lv_ = stems[0], lvs[0]
            exact = name in (('fstr', (st_, C('.'), lv_)),
                             ('bin', '+', ('bin', '+', st_, C('.')), lv_),
                             ('bin', '+', st_, ('bin', '+', C('.'), lv_)),
                             ('mcall', C('{}.{}'), 'format', (st_, lv_), ()),
                             ('bin', '%', C('%s.%s'), ('tuple', (st_, lv_))))
        # the default format written on its own (`if fmts is None: savefig(f'{stem}.pdf')`): one file, <stem>.<default>
        default_only = False
        if stems and not lvs and not loops:
            st_ = stems[0]
            fixed = [x for x in (('fstr', (st_, C('.pdf'))), ('fstr', (st_, C('.'), C('pdf'))), ('bin', '+', st_, C('.pdf')))
                     if x == name]
            default_only = bool(fixed) and any(tag(l) == 'cmp' and l[1] == 'is' and T.NONE in (l[2], l[3]) and
                                               T.contains(l, lambda x: tag(x) == 'p' and 'fmt' in x[1])
                                               for l in guard_literals(guard))
        ctx.check(exact or default_only, rule, fq, e.node, e.loc(),
                  f'the file written is {T.show(name, maxlen=120)}: not exactly "<stem>.<format>" (e.g. a pathlib '
                  'with_suffix() replaces the part of a dotted stem after its last dot, so another file than the '
                  'requested one is written)', instance=f'{fq}: file name is <stem>.<format>')
        ctx.check((in_fmt_loop and per_fmt and len(loops) == 1) or default_only, rule, fq, e.node, e.loc(),
                  'savefig is not executed exactly once per requested format with a per-format file name',
                  instance=f'{fq}: one file per format')
        stem_guard = lambda g: any(tag(l) == 'not' and tag(l[1]) == 'cmp' and l[1][1] == 'is'  # noqa: E731
                                   and l[1][2] == ('p', 'save_stem') and l[1][3] == T.NONE
                                   for l in guard_literals(g))
        if stem_guard(guard):
            ctx.ok(rule, f'{fq}: savefig guarded by save_stem is not None', e.loc())
        else:
            sites = fx.sites.get(fq, [])
            ok = bool(sites) and all(stem_guard(se.guard) for _, se in sites
                                     if p.funcs[_].module.name.startswith('ampycloud.plots'))
            ctx.check(ok, rule, fq, e.node, e.loc(),
                      'a file is written although no save_stem was requested (no `save_stem is not None` '
                      'guard at the savefig call or at the call sites of the saving method)',
                      instance=f'{fq}: files only when save_stem is given')


FIG_MAKERS = {'matplotlib.pyplot.figure', 'matplotlib.pyplot.subplots', 'matplotlib.pyplot.subplot_mosaic',
              'matplotlib.figure.Figure', 'matplotlib.pyplot.gcf'}


def one_figure_per_plot(ctx, rule='C20-R9'):
    """On every path through a plotting function at most one call creates a figure (directly, or through a function /
    constructor that does): the close at the end closes one figure - the one the plot object holds -, so a second one
    created on the way (a "fresh" figure for a panel, say) stays registered with pyplot after show=False."""
    fx = effects(ctx)
    p = ctx.project
    plot_funcs = sorted(q for q, f in p.funcs.items() if f.module.name.startswith('ampycloud.plots') and q in fx.summ)
    direct = {q for q in plot_funcs
              if any(e.kind == 'call' and (call_head(e) or '') in FIG_MAKERS for e in fx.own_events(q))}
    ctx.floor(rule, 'plot functions creating a figure', len(direct), 2)

    def creates(head):
        if head in FIG_MAKERS:
            return True
        if head in p.classes:
            init = p.find_method(p.classes[head], '__init__')
            head = init.qname if init is not None else None
        return head in fx.summ and bool(fx.reachable([head]) & direct)
    n = 0
    for q in plot_funcs:
        f = p.funcs[q]
        makers = [e for e in fx.own_events(q) if e.kind == 'call' and creates(call_head(e) or '') and e.guard != T.FALSE]
        if not makers:
            continue
        n += 1
        ctx.saw(f)
        bad = None
        for i, a in enumerate(makers):
            if a.loops:
                bad = (a, a)
                break
            for b in makers[i + 1:]:
                if T.mk_and([a.guard, b.guard]) != T.FALSE:
                    bad = (a, b)
                    break
            if bad:
                break
        if bad:
            a, b = bad
            ctx.violation(rule, q, b.node, b.loc(),
                          f'{call_head(b)} creates a figure ' + ('inside a loop' if a is b else
                                                                   f'although {call_head(a)} at {a.loc()} has already created one on this path')
                          + ': only the figure the plot object holds at the end is closed, the other one stays open',
                          instance=f'{q}: at most one figure is created per path')
        else:
            ctx.ok(rule, f'{q}: one figure-creating call per path ({", ".join(sorted({call_head(e) for e in makers}))})', f.loc())
    ctx.floor(rule, 'plot functions that (transitively) create figures', n, 4)


def optional_arguments_guarded(ctx, rule='C20-R10', modules=('ampycloud.plots',)):
    """An argument whose default is None (the reference METAR, its origin, the save stem, ...) enters string
    concatenation or arithmetic only where the path condition excludes None: `'text' + None` is a TypeError, while the
    f-string it may have replaced prints 'None'."""
    import ast as _ast
    from sa.rules.common import param_default
    fx = effects(ctx)
    p = ctx.project
    n = 0
    for q, f in sorted(p.funcs.items()):
        if not f.module.name.startswith(tuple(modules)) or q not in fx.summ:
            continue
        def admits_none(a):
            d = param_default(f, a)
            if isinstance(d, _ast.Constant) and d.value is None:
                return True
            args = f.node.args
            ann = next((x.annotation for x in args.posonlyargs + args.args + args.kwonlyargs if x.arg == a), None)
            if ann is None:
                return False
            src = _ast.unparse(ann)
            return 'Optional[' in src or 'None' in src
        optional = [a for a in f.params if admits_none(a)]
        if not optional:
            continue
        ctx.saw(f)
        seen = set()
        for e in fx.own_events(q):
            for nm, v in fx.terms_of(e):
                if nm == 'guard' or v is None:
                    continue
                for x in T.walk(v):
                    if tag(x) != 'bin' or x[1] not in ('+', '-', '*', '/', '%', '//', '**'):
                        continue
                    for o in (x[2], x[3]):
                        if tag(o) == 'p' and o[1] in optional:
                            if x[1] == '%' and o is x[3]:
                                continue                     # 'format %s' % None is fine
                            key = (T.key(x), o[1])
                            if key in seen:
                                continue
                            seen.add(key)
                            n += 1
                            notnone = T.mk_not(('cmp', 'is', o, T.NONE))
                            ctx.check(T.implies(e.guard, notnone) is True, rule, q, e.node, e.loc(),
                                      f'{o[1]} (may be None) is used in {T.show(x, maxlen=100)} under {T.show(e.guard, maxlen=100)}, '
                                      f'which does not exclude {o[1]} is None: None in a concatenation / in arithmetic is a '
                                      'TypeError', instance=f'{q}: {o[1]} is not None where it is concatenated / computed with')
    ctx.ok(rule, f'{n} uses of optional arguments in concatenation / arithmetic, all under `is not None`', '')
    # a default is substituted for an argument only when the argument IS None: a truth test also replaces an empty list
    # (save_fmts=[] asks for no file; with `if not save_fmts` a pdf is written that nobody requested)
    m = 0
    for q, f in sorted(p.funcs.items()):
        if not f.module.name.startswith(tuple(modules)) or q not in fx.summ:
            continue
        for e in fx.own_events(q):
            node = e.node
            if e.kind != 'assign' or not isinstance(node, _ast.Assign) or len(node.targets) != 1 or \
                    not isinstance(node.targets[0], _ast.Name) or node.targets[0].id not in f.params:
                continue
            name = node.targets[0].id
            d = param_default(f, name)
            if not (isinstance(d, _ast.Constant) and d.value is None):
                continue
            if T.contains(e.value, lambda x: x == ('p', name)) or e.guard == T.TRUE:
                continue            # a conversion of the given value ([fmt] for a single str), not a default
            m += 1
            own = guard_literals(e.guard)[-1:] if tag(e.guard) != 'and' else [
                l for l in guard_literals(e.guard) if T.contains(l, lambda x: x == ('p', name))]
            def truth_test(l):
                body = l[1] if tag(l) == 'not' else l
                return tag(body) in ('p', 'phi', 'sub', 'col', 'attr')      # the value itself used as a condition
            ok = any(tag(l) == 'cmp' and l[1] == 'is' and T.NONE in (l[2], l[3]) for l in own) and \
                not any(truth_test(l) for l in own)
            ctx.check(ok, rule, q, node, e.loc(),
                      f'{name} (default None) is replaced by {T.show(e.value, maxlen=60)} under {T.show(e.guard, maxlen=100)}: not an '
                      f'`is None` test, so an empty / zero / False {name} given by the caller is replaced as well',
                      instance=f'{q}: default of {name} substituted only when it is None')
    ctx.floor(rule, 'defaults substituted for None arguments in plot code', m, 1)


def labels_are_not_positions(ctx, rule='C20-R11'):
    """Arrays built by the plot code (colours, markers, flags: one element per row of the chunk data, in row order) are
    indexed by boolean masks or by positions, never by the index labels of a selection of the chunk data: those labels
    have gaps wherever the MSA crop dropped rows, so a label can exceed the length of the array (IndexError) or pick
    the colour of another hit."""
    fx = effects(ctx)
    p = ctx.project
    n = 0

    def chunk_frame(t):
        r = T.peel(t)
        for _ in range(40):
            if tag(r) in ('mask', 'rows', 'col', 'upd', 'cols'):
                r = T.peel(r[1])
            elif tag(r) == 'mcall' and r[2] in ('sort_values', 'reset_index', 'copy', 'dropna'):
                r = T.peel(r[1])
            else:
                break
        return tag(r) == 'attr' and r[2] in ('_data', '_slices', '_groups', '_layers', 'data', 'slices', 'groups', 'layers')
    for q, f in sorted(p.funcs.items()):
        if not f.module.name.startswith('ampycloud.plots') or q not in fx.summ:
            continue
        seen = set()
        for e in fx.own_events(q):
            for nm, v in fx.terms_of(e):
                if nm == 'guard' or v is None:
                    continue
                for x in T.walk(v):
                    if tag(x) != 'sub':
                        continue
                    n += 1
                    idx = T.peel(x[2])
                    if tag(idx) in ('mcall',) and idx[2] in ('to_numpy', 'tolist', 'to_list'):
                        idx = T.peel(idx[1])
                    if tag(idx) == 'vals':
                        idx = T.peel(idx[1])
                    base = T.root(T.peel(x[1]))
                    while tag(base) == 'upd':
                        base = T.root(T.peel(base[1]))
                    array_like = tag(base) in ('call', 'lc', 'list') and not chunk_frame(x[1])
                    if tag(idx) == 'index' and chunk_frame(idx[1]) and array_like and T.key(x) not in seen:
                        seen.add(T.key(x))
                        ctx.violation(rule, q, e.node, e.loc(),
                                      f'an array built by the plot code is indexed by index labels of the chunk data '
                                      f'({T.show(x[2], maxlen=100)}): labels are not positions once the MSA crop has dropped rows',
                                      instance=f'{q}: arrays indexed by masks / positions, not labels')
    ctx.ok(rule, f'{n} subscripts in plot code: no array indexed by labels of the chunk data', '')
    ctx.floor(rule, 'subscripts examined in plot code', n, 30)


def chunk_read_only(ctx, rule='C20-R3'):
    fx = effects(ctx)
    p = ctx.project
    n = 0
    for q, f in sorted(p.funcs.items()):
        if not f.module.name.startswith('ampycloud.plots'):
            continue
        n += 1
        bad = False
        for (key, deep), (e, via) in fx.mutations(q).items():
            if key in (('self', '_chunk'), ('param', 'chunk')):
                bad = True
                steps = fx.explain(q, (key, deep))
                last_q, last_e = steps[-1] if steps else (q, e)
                ctx.violation(rule, last_q, last_e.node, last_e.loc(),
                              f'plot code modifies the chunk it draws ({q} -> '
                              + ' -> '.join(f'{sq.split(".")[-1]}@{se.loc()}' for sq, se in steps) + ')',
                              instance=f'{q}: writes through the chunk')
        if not bad and (f.cls is not None or 'chunk' in f.params):
            ctx.ok(rule, f'{q}: the chunk is only read', f.loc())
    ctx.floor(rule, 'plot functions', n, 20)


def _cycle_kind(b):
    """Is term b a finite style cycle (marker list, colour cycle)?"""
    if b == ('g', 'ampycloud.plots.hardcoded.MRKS'):
        return 'MRKS'
    if T.contains(b, lambda x: (tag(x) == 'col' and x[2] == 'axes.prop_cycle') or
                  (T.is_const(x) and x[1] == 'axes.prop_cycle')):
        return 'colour cycle'
    if tag(b) == 'g' and b[1].startswith('ampycloud.plots.hardcoded.') and b[1].split('.')[-1].isupper():
        return b[1].split('.')[-1]
    if tag(b) in ('list', 'tuple') and len(b[1]) >= 2 and all(T.is_const(x) and isinstance(x[1], str) for x in b[1]):
        return 'style table (' + ', '.join(repr(x[1]) for x in b[1][:3]) + ', ...)'      # a named constant list, as a value
    return None


def cycles_modulo(ctx, rule='C20-R4'):
    fx = effects(ctx)
    p = ctx.project
    seen = {}
    from sa.anchors import is_helper

    def plot_events():
        # helpers are judged where they are used (a mask computed by a helper method is the mask, not a call)
        for q0, f0 in sorted(p.funcs.items()):
            if not f0.module.name.startswith('ampycloud.plots') or is_helper(p, q0) or q0 not in fx.summ:
                continue
            for e0 in fx.deep_events(q0):
                yield e0.func.qname, e0
    for q, e in plot_events():
        for nm, v in fx.terms_of(e):
            if nm == 'guard':
                continue
            for x in T.find(v, lambda t: tag(t) == 'sub' and _cycle_kind(t[1])):
                seen.setdefault((q, x), e)
    n = 0
    for (q, x), e in sorted(seen.items(), key=lambda kv: (kv[0][0], kv[1].seq)):
        b, i = x[1], x[2]
        if tag(i) == 'slice':
            continue
        n += 1
        ln = ('call', ('g', 'builtins.len'), (b,), ())
        ok = (T.is_const(i) and isinstance(i[1], int)) or (tag(i) == 'bin' and i[1] == '%' and (
            i[3] == ln or (tag(b) in ('list', 'tuple') and i[3] == C(len(b[1])))))
        ctx.check(ok, rule, q, e.node, e.loc(),
                  f'{_cycle_kind(b)} is indexed by {T.show(i, maxlen=60)} without `% len(...)`: IndexError '
                  'as soon as there are more sets / ceilometers than entries in the cycle',
                  facts={'index': T.show(i), 'cycle': T.show(b, maxlen=120)},
                  instance=f'{q}: {_cycle_kind(b)}[{T.show(i, maxlen=40)}]')
    ctx.floor(rule, 'subscripts into style cycles', n, 1)


def _ncomp_range(ctx, fx, rule):
    """The values the package can store in groups['ncomp']: the constants written by the table builder / the layering
    step, and 1 .. K for the component count returned by ncomp_from_gmm under its cap K."""
    NCOMP = 'ampycloud.layer.ncomp_from_gmm'
    p = ctx.project
    vals = set()
    tbl_roots = (('attr', ('p', 'self'), '_groups'),)
    for q in ('ampycloud.data.CeiloChunk.find_layers', 'ampycloud.data.CeiloChunk.find_groups'):
        p.func(q, rule)
        for e in fx.deep_events(q):
            if e.kind != 'store':
                continue
            t = e.target
            col = t[3] if tag(t) == 'cell' else (t[2] if tag(t) == 'col' else None)
            if col not in ('ncomp', C('ncomp')):
                continue
            for g, v in ([(T.TRUE, e.value)] if tag(e.value) != 'phi' else e.value[1]):
                v = T.peel(v)
                if T.is_const(v) and isinstance(v[1], int):
                    vals.add(v[1])
                    continue
                calls = [x for x in T.walk(v) if tag(x) == 'call' and x[1] == ('g', NCOMP)]
                if not calls:
                    if tag(v) == 'mcall' and v[2] == 'astype':
                        continue
                    return None, f'an unbounded value ({T.show(v, maxlen=60)})'
                cap = kwarg(calls[0], 'ncomp_max', 1)
                K = None
                if cap is None:
                    from sa.rules.common import param_default
                    import ast
                    d = param_default(p.func(NCOMP, rule), 'ncomp_max')
                    K = d.value if isinstance(d, ast.Constant) and isinstance(d.value, int) else None
                elif T.is_const(cap) and isinstance(cap[1], int):
                    K = cap[1]
                else:
                    for x in T.walk(cap):
                        if tag(x) == 'call' and x[1] in (('g', 'numpy.min'), ('g', 'builtins.min')) and x[2]:
                            items = x[2][0][1] if tag(x[2][0]) in ('list', 'tuple') else x[2]
                            consts = [i[1] for i in items if T.is_const(i) and isinstance(i[1], int)]
                            if consts:
                                K = min(consts)
                if K is None:
                    return None, 'a component count without a constant cap'
                vals |= set(range(1, K + 1))
    return (vals or None), 'nothing'


def consumer_tables(ctx, rule='C20-R5'):
    fx = effects(ctx)
    p = ctx.project
    q = 'ampycloud.plots.diagnostics.DiagnosticPlot.show_groups'
    p.func(q, rule)
    found = 0
    for e in fx.own_events(q):
        for nm, v in fx.terms_of(e):
            if nm == 'guard':
                continue
            for x in T.find(v, lambda t: tag(t) == 'sub' and tag(t[1]) == 'dict'):
                keys = {k[1] for k, _ in x[1][1] if T.is_const(k)}
                if T.contains(x[2], lambda y: T.is_const(y) and y[1] == 'ncomp') or \
                        T.contains(x[2], lambda y: tag(y) == 'cell' and y[3] == 'ncomp'):
                    found += 1
                    need, why = _ncomp_range(ctx, fx, rule)
                    ctx.check(need is not None and need <= keys, rule, q, e.node, e.loc(),
                              f'symbol table keys {sorted(keys)} do not cover the component counts '
                              f'{sorted(need) if need is not None else why} that the grouping / layering steps can store '
                              '(a KeyError while plotting)', instance='symbs covers ncomp range')
                    break
            if found:
                break
        if found:
            break
    ctx.floor(rule, 'ncomp symbol table lookup', found, 1)
    # okta2symb covers 0..8 in both modes
    from sa.rules.tables import decide_returns
    f = p.func('ampycloud.wmo.okta2symb', rule)
    for use in (False, True):
        missing = []
        for v in range(0, 9):
            kind, val = decide_returns(ctx, f, {'val': C(v), 'use_metsymb': C(use)})
            if kind != 'return':
                missing.append(v)
        ctx.check(not missing, rule, f.qname, f.node.name, f.loc(),
                  f'okta2symb(use_metsymb={use}) has no symbol for okta {missing}',
                  instance=f'okta2symb(use_metsymb={use}) covers 0..8')


# ---------------------------------------------------------------------------------------------- C20-R6
CACHING_DECORATORS = ('functools.lru_cache', 'functools.cache', 'functools.cached_property')
MUTATING_EVENTS = ('store', 'aug', 'del', 'mutcall')


def no_state_between_plots(ctx, rule='C20-R6'):
    """'In any sequence within one process': nothing a plotting call computes may be kept and altered so that a later
    call sees it - the result of a memoised function is never modified (the cache would hand the modified object
    to every later call), and no module-level object of the plotting modules is written."""
    fx = effects(ctx)
    p = ctx.project
    entries = [q for q in ('ampycloud.plots.core.diagnostic',) if q in fx.summ]
    if not entries:
        raise AnalysisError(rule, 'anchor vanished: ampycloud.plots.core.diagnostic')
    reach = {q for q in fx.reachable(entries) if p.funcs[q].module.name.startswith('ampycloud.plots')}
    ctx.floor(rule, 'plotting functions reachable from plots.diagnostic', len(reach), 12)
    cached = {q for q in fx.summ if any(d in CACHING_DECORATORS for d in p.funcs[q].decorators)}
    n = 0
    for q in sorted(reach):
        f = p.funcs[q]
        ctx.saw(f)
        bad = []
        for e in fx.own_events(q):
            if e.kind not in MUTATING_EVENTS or e.base is None:
                continue
            r = T.root(T.peel(e.base))
            if tag(r) == 'call' and tag(r[1]) == 'g' and r[1][1] in cached:
                bad.append((e, f'modifies the object returned by the memoised function {r[1][1]}: the cache keeps that '
                               'very object, so every later plot gets the modified one (a style applied once sticks to '
                               'all the following figures)'))
        for (key, deep), (e, via) in fx.mutations(q).items():
            if key[0] == 'global' and key[1].startswith('ampycloud.plots'):
                bad.append((e, f'writes the module-level object {key[1]}' + (f' (through {via})' if via else '') +
                            ': state carried from one plot to the next'))
        n += 1
        if bad:
            for e, why in bad:
                ctx.violation(rule, q, e.node, e.loc(), why, instance=f'{q}: nothing kept between plots is altered')
        else:
            ctx.ok(rule, f'{q}: modifies no memoised result and no module-level object of the plotting modules', f.loc())
    ctx.tables['memoised_functions'] = sorted(cached)


# ---------------------------------------------------------------------------------------------- C20-R8
def string_arrays_wide_enough(ctx, rule='C20-R8'):
    """A NumPy array built from string literals has a fixed width (that of the longest literal): a longer string stored
    into it later is silently cut ('none' into an array of 'k' becomes 'n', which matplotlib refuses).  Every string
    literal stored into such an array must fit.  Arrays whose elements are not all literals (colours read from a style)
    are not decided."""
    fx = effects(ctx)
    p = ctx.project
    from sa.anchors import is_helper
    n = 0
    undecided = 0
    for q0, f0 in sorted(p.funcs.items()):
        if not f0.module.name.startswith('ampycloud.plots') or is_helper(p, q0) or q0 not in fx.summ:
            continue
        for e in fx.deep_events(q0):
            if e.kind != 'store' or not (T.is_const(e.value) and isinstance(e.value[1], str)):
                continue
            tgt = e.target
            if tag(tgt) not in ('mask', 'sub') or e.base is None:
                continue
            def leaves(t):
                t = T.peel(t)
                if tag(t) == 'phi':
                    return [x for _, v in t[1] for x in leaves(v)]
                if tag(t) == 'call' and t[1] in (('g', 'numpy.array'), ('g', 'numpy.asarray'), ('g', 'copy.deepcopy'),
                                                 ('g', 'copy.copy')) and t[2]:
                    return leaves(t[2][0])
                if tag(t) == 'mcall' and t[2] == 'copy':
                    return leaves(t[1])
                return [t]
            alts = leaves(tgt[1])
            res = [_string_array_widths(a) for a in alts]
            undecided += sum(1 for r in res if r[0] is not None and not r[1])
            decided = [max(r[0]) for r in res if r[0] is not None and r[1]]
            if not decided:
                continue
            n += 1
            w = min(decided)            # the narrowest of the ways the array can have been built
            ctx.check(len(e.value[1]) <= w, rule, e.func.qname, e.node, e.loc(),
                      f"{e.value[1]!r} ({len(e.value[1])} characters) is stored into an array of strings built from literals "
                      f'of at most {w} character(s): NumPy cuts it to {e.value[1][:w]!r}',
                      instance=f'{e.func.qname.split(".")[-1]}: {e.value[1]!r} fits the string array it is stored into')
    ctx.floor(rule, 'string literals stored into arrays of string literals (plots)', n, 1)
    ctx.tables[f'{rule} stores into string arrays with non-literal elements (not decided)'] = undecided


def _string_array_widths(t):
    """(widths of the string literals the array is made of, are all its elements literals) for a term that is an
    array of strings built from a list (np.array([...] * n), through copies and phi), else (None, None)."""
    t = T.peel(t)
    tg = tag(t)
    if tg == 'phi':
        res = [_string_array_widths(v) for _, v in t[1]]
        if any(r[0] is None for r in res):
            return None, None
        return [w for r in res for w in r[0]], all(r[1] for r in res)
    if tg == 'call' and t[1] in (('g', 'numpy.array'), ('g', 'numpy.asarray'), ('g', 'copy.deepcopy'), ('g', 'copy.copy'),
                                 ('g', 'builtins.list')) and t[2]:
        return _string_array_widths(t[2][0])
    if tg == 'mcall' and t[2] in ('copy', 'astype'):
        return _string_array_widths(t[1])
    if tg == 'call' and t[1] in (('g', 'numpy.full'), ('g', 'numpy.full_like')) and len(t[2]) >= 2 and \
            T.is_const(t[2][1]) and isinstance(t[2][1][1], str):
        return [len(t[2][1][1])], True
    if tg == 'bin' and t[1] == '*':
        lst = t[2] if tag(t[2]) == 'list' else (t[3] if tag(t[3]) == 'list' else None)
        if lst is not None and lst[1]:
            t, tg = lst, 'list'
    if tg in ('list', 'tuple') and t[1]:
        lits = [x for x in t[1] if T.is_const(x) and isinstance(x[1], str)]
        if not lits and not any(T.contains(x, lambda y: tag(y) == 'col' and y[2] == 'color') for x in t[1]):
            return None, None
        return [len(x[1]) for x in lits] or [0], len(lits) == len(t[1])
    if tg == 'lc':
        el = t[2]
        if T.is_const(el) and isinstance(el[1], str):
            return [len(el[1])], True
        if T.contains(el, lambda y: tag(y) == 'col' and y[2] == 'color'):
            return [0], False
    return None, None
