"""C14: stage typestate of CeiloChunk (facts S, I, G, N, L; see DESIGN.md section 4, C14)."""
from __future__ import annotations

from sa.anchors import is_helper
from sa import terms as T
from sa.core import AnalysisError
from sa.symexec import Executor
from sa.terms import tag, C
from sa.rules.common import guard_literals

CHUNK = 'ampycloud.data.CeiloChunk'
SELF = ('p', 'self')
TABLES = {'_slices': 0, '_groups': 1, '_layers': 2}
IDCOLS = {'slice_id': 0, 'group_id': 1, 'layer_id': 2}
STAGE_NAMES = ['slices', 'groups', 'layers']
ERR = 'ampycloud.errors.AmpycloudError'
# stage index of the facts, and which method owns (produces) them
FACT_STAGE = {'S': 0, 'I': 1, 'G': 1, 'N': 2, 'L': 2}
EXISTS_TABLE = {'I': '_groups', 'G': '_groups', 'N': '_layers', 'L': '_layers', 'S': '_slices'}


def stage_methods(ctx, rule):
    p = ctx.project
    k = p.klass(CHUNK, rule)
    out = []
    for nm, own in (('find_slices', {'S'}), ('find_groups', {'I', 'G'}), ('find_layers', {'N', 'L'})):
        m = p.find_method(k, nm)
        if m is None:
            raise AnalysisError(rule, f'anchor method vanished: {CHUNK}.{nm}')
        out.append((m, {}, own, nm + '()'))
    met = p.find_method(k, 'metarize')
    msg = p.find_method(k, 'metar_msg')
    if met is None or msg is None:
        raise AnalysisError(rule, 'anchor method vanished: metarize / metar_msg')
    for i, w in enumerate(STAGE_NAMES):
        out.append((met, {'which': C(w)}, [{'S'}, {'G'}, {'L'}][i], f"metarize('{w}')"))
    for w in STAGE_NAMES:
        out.append((msg, {'which': C(w)}, set(), f"metar_msg('{w}')"))
    return out


def run_inlined(ctx, m, binding):
    ex = Executor(ctx.project, inline=lambda q, d: q.startswith('ampycloud.data.') or is_helper(ctx.project, q), max_depth=7)
    s = ex.run(m, binding)
    ctx.analysed['events'] += len(s.events)
    return ex, s


def _facts_written(e) -> set:
    """Facts whose storage the store / mutation event e overwrites."""
    if e.kind not in ('store', 'aug', 'del', 'mutcall'):
        return set()
    tgt, base = e.target, e.base
    out = set()
    if tag(tgt) == 'attr' and tgt[1] == SELF and tgt[2] in TABLES:
        return {'_slices': {'S', 'I'}, '_groups': {'G', 'N'}, '_layers': {'L'}}[tgt[2]]
    r = T.root(base) if base is not None else None
    if tag(r) == 'attr' and r[1] == SELF:
        cols = {x[2] for x in T.walk(tgt) if tag(x) == 'col'} | \
               {x[3] for x in T.walk(tgt) if tag(x) == 'cell'}
        for x in T.walk(tgt):
            if tag(x) == 'cols':
                cols |= set(x[2])
        if r[2] == '_data':
            for c in cols:
                if c in IDCOLS:
                    out.add('SGL'[IDCOLS[c]])
            if not cols and e.kind in ('mutcall', 'del'):
                out |= {'S', 'G', 'L'}
        elif r[2] == '_slices':
            out |= {'I'} if cols == {'isolated'} else {'S', 'I'} if not cols else \
                ({'I'} if 'isolated' in cols else set()) | ({'S'} if cols - {'isolated'} else set())
        elif r[2] == '_groups':
            out |= {'N'} if cols == {'ncomp'} else {'G', 'N'} if not cols else \
                ({'N'} if 'ncomp' in cols else set()) | ({'G'} if cols - {'ncomp'} else set())
        elif r[2] == '_layers':
            out |= {'L'}
    return out


def _is_state_write(e) -> bool:
    if e.kind not in ('store', 'aug', 'del', 'mutcall'):
        return False
    tgt = e.target
    if tag(tgt) == 'attr' and tgt[1] == SELF:
        return tgt[2] in TABLES or tgt[2] in ('_data', '_prms', '_clouds_above_msa_buffer')
    r = T.root(e.base) if e.base is not None else None
    return tag(r) == 'attr' and r[1] == SELF and r[2] in ('_data', '_slices', '_groups', '_layers', '_prms')


def _typestate_literals(g) -> list:
    """Literals of guard g that test the presence of a stage product."""
    out = []
    lits = g[1] if tag(g) == 'and' else (g,)
    for lit in lits:
        for x in T.walk(lit):
            if tag(x) == 'cmp' and x[1] == 'is' and x[3] == T.NONE:
                a = x[2]
                if tag(a) == 'attr' and a[1] == SELF and a[2] in TABLES:
                    out.append((lit, a[2]))
                elif tag(a) == 'phi' or tag(a) == 'call':
                    # n_<which> is None  (the property getter returns None while the id column is absent)
                    cols = [c for c in T.walk(a) if tag(c) == 'cmp' and c[1] == 'in'
                            and T.is_const(c[2]) and c[2][1] in IDCOLS]
                    for c in cols:
                        out.append((lit, '_' + STAGE_NAMES[IDCOLS[c[2][1]]]))
            if tag(x) == 'cmp' and x[1] == 'in' and T.is_const(x[2]) and x[2][1] in IDCOLS \
                    and tag(x[3]) == 'columns':
                out.append((lit, '_' + STAGE_NAMES[IDCOLS[x[2][1]]]))
    return out


def _raise_class(e):
    v = e.value
    if tag(v) == 'new':
        return v[1]
    if tag(v) == 'call' and tag(v[1]) == 'g':
        return v[1][1]
    if tag(v) == 'g':
        return v[1]
    return None


def _own_condition(e, events):
    """The condition of the innermost `if` enclosing the raise e (as a literal), or None.  A raise that is the whole
    point of an expanded helper (`_refuse(msg)`: no `if` around it inside the helper) takes the condition around
    the call of the helper."""
    import ast
    node, ctx = e.node, tuple(e.ctx)
    while True:
        parent = getattr(node, '_parent', None)
        child = node
        while parent is not None and not isinstance(parent, (ast.If, ast.FunctionDef, ast.AsyncFunctionDef, ast.Lambda)):
            child, parent = parent, getattr(parent, '_parent', None)
        if isinstance(parent, ast.If):
            break
        if not ctx:
            return None
        node, ctx = ctx[-1].node, ctx[:-1]          # go on from the call site of the helper
    in_body = any(child is x for x in parent.body)
    for c in events:
        if c.kind == 'cond' and c.node is parent and tuple(c.ctx) == ctx and c.seq < e.seq:
            cond = c.value
            return cond if in_body else T.mk_not(cond)
    return None


def _creates(w):
    """Stage product (table attribute or id column) that write event w brings into existence."""
    if w.kind != 'store':
        return None
    if tag(w.target) == 'attr' and w.target[1] == SELF and w.target[2] in TABLES and w.value != T.NONE:
        return w.target[2]
    if tag(w.target) == 'col' and w.target[1] == ('attr', SELF, '_data') and w.target[2] in IDCOLS:
        return '_' + STAGE_NAMES[IDCOLS[w.target[2]]]
    return None


def _implied(g_small, g_big) -> bool:
    a = set(g_small[1]) if tag(g_small) == 'and' else ({g_small} - {T.TRUE})
    b = set(g_big[1]) if tag(g_big) == 'and' else {g_big}
    return a <= b


def refusal_before_mutation(ctx, rule='C14-T3'):
    """No typestate-guarded raise is reachable after a write to chunk state."""
    n_raises = 0
    for m, binding, own, label in stage_methods(ctx, rule):
        ex, s = run_inlined(ctx, m, binding)
        ctx.saw(m)
        writes = [e for e in s.events if _is_state_write(e) and e.guard != T.FALSE]
        ctx.sample({label: {'events': len(s.events), 'state writes': len(writes), 'first write': writes[0].where() if writes else None}})
        for e in s.events:
            if e.kind != 'raise' or e.guard == T.FALSE:
                continue
            own_cond = _own_condition(e, s.events)
            ts = _typestate_literals(own_cond) if own_cond is not None else []
            if not ts:
                continue
            n_raises += 1
            # "X is absent" refusals cannot fire once this very call has created X
            absent = {t for lit, t in ts if tag(lit) != 'not' and not (tag(lit) == 'cmp' and lit[1] == 'in')}
            created = {_creates(w) for w in writes if w.seq < e.seq and _implied(w.guard, e.guard)}
            if absent and absent <= created:
                ctx.ok(rule, f'{label}: refusal {e.where()} is unreachable after the call created '
                             f'{sorted(absent)}', e.loc())
                continue
            earlier = [w for w in writes if w.seq < e.seq and T.mk_and([w.guard, e.guard]) != T.FALSE]
            # writes inside the same loop body may also precede the raise of a later iteration
            earlier += [w for w in writes if w.seq > e.seq and set(w.loops) & set(e.loops)
                        and T.mk_and([w.guard, e.guard]) != T.FALSE]
            if earlier:
                w = earlier[0]
                ctx.violation(rule, e.func.qname, e.node, e.loc(),
                              f'{label}: this call-order refusal is reached after chunk state was '
                              f'already rewritten at {w.where()} ({w.text()[:70]}): a refused call '
                              'does not leave earlier results intact',
                              facts={'entry': label, 'first_write': w.where(), 'raise': e.where(),
                                     'n_writes_before': len(earlier)},
                              instance=f'{label}: raise "{e.text()[:50]}" after write')
            else:
                ctx.ok(rule, f'{label}: refusal {e.where()} precedes every write', e.loc())
    ctx.floor(rule, 'typestate-guarded raises on stage paths', n_raises, 8)


def later_facts_protected(ctx, rule='C14-T2'):
    """A stage that overwrites the storage of a fact produced by a later stage refuses when that fact
    exists (metarize('groups') does so for the layering; nothing else may silently discard)."""
    for m, binding, own, label in stage_methods(ctx, rule):
        if label.startswith('metar_msg'):
            continue
        ex, s = run_inlined(ctx, m, binding)
        own_stage = max(FACT_STAGE[f] for f in own)
        killed = {}
        for e in s.events:
            if e.guard == T.FALSE:
                continue
            for f in _facts_written(e):
                if f not in own and FACT_STAGE[f] > min(FACT_STAGE[o] for o in own) - 0 \
                        and FACT_STAGE[f] >= own_stage and f not in own:
                    killed.setdefault(f, e)
        # refusals present in this method
        refusals = set()
        conditional = {}
        for e in s.events:
            if e.kind == 'raise' and e.guard != T.FALSE:
                ts = list(_typestate_literals(e.guard))
                for lit, table in ts:
                    # positive existence: the literal is  not (X is None)
                    if tag(lit) == 'not':
                        # the refusal depends on the existence of the later product and on nothing the data decide: a
                        # further condition on counts / values (`and self.n_layers != n_ind`) lets the call through on
                        # some data and the later product is overwritten after all
                        pure = [x for x, _ in ts if (tag(x) == 'not' and tag(x[1]) == 'cmp' and x[1][1] in ('is', 'in')) or
                                (tag(x) == 'cmp' and x[1] in ('in', 'is'))]
                        extra = [l for l in guard_literals(e.guard) if l not in pure
                                 and T.contains(l, lambda x: tag(x) in ('col', 'mask', 'propget') or
                                                (tag(x) == 'attr' and x[2] in ('_data', '_slices', '_groups', '_layers')))
                                 and not T.contains(l, lambda x: tag(x) in ('lv', 'lphi'))
                                 and not (tag(l) == 'cmp' and l[1] in ('lt', 'le', 'ne') and C(0) in (l[2], l[3]))
                                 and not (tag(l[1] if tag(l) == 'not' else l) == 'cmp' and (l[1] if tag(l) == 'not' else l)[1] == 'is'
                                          and T.NONE in (l[1] if tag(l) == 'not' else l)[2:4])]
                        if extra:
                            conditional.setdefault(table, (e, extra[0]))
                        else:
                            refusals.add(table)
        for f, e in sorted(killed.items()):
            need = EXISTS_TABLE[f]
            names = {'I': "the slices' isolation status (set by find_groups)",
                     'N': "the groups' component count (set by find_layers)",
                     'G': 'the grouping', 'L': 'the layering', 'S': 'the slicing'}
            why = ''
            if need not in refusals and need in conditional:
                why = f' - the refusal at {conditional[need][0].loc()} also requires {T.show(conditional[need][1], maxlen=100)}'
            ctx.check(need in refusals, rule, e.func.qname, e.node, e.loc(),
                      f'{label} overwrites {names[f]} without refusing when it exists '
                      f'(no raise guarded by self.{need} is not None alone{why}): the call silently discards a '
                      'later stage\'s result instead of raising or leaving it intact',
                      facts={'entry': label, 'fact': f, 'write': e.where()},
                      instance=f'{label} kills {f}')
        if not killed:
            ctx.ok(rule, f'{label}: overwrites only its own products {sorted(own)}', m.loc())


def reads_guarded(ctx, rule='C14-T1'):
    """Every dereference of a stage table / id column is dominated by a presence guard, or by the
    write that produces it in the same call."""
    n = 0
    for m, binding, own, label in stage_methods(ctx, rule):
        ex, s = run_inlined(ctx, m, binding)
        produced_tables, produced_cols = {}, {}
        for e in s.events:
            if e.guard == T.FALSE:
                continue
            if e.kind == 'store' and tag(e.target) == 'attr' and e.target[1] == SELF \
                    and e.target[2] in TABLES:
                produced_tables.setdefault(e.target[2], e.seq)
            if e.kind == 'store' and tag(e.target) == 'col' and e.target[1] == ('attr', SELF, '_data') \
                    and e.target[2] in IDCOLS:
                produced_cols.setdefault(e.target[2], e.seq)
        for e in s.events:
            if e.guard == T.FALSE or e.kind in ('cond', 'propget', 'assign', 'return'):
                continue
            present = {t for lit, t in _typestate_literals(e.guard) if tag(lit) == 'not'
                       or (tag(lit) == 'cmp' and lit[1] == 'in')}
            for nm in ('target', 'value', 'call'):
                v = getattr(e, nm)
                if v is None:
                    continue
                for x in T.walk(v):
                    tbl = col = None
                    if tag(x) in ('col', 'cols', 'sub', 'cell', 'rows', 'mask', 'acc', 'index', 'columns') \
                            and x[2 if tag(x) == 'acc' else 1] in [('attr', SELF, t) for t in TABLES]:
                        tbl = x[2 if tag(x) == 'acc' else 1][2]
                    if tag(x) == 'call' and x[1] == ('g', 'builtins.len') and x[2] and \
                            x[2][0] in [('attr', SELF, t) for t in TABLES]:
                        tbl = x[2][0][2]
                    if tag(x) == 'col' and x[1] == ('attr', SELF, '_data') and x[2] in IDCOLS \
                            and not (e.kind == 'store' and nm == 'target'):
                        col = x[2]
                    if tag(x) == 'col' and tag(x[1]) == 'mask' and x[1][1] == ('attr', SELF, '_data') \
                            and x[2] in IDCOLS and not (e.kind == 'store' and nm == 'target'):
                        col = x[2]
                    if tbl is not None:
                        n += 1
                        ok = tbl in present or produced_tables.get(tbl, 1 << 60) < e.seq
                        ctx.check(ok, rule, e.func.qname, e.node, e.loc(),
                                  f'{label}: self.{tbl} is dereferenced without a dominating '
                                  f'"is None -> raise AmpycloudError" guard (TypeError instead of a refusal)',
                                  instance=f'{label}: {e.where().split(" ")[0]} reads {tbl}')
                    if col is not None:
                        n += 1
                        tname = '_' + STAGE_NAMES[IDCOLS[col]]
                        ok = tname in present or produced_cols.get(col, 1 << 60) < e.seq \
                            or produced_tables.get(tname, 1 << 60) < e.seq
                        ctx.check(ok, rule, e.func.qname, e.node, e.loc(),
                                  f'{label}: column {col!r} is read without a dominating presence guard '
                                  '(KeyError instead of a refusal)',
                                  instance=f'{label}: {e.where().split(" ")[0]} reads {col}')
    ctx.floor(rule, 'guarded dereferences of stage products', n, 40)


FRAME_KEEPING = {'sort_values', 'copy', 'dropna', 'reset_index', 'sort_index', 'fillna', 'astype', 'head', 'tail',
                 'drop_duplicates', 'infer_objects', 'convert_dtypes', 'select_dtypes', 'filter'}
FRAME_READERS = {'max', 'min', 'sum', 'mean', 'median', 'std', 'var', 'nunique', 'any', 'all', 'count', 'describe', 'iterrows',
                 'itertuples', 'apply', 'agg', 'aggregate', 'idxmax', 'idxmin', 'equals', 'to_numpy', 'to_dict', 'to_records',
                 'items', 'transform', 'applymap', 'map', 'stack', 'melt', 'cummax', 'cumsum', 'prod', 'mode', 'quantile'}


def _is_whole_frame(t, data, col) -> bool:
    """t denotes the hit table with all its columns, or with a set of columns that is computed (and may hold col)."""
    if t == data:
        return True
    tg = tag(t)
    if tg in ('mask', 'rows'):
        return _is_whole_frame(t[1], data, col)
    if tg == 'mcall' and t[2] in FRAME_KEEPING:
        return _is_whole_frame(t[1], data, col)
    if tg == 'sub' and _is_whole_frame(t[1], data, col):
        sel = T.peel(t[2])
        if T.is_const(sel) and isinstance(sel[1], str):
            return False
        if tag(sel) in ('list', 'tuple') and all(T.is_const(x) for x in sel[1]):
            return C(col) in sel[1]
        return True         # a computed selection of columns (or of rows)
    if tg == 'cols' and _is_whole_frame(t[1], data, col):
        sel = T.peel(t[2])
        if tag(sel) in ('list', 'tuple') and all(T.is_const(x) for x in sel[1]):
            return C(col) in sel[1]
        return True
    return False


def _reads_whole_frame(v, data, col) -> bool:
    for x in T.walk(v):
        if tag(x) == 'mcall' and x[2] in FRAME_READERS and _is_whole_frame(x[1], data, col):
            return True
        if tag(x) == 'attr' and x[2] in ('values', 'T') and _is_whole_frame(x[1], data, col):
            return True
        if tag(x) == 'vals' and _is_whole_frame(x[1], data, col):
            return True
    return False


def no_self_dependence(ctx, rule='C14-T4'):
    """A stage resets its own id column (for all rows) before anything reads or partially writes it."""
    for m, binding, own, label in stage_methods(ctx, rule):
        if not label.startswith('find_'):
            continue
        col = {'find_slices()': 'slice_id', 'find_groups()': 'group_id', 'find_layers()': 'layer_id'}[label]
        ex, s = run_inlined(ctx, m, binding)
        data = ('attr', SELF, '_data')
        first = None
        for e in s.events:
            if e.guard == T.FALSE or e.kind in ('cond', 'propget', 'assign', 'return'):
                continue
            touches = False
            for nm in ('target', 'value', 'call'):
                v = getattr(e, nm)
                if v is not None and T.contains(
                        v, lambda x: tag(x) in ('col', 'cell') and x[2 if tag(x) == 'col' else 3] == col
                        and T.root(x) == data):
                    touches = True
            if touches:
                first = e
                break
        if first is None:
            raise AnalysisError(rule, f'{label} never touches {col}')
        is_reset = first.kind == 'store' and first.target == ('col', data, col) and T.is_const(first.value) \
            and not first.loops and first.guard != T.FALSE and \
            not T.contains(first.guard, lambda x: x == C(col) or x == ('attr', SELF, '_' + col[:-3] + 's'))
        # ... nor does anything read the hit table as a whole (every column, or a computed set of columns) before
        # that reset: such a read takes in the ids the previous run of this very stage left behind
        whole = []
        for e in s.events:
            if e.seq >= first.seq:
                break
            if e.guard == T.FALSE or e.kind in ('propget',):
                continue
            for nm in ('target', 'value', 'call', 'guard'):
                v = getattr(e, nm)
                if v is not None and _reads_whole_frame(v, data, col):
                    whole.append(e)
                    break
        ctx.check(not whole, rule, whole[0].func.qname if whole else m.qname, whole[0].node if whole else m.node.name,
                  whole[0].loc() if whole else m.loc(),
                  f'{label} reads the hit table as a whole (all columns / a computed set of columns) before resetting '
                  f'{col!r}: on a repeated call the ids left by the previous run of this stage flow into the new ones',
                  instance=f'{label}: no whole-table read before {col} is reset')
        ctx.check(is_reset, rule, first.func.qname, first.node, first.loc(),
                  f'{label}: the first access to {col!r} is not a reset of the whole column to a constant: '
                  'the stage depends on its own earlier output (not idempotent, stale ids survive)',
                  instance=f'{label}: {col} reset first')
        # the reset happens after the prerequisite refusal (covered by T3) and before the recomputation
        # isolated / ncomp likewise for the stage that owns them
    # a stage does not read the per-row product it owns (find_groups: isolated, find_layers: ncomp) unless it
    # has reset it first: otherwise a repeated call behaves differently from the first one
    for m, binding, own, label in stage_methods(ctx, rule):
        spec = {'find_groups()': ('_slices', 'isolated'), 'find_layers()': ('_groups', 'ncomp')}.get(label)
        if spec is None:
            continue
        tbl, col = ('attr', SELF, spec[0]), spec[1]
        ex, s = run_inlined(ctx, m, binding)

        def reads(v):
            return v is not None and T.contains(
                v, lambda x: (tag(x) == 'cell' and x[3] == col and T.root(x[1]) == tbl) or
                (tag(x) == 'col' and x[2] == col and T.root(x[1]) == tbl))
        reset_seq = min((e.seq for e in s.events if e.kind == 'store' and e.target == ('col', tbl, col)
                         and not e.loops), default=1 << 60)
        bad = [e for e in s.events if e.guard != T.FALSE and e.seq < reset_seq and (
            (e.kind in ('cond', 'call', 'return') and (reads(e.value) or reads(e.call))) or
            (e.kind == 'store' and reads(e.value)) or reads(e.guard))]
        ctx.check(not bad, rule, bad[0].func.qname if bad else m.qname, bad[0].node if bad else m.node.name,
                  bad[0].loc() if bad else m.loc(),
                  f'{label} reads {spec[0][1:]}.{col}, a result of its own earlier run, before recomputing it: a '
                  'repeated call is not idempotent (it takes a different path than the first call)',
                  instance=f'{label}: does not read its own {col} before resetting it')
    # find_groups resets 'isolated' before writing it per slice
    for m, binding, own, label in stage_methods(ctx, rule):
        if label != 'find_groups()':
            continue
        ex, s = run_inlined(ctx, m, binding)
        sl = ('attr', SELF, '_slices')
        evs = [e for e in s.events if e.kind == 'store' and T.root(e.base) == sl
               and 'isolated' in {x[2] for x in T.walk(e.target) if tag(x) == 'col'} |
               {x[3] for x in T.walk(e.target) if tag(x) == 'cell'}]
        if evs:
            f0 = evs[0]
            ctx.check(f0.target == ('col', sl, 'isolated') and not f0.loops, rule, f0.func.qname, f0.node,
                      f0.loc(), 'find_groups(): isolation status is not reset before being recomputed',
                      instance='find_groups(): isolated reset first')


def own_column_only(ctx, rule='C14-T5'):
    """(a) A stage writes the id column of its own level and of no other: the mere presence of a later level's column
    ('layer_id') is what the later stages and the report take for "that stage has been run", so a grouping step that
    creates it opens metarize('layers') / metar_msg('layers') on un-layered data and closes find_groups() for good.
    (b) A stage leaves its id column in a state its own reset can be applied to again: a column reset with None and then
    cast to an integer dtype refuses the None of the next (permitted) call with a TypeError."""
    data = ('attr', SELF, '_data')
    n = 0
    for m, binding, own, label in stage_methods(ctx, rule):
        if not label.startswith('find_'):
            continue
        col = {'find_slices()': 'slice_id', 'find_groups()': 'group_id', 'find_layers()': 'layer_id'}[label]
        ex, s = run_inlined(ctx, m, binding)
        resets, casts = [], []
        for e in s.events:
            if e.kind not in ('store', 'aug') or e.guard == T.FALSE or e.target is None or T.root(e.target) != data:
                continue
            t = e.target
            cols = {t[2]} if tag(t) == 'col' else ({t[3]} if tag(t) == 'cell' else (set(t[2]) if tag(t) == 'cols' else set()))
            ids = {c for c in cols if isinstance(c, str)} & set(IDCOLS)
            for c in sorted(ids):
                n += 1
                ctx.check(c == col, rule, e.func.qname, e.node, e.loc(),
                          f'{label} writes {c!r}, the id column of another level: the existence of that column is what tells '
                          f'the other stages (and metarize / metar_msg) that the {STAGE_NAMES[IDCOLS[c]]} have been computed',
                          instance=f'{label}: writes {col} only')
            if col in ids and tag(e.target) == 'col' and e.target[1] == data:
                v = T.peel(e.value) if tag(e.value) != 'mcall' else e.value
                if T.is_const(e.value) and not e.loops:
                    resets.append(e)
                if tag(v) == 'mcall' and v[2] == 'astype' and v[3] and (v[3][0] in (('g', 'builtins.int'), C('int'), C('int64'))
                                                                         or T.show(v[3][0]).endswith('int64')):
                    casts.append(e)
        for r in resets[:1]:
            if r.value == T.NONE:
                bad = [c for c in casts if c.seq > r.seq]
                ctx.check(not bad, rule, (bad[0].func.qname if bad else m.qname), (bad[0].node if bad else r.node),
                          (bad[0].loc() if bad else r.loc()),
                          f'{label} resets {col!r} with None and later casts the column to an integer dtype: when the stage '
                          'is called again - a permitted call - the reset is refused by pandas (TypeError: None is not a '
                          'valid value for an integer column), after parts of the chunk have already been cleared',
                          instance=f'{label}: the reset value of {col} stays storable in the column')
    ctx.floor(rule, 'stores to id columns by the stage methods', n, 6)


STAGE_METHODS = ('find_slices', 'find_groups', 'find_layers', 'metarize', '__init__')


def queries_are_pure(ctx, rule='C14-T6'):
    """Everything a caller can invoke on a chunk besides the stages - metar_msg(), the properties, data_rescaled() - is
    a query: it writes nothing of the chunk (no attribute, no table, no per-hit column).  A query with a hidden write
    makes the answer of the next query depend on which queries were asked before."""
    from sa.rules.common import effects
    fx = effects(ctx)
    p = ctx.project
    n = 0
    done = set()
    # every method a CeiloChunk answers to, wherever it is defined (base class, mixin)
    top = p.klass('ampycloud.data.CeiloChunk', rule)
    methods = {}
    for k in reversed(p.mro(top)):
        methods.update({nm: (k, m) for nm, m in k.methods.items()})
    for nm, (k, m) in sorted(methods.items()):
        cq = k.qname
        if True:
            if nm in STAGE_METHODS or (nm.startswith('_') and not nm.startswith('__')) or m.qname in done:
                continue
            done.add(m.qname)
            if any(d.endswith('.setter') for d in m.decorators):
                continue
            n += 1
            ctx.saw(m)
            bad = False
            for (key, deep), (e, via) in sorted(fx.mutations(m.qname).items(), key=lambda kv: str(kv[0])):
                if key[0] == 'self' or key == ('param', 'self'):
                    bad = True
                    steps = fx.explain(m.qname, (key, deep))
                    last_q, last_e = steps[-1] if steps else (m.qname, e)
                    what = f'self.{key[1]}' if key[0] == 'self' else 'an attribute of the chunk'
                    ctx.violation(rule, last_q, last_e.node, last_e.loc(),
                                  f'{nm} is a query but writes {what}' + (f' (through {via})' if via else '') +
                                  ': later queries and stages see a chunk that depends on which queries were made',
                                  instance=f'{cq.split(".")[-1]}.{nm}: writes nothing of the chunk')
            if not bad:
                ctx.ok(rule, f'{cq.split(".")[-1]}.{nm}: writes nothing of the chunk', m.loc())
    ctx.floor(rule, 'query methods and properties of the chunk classes', n, 15)


def tables_have_no_truth_value(ctx, rule='C14-T7'):
    """Whether a stage has run is asked with `is None` / `is not None`: a stage table (or the chunk data) used as a
    condition - `if self._slices:`, `self._slices or []`, `not self._groups` - works as long as the attribute is None
    and raises pandas' "truth value of a DataFrame is ambiguous" ValueError as soon as the stage has run: the call is
    then neither refused with AmpycloudError nor carried out."""
    from sa.rules.common import effects
    fx = effects(ctx)
    p = ctx.project
    TABLE_ATTRS = ('_slices', '_groups', '_layers', '_data')

    def is_table(t):
        t = T.peel(t)
        return tag(t) == 'attr' and t[2] in TABLE_ATTRS and t[1] == SELF
    n = 0
    top = p.klass('ampycloud.data.CeiloChunk', rule)
    methods = {}
    for k in reversed(p.mro(top)):
        methods.update({nm: m for nm, m in k.methods.items()})
    for nm, m in sorted(methods.items()):
        ctx.saw(m)
        seen = set()
        for e in fx.own_events(m.qname):
            for tn, v in fx.terms_of(e):
                if v is None:
                    continue
                n += 1
                hits = []
                if tn == 'guard':
                    hits += [l for l in guard_literals(v) if is_table(l) or (tag(l) == 'not' and is_table(l[1]))]
                for x in T.walk(v):
                    if tag(x) in ('or', 'and') and tn != 'guard' and any(is_table(o) for o in x[1]):
                        hits.append(x)
                    elif tag(x) == 'not' and is_table(x[1]) and tn != 'guard':
                        hits.append(x)
                    elif tag(x) == 'call' and x[1] == ('g', 'builtins.bool') and x[2] and is_table(x[2][0]):
                        hits.append(x)
                for h in hits:
                    if T.key(h) in seen:
                        continue
                    seen.add(T.key(h))
                    ctx.violation(rule, m.qname, e.node, e.loc(),
                                  f'{T.show(h, maxlen=100)} takes the truth value of a stage table: None is falsy, a DataFrame '
                                  'raises ValueError ("truth value ... is ambiguous") - ask `is None` / `is not None`',
                                  instance=f'{m.qname}: stage tables are tested with `is None`, never for truth')
    ctx.ok(rule, f'{n} terms in the chunk methods: no stage table used as a condition', '')
    ctx.floor(rule, 'terms examined in the chunk methods', n, 300)


def no_hidden_stage_state(ctx, rule='C14-T8'):
    """What a stage leaves behind is its table, its id column and (find_groups) the isolation status / (find_layers) the
    component counts of the level below - nothing else.  Another instance attribute written while a stage runs (a flag
    "the fall-back was used once", a memo of base heights) is state the next call of the same stage starts from: the
    repeated stage is no longer idempotent, and a later stage depends on how often an earlier one was called."""
    ALLOWED = {'_slices', '_groups', '_layers', '_data'}
    n = 0
    for m, binding, own, label in stage_methods(ctx, rule):
        if label.startswith('metar_msg'):
            continue
        ex, s = run_inlined(ctx, m, binding)
        n += 1
        seen = set()
        for e in s.events:
            if e.guard == T.FALSE or e.kind not in ('store', 'aug', 'mutcall', 'del') or e.base is None:
                continue
            b = e.target if tag(e.target) == 'attr' and e.target[1] == SELF else T.root(e.base)
            if tag(b) == 'attr' and b[1] == SELF and b[2] not in ALLOWED and b[2] not in seen:
                seen.add(b[2])
                ctx.violation(rule, e.func.qname, e.node, e.loc(),
                              f'{label} writes self.{b[2]}: instance state besides the tables and the per-hit ids - a second '
                              'call of the stage (or a later stage) starts from what the first one left there',
                              instance=f'{label}: writes tables and id columns only')
        if not seen:
            ctx.ok(rule, f'{label}: writes nothing but tables and id columns', m.loc())
    ctx.floor(rule, 'stage entry points', n, 6)
