"""Rounding discipline in front of the discretisations (E7c): C18-R4 (WMO conversions), C03-R5 (sky-coverage
percentage handed to the okta binning), C04-R8 (look-back count).

What is decided: the shape of the expression guarantees that binary64 agrees with the exact-real model of the
kernels at every point where floor / ceil / round / int switch.  What is not: anything about values off those
points (there the two differ by rounding errors that cannot change the discretised result)."""
from __future__ import annotations

from fractions import Fraction as F

from sa import terms as T
from sa.core import AnalysisError
from sa.fpexact import Discipline
from sa.rules.tables import summary
from sa.terms import tag, C


def _scan_function(ctx, q, rule, is_int=None, param_lattice=None):
    p = ctx.project
    f = p.func(q, rule)
    ctx.saw(f)
    ex, s = summary(ctx, f)
    d = Discipline(is_int=is_int, param_lattice=param_lattice)
    seen = set()
    terms = [s.ret] + [e.value for e in s.events if e.kind in ('assign', 'store', 'return') and e.value is not None]
    for t in terms:
        if t is None or id(t) in seen:
            continue
        seen.add(id(t))
        d.scan(t)
    return f, s, d


def _report(ctx, rule, f, d, what, min_roots):
    uniq = {}
    for t, why in d.findings:
        uniq.setdefault((T.show(t, maxlen=160), why), t)
    roots = {T.key(r) for r, _ in d.roots}
    if uniq:
        for (shown, why), t in uniq.items():
            ctx.violation(rule, f.qname, shown, f.loc(),
                          f'{what}: {shown}: {why}; in binary floating point the value handed to the discretisation is '
                          'then off by an ulp on some of the points where it switches (a different okta, code or count '
                          'than the exact computation gives)', instance=f'{f.name}: {shown[:70]} exact where it matters')
    else:
        ctx.ok(rule, f'{f.name}: {len(roots)} discretisation(s), every operation in front of them is exact on the '
                     'switching points', f.loc())
    return len(roots)


def perc2okta_lattice(ctx, rule):
    """The lattice on which perc2okta needs its argument (6.25 = half an okta bin, in percent)."""
    f, s, d = _scan_function(ctx, 'ampycloud.wmo.perc2okta', rule)
    return f, d, d.lattice_of(('p', f.params[0]))


def wmo_rounding(ctx, rule='C18-R4'):
    n = 0
    f, d, lat = perc2okta_lattice(ctx, rule)
    n += _report(ctx, rule, f, d, 'perc2okta', 3)
    ctx.check(lat is not None and lat.denominator in (1, 2, 4, 8, 16), rule, f.qname, f.node.name, f.loc(),
              f'the okta binning switches on multiples of {lat} %: not a binary fraction, so that no percentage can be '
              'computed exactly on them', instance='perc2okta: bin edges and half-bins are binary fractions of a percent')
    ctx.tables['perc2okta_lattice_percent'] = str(lat)
    f2, s2, d2 = _scan_function(ctx, 'ampycloud.wmo.height2code', rule)
    n += _report(ctx, rule, f2, d2, 'height2code', 3)
    ctx.floor(rule, 'discretisations in perc2okta and height2code', n, 5)


def lookback_rounding(ctx, rule='C04-R8'):
    q = 'ampycloud.utils.utils.calc_base_height'
    f, s, d = _scan_function(ctx, q, rule)
    n = _report(ctx, rule, f, d, 'calc_base_height', 1)
    ctx.floor(rule, 'discretisation of the look-back count', n, 1)


def perc_rounding(ctx, rule='C03-R5'):
    """The percentage written to the tables is exact on the switching points of the okta binning."""
    from sa.rules.amount import WHICH, table_history, sets_of, is_cast
    f, d0, lat = perc2okta_lattice(ctx, rule)
    if lat is None:
        raise AnalysisError(rule, 'the switching points of perc2okta were not identified')
    n = 0
    for which in WHICH:
        m, ex, s, st, ops = table_history(ctx, which, rule)
        pc = [x for x in sets_of(ops, 'perc') if not is_cast(x)]
        nh = [x for x in sets_of(ops, 'n_hits') if not is_cast(x)]
        if len(pc) != 1 or len(nh) != 1:
            raise AnalysisError(rule, 'n_hits / perc stores not unique')
        nterm = nh[0].value
        d = Discipline(is_int=lambda t, nterm=nterm: t == nterm)
        d.need(pc[0].value, lat)
        n += 1
        if d.findings:
            t, why = d.findings[0]
            ctx.violation(rule, m.qname, T.show(pc[0].value, maxlen=200), m.loc(),
                          f"metarize('{which}'): perc = {T.show(pc[0].value, maxlen=160)}: {T.show(t, maxlen=100)}: {why}; on "
                          f'count / total ratios that fall on a multiple of {float(lat)} % (15 of 48 is 31.25 %) the '
                          'percentage is then an ulp off and perc2okta returns the neighbouring okta',
                          instance=f"metarize('{which}'): perc exact on the okta switching points")
        else:
            ctx.ok(rule, f"metarize('{which}'): perc exact on the okta switching points (multiples of {float(lat)} %)", m.loc())
    ctx.floor(rule, 'perc expressions', n, 3)
