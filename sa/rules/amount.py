"""C03: hit counts, percentages and oktas in CeiloChunk._calculate_cloud_amount / max_hits_per_layer."""
from __future__ import annotations

from sa.anchors import is_helper
from sa import terms as T
from sa.core import AnalysisError
from sa.rules.tablemodel import table_history, sets_of, is_cast, WHICH, DATA, SELF, id_col, member_mask
from sa.symexec import Executor
from sa.terms import tag, C

P0 = ('prm', ('MAX_HITS_OKTA0',))
P8 = ('prm', ('MAX_HOLES_OKTA8',))
CEILO_COL = ('col', DATA, 'ceilo')


def ceilos_iter_ok(it) -> bool:
    """The iterable enumerates each ceilometer name exactly once."""
    x = T.peel(it)
    if tag(x) == 'call' and x[1] == ('g', 'numpy.unique') and x[2] and T.peel(x[2][0]) == CEILO_COL:
        return True
    if tag(x) == 'mcall' and x[2] == 'unique' and T.peel(x[1]) == CEILO_COL:
        return True
    if tag(x) == 'call' and x[1] in (('g', 'builtins.set'), ('g', 'builtins.sorted')) and x[2]:
        return ceilos_iter_ok(x[2][0]) or T.peel(x[2][0]) == CEILO_COL
    return False


def distinct_count_arg(t):
    """If t counts the distinct values of X, return X (peeled)."""
    if tag(t) == 'call' and t[1] == ('g', 'builtins.len') and t[2]:
        x = T.peel(t[2][0])
        if tag(x) == 'call' and x[1] == ('g', 'numpy.unique') and len(x[2]) == 1 and not x[3]:
            return T.peel(x[2][0])
        if tag(x) == 'call' and x[1] == ('g', 'builtins.set') and x[2]:
            return T.peel(x[2][0])
        if tag(x) == 'mcall' and x[2] in ('unique', 'drop_duplicates') and not x[3]:
            return T.peel(x[1])
    if tag(t) == 'mcall' and t[2] == 'nunique' and not t[3]:
        return T.peel(t[1])
    if tag(t) == 'attr' and t[2] == 'size':
        x = T.peel(t[1])
        if tag(x) == 'call' and x[1] == ('g', 'numpy.unique') and len(x[2]) == 1:
            return T.peel(x[2][0])
    return None


def measurement_count(t, member):
    """Does t count the distinct (ceilometer, time) measurements among rows `member` (None = all rows)?
    Returns (ok, reason)."""
    t0 = t
    while tag(t) == 'call' and t[1] in (('g', 'builtins.int'), ('g', 'numpy.int64')) and t[2]:
        t = t[2][0]
    # form 1: sum over ceilometers of the number of distinct dt
    if tag(t) == 'call' and t[1] in (('g', 'numpy.sum'), ('g', 'builtins.sum'), ('g', 'numpy.nansum')) and t[2]:
        lc = t[2][0]
        if tag(lc) == 'lc' and lc[1] in ('list', 'gen') and len(lc[3]) == 1:
            it, conds = lc[3][0]
            if conds:
                return False, 'the per-ceilometer sum skips some ceilometers (filter in the comprehension)'
            if not ceilos_iter_ok(it):
                return False, f'the sum does not run over the distinct ceilometer names ({T.show(it, maxlen=80)})'
            x = distinct_count_arg(lc[2])
            if x is None:
                return False, (f'per ceilometer, {T.show(lc[2], maxlen=120)} is counted: not the number of '
                               'distinct time stamps (rows are counted instead of distinct measurements)')
            cv = ('cv', 1, '0')
            want_cond = T.mk_and([T.mk_cmp('==', CEILO_COL, cv)] + ([member] if member is not None else []))
            want = ('col', T.mk_mask(DATA, want_cond), 'dt')
            if x == want:
                return True, ''
            if tag(x) == 'col' and x[2] != 'dt':
                return False, f'distinct values of column {x[2]!r} are counted, not of the time stamps'
            return False, (f'distinct time stamps are counted over {T.show(x, maxlen=200)}; expected the rows of '
                           'one ceilometer' + (' that belong to the set' if member is not None else ''))
    # form 2: distinct (ceilo, dt) pairs at once
    x = None
    if tag(t) == 'call' and t[1] == ('g', 'builtins.len') and t[2]:
        y = T.peel(t[2][0])
        if tag(y) == 'mcall' and y[2] == 'drop_duplicates' and not y[3]:
            x = T.peel(y[1])
    if x is not None and tag(x) == 'cols' and set(x[2]) == {'ceilo', 'dt'}:
        base = x[1]
        want = T.mk_mask(DATA, member) if member is not None else DATA
        if base == want:
            return True, ''
    d = distinct_count_arg(t)
    if d is not None:
        return False, (f'distinct values of {T.show(d, maxlen=120)} are counted across all ceilometers: coincident '
                       'time stamps of different instruments collapse into one measurement')
    return False, (f'{T.show(t0, maxlen=160)} does not count distinct (ceilometer, time) measurements '
                   '(rows are counted, so multi-hit measurements are counted several times)')


def _muldiv(t):
    """(numerator factors, denominator factors) of a product / quotient."""
    if tag(t) == 'bin' and t[1] == '*':
        a, b = _muldiv(t[2]), _muldiv(t[3])
        return a[0] + b[0], a[1] + b[1]
    if tag(t) == 'bin' and t[1] == '/':
        a, b = _muldiv(t[2]), _muldiv(t[3])
        return a[0] + b[1], a[1] + b[0]
    return [t], []


def max_hits(ctx, rule='C03-R1'):
    p = ctx.project
    k = p.klass('ampycloud.data.CeiloChunk', rule)
    m = p.find_method(k, 'max_hits_per_layer')
    if m is None:
        raise AnalysisError(rule, 'anchor property vanished: max_hits_per_layer')
    ctx.saw(m)
    ex = Executor(p, inline=lambda q, d: is_helper(p, q), max_depth=5)
    s = ex.run(m)
    ok, why = measurement_count(s.ret, None)
    ctx.check(ok, rule, m.qname, m.node.name, m.loc(),
              f'max_hits_per_layer: {why}', facts={'term': T.show(s.ret, maxlen=400)},
              instance='max_hits_per_layer = number of distinct (ceilo, dt) measurements in the chunk')
    ctx.sample({'max_hits_per_layer': T.show(s.ret, maxlen=300)})
    return s.ret


def hit_counts(ctx, rule='C03-R1'):
    maxh = max_hits(ctx, rule)
    for which in WHICH:
        m, ex, s, st, ops = table_history(ctx, which, rule)
        nh = [o for o in sets_of(ops, 'n_hits') if not is_cast(o)]
        ctx.check(len(nh) == 1, rule, m.qname, m.node.name, m.loc(),
                  f"metarize('{which}'): n_hits is written {len(nh)} times", instance=f"metarize('{which}'): one n_hits store")
        if len(nh) != 1:
            continue
        o = nh[0]
        loop = ex.loops[o.loops[-1]] if o.loops else None
        elem = ('lv', o.loops[-1], 'elem') if o.loops else None
        member = member_mask(which, elem)
        ok, why = measurement_count(o.value, member)
        ctx.check(ok, rule, m.qname, m.node.name, m.loc(), f"metarize('{which}') n_hits: {why}",
                  facts={'term': T.show(o.value, maxlen=400)},
                  instance=f"metarize('{which}'): n_hits = distinct (ceilo, dt) measurements of the set")
        if which == 'layers':
            ctx.sample({'n_hits (layers)': T.show(o.value, maxlen=300)})
        # the loop runs over the ids present in the per-hit assignment, row = position in that enumeration
        if loop is not None:
            ids = T.peel(loop.iter)
            ok_ids = T.contains(ids, lambda x: tag(x) == 'call' and x[1] == ('g', 'numpy.unique') and x[2]
                                and T.peel(x[2][0]) == ('col', DATA, id_col(which)))
            ctx.check(ok_ids and o.row == ('pos', ('lv', o.loops[-1], 'idx')), rule, m.qname, m.node.name, m.loc(),
                      f"metarize('{which}'): rows are not enumerated from the distinct ids of column "
                      f'{id_col(which)!r} ({T.show(ids, maxlen=120)})',
                      instance=f"metarize('{which}'): one row per distinct {id_col(which)}")
        # percentage
        pc = [x for x in sets_of(ops, 'perc') if not is_cast(x)]
        ctx.check(len(pc) == 1, rule, m.qname, m.node.name, m.loc(), f"metarize('{which}'): perc written {len(pc)} times",
                  instance=f"metarize('{which}'): one perc store")
        if len(pc) == 1:
            num, den = _muldiv(pc[0].value)
            okp = sorted(num, key=T.key) == sorted([o.value, C(100)], key=T.key) and den == [maxh] \
                and pc[0].row == o.row
            ctx.check(okp, rule, m.qname, m.node.name, m.loc(),
                      f"metarize('{which}'): perc = {T.show(pc[0].value, maxlen=200)}: not n_hits / max_hits_per_layer "
                      '* 100 of the same row', instance=f"metarize('{which}'): perc = n_hits / max_hits * 100")


def okta_chain(ctx, rule='C03-R2'):
    p = ctx.project
    for which in WHICH:
        m, ex, s, st, ops = table_history(ctx, which, rule)
        ok_sets = [o for o in sets_of(ops, 'okta') if not is_cast(o)]
        nh = [o for o in sets_of(ops, 'n_hits') if not is_cast(o)]
        pc = [o for o in sets_of(ops, 'perc') if not is_cast(o)]
        if len(nh) != 1 or len(pc) != 1:
            raise AnalysisError(rule, 'n_hits / perc stores not unique')
        n = nh[0].value
        k = p.klass('ampycloud.data.CeiloChunk', rule)
        mh = Executor(p, inline=lambda q, d: is_helper(p, q), max_depth=5).run(p.find_method(k, 'max_hits_per_layer')).ret
        ctx.check(len(ok_sets) == 3, rule, m.qname, m.node.name, m.loc(),
                  f"metarize('{which}'): the okta cell is assigned on {len(ok_sets)} branches (0 / 8 / binned expected)",
                  instance=f"metarize('{which}'): three okta branches")
        g0 = T.lin_cmp(('cmp', 'le', n, P0))
        g8 = T.lin_cmp(('cmp', 'le', ('bin', '-', mh, n), P8))
        seen = set()
        for o in ok_sets:
            lits = [T.lin_cmp(l) for l in (o.guard[1] if tag(o.guard) == 'and' else (o.guard,))]
            not0 = T.lin_cmp(T.mk_not(('cmp', 'le', n, P0)))
            not8 = T.lin_cmp(T.mk_not(('cmp', 'le', ('bin', '-', mh, n), P8)))
            v = o.value
            if v == C(0):
                kind = '0'
                ok = g0 in lits
                why = 'okta 0 must be assigned exactly when n_hits <= MAX_HITS_OKTA0'
            elif v == C(8):
                kind = '8'
                ok = g8 in lits and not0 in lits
                why = ('okta 8 must be assigned exactly when more than MAX_HITS_OKTA0 hits and at most '
                       'MAX_HOLES_OKTA8 measurements are missing (max_hits - n_hits <= MAX_HOLES_OKTA8)')
            else:
                kind = 'binned'
                want = ('call', ('g', 'builtins.int'), (('sub', ('call', ('g', 'ampycloud.wmo.perc2okta'),
                                                                 (pc[0].value,), ()), C(0)),), ())
                ok = v == want and not0 in lits and not8 in lits
                why = (f'otherwise the okta must be int(perc2okta(perc)[0]) of the same row; got '
                       f'{T.show(v, maxlen=120)}')
            seen.add(kind)
            ctx.check(ok, rule, m.qname, m.node.name, m.loc(),
                      f"metarize('{which}') okta branch {kind}: guard {T.show(o.guard, maxlen=200)}: {why}",
                      facts={'guard': T.show(o.guard, maxlen=500), 'value': T.show(v, maxlen=200)},
                      instance=f"metarize('{which}'): okta {kind} branch")
        ctx.check(seen == {'0', '8', 'binned'}, rule, m.qname, m.node.name, m.loc(),
                  f"metarize('{which}'): okta branches found: {sorted(seen)}", instance=f"metarize('{which}'): branches 0, 8, binned")
        # thresholds come from the chunk snapshot (P0 / P8 are ('prm', ...) terms by construction)
