"""C15: input screening in utils.check_data_consistency."""
from __future__ import annotations

import ast

from sa import terms as T
from sa.core import AnalysisError
from sa.rules.common import effects, call_head, guard_literals, kwarg
from sa.rules.typestate import _own_condition
from sa.terms import tag, C

Q = 'ampycloud.utils.utils.check_data_consistency'
ERR = 'ampycloud.errors.AmpycloudError'
WARN = ('g', 'ampycloud.errors.AmpycloudWarning')
REQ = 'ampycloud.hardcoded.REQ_DATA_COLS'


def _frame_root(t):
    r = t
    while tag(r) in ('lphi', 'loopres', 'upd', 'mcall'):
        if tag(r) == 'mcall' and r[2] not in ('drop', 'astype', 'reset_index'):
            break
        if tag(r) == 'lphi':
            return ('frame',)
        r = r[3] if tag(r) == 'loopres' else r[1]
    return r


def _is_data(t, fx):
    """Is t the working copy (at any stage of its normalisation)?"""
    r = t
    seen = 0
    while seen < 50:
        seen += 1
        tg = tag(r)
        if tg == 'lphi':
            loop = fx.deep_loops(Q).get(r[1])
            if loop is None or r[2] not in loop.init:
                return False
            r = loop.init[r[2]]
        elif tg == 'loopres':
            r = r[3]
        elif tg == 'upd':
            r = r[1]
        elif tg == 'mcall' and r[2] in ('drop', 'astype', 'reset_index', 'copy'):
            r = r[1]
        else:
            break
    return r == ('call', ('g', 'copy.deepcopy'), (('p', 'pdf'),), ()) or \
        (tag(r) == 'call' and r[1] == ('g', 'copy.deepcopy') and r[2] and tag(r[2][0]) == 'p')


def refusals(ctx, rule='C15-R1'):
    fx = effects(ctx)
    p = ctx.project
    f = p.func(Q, rule)
    ctx.saw(f)
    evs = fx.deep_events(Q)
    raises = [e for e in evs if e.kind == 'raise']
    kinds = {}
    for e in raises:
        cls = e.value[1] if tag(e.value) == 'new' else None
        cond = _own_condition(e, evs)
        k = None
        if cond is None:
            k = None
        elif tag(cond) == 'not' and tag(cond[1]) == 'call' and cond[1][1] == ('g', 'builtins.isinstance') \
                and cond[1][2][1] == ('g', 'pandas.DataFrame') and _is_data(cond[1][2][0], fx):
            k = 'not a DataFrame'
        elif tag(cond) == 'cmp' and cond[1] == 'eq' and cond[2] == C(0) and tag(cond[3]) == 'call' \
                and cond[3][1] == ('g', 'builtins.len') and _is_data(cond[3][2][0], fx):
            k = 'empty'
        elif tag(cond) == 'not' and tag(cond[1]) == 'cmp' and cond[1][1] == 'in' and tag(cond[1][2]) == 'lv' \
                and tag(cond[1][3]) == 'columns' and _is_data(cond[1][3][1], fx):
            loop = fx.deep_loops(Q)[cond[1][2][1]]
            it = loop.iter
            req_ok = T.contains(it, lambda x: x == ('p', 'req_cols')) and tag(it) == 'mcall' and it[2] == 'items' \
                or (tag(it) == 'phi') or it == ('p', 'req_cols') or (tag(it) == 'mcall' and it[2] == 'keys')
            k = 'required column missing' if req_ok else None
        elif tag(cond) == 'mcall' and cond[2] == 'any' and tag(cond[1]) == 'mcall' and cond[1][2] == 'duplicated' \
                and not cond[1][3] and not cond[1][4] and _is_data(cond[1][1], fx):
            k = 'duplicated rows'
        elif tag(cond) == 'call' and cond[1] == ('g', 'numpy.any') and len(cond[2]) == 1 and tag(cond[2][0]) == 'mcall' \
                and cond[2][0][2] == 'duplicated' and not cond[2][0][3] and not cond[2][0][4] and _is_data(cond[2][0][1], fx):
            k = 'duplicated rows'
        elif _nonempty_of_duplicates(cond, fx):
            k = 'duplicated rows'           # len(data[data.duplicated()]) > 0 says the same
        elif tag(cond) == 'cmp' and cond[1] in ('lt', 'ne') and cond[2] == C(0) and tag(cond[3]) == 'call' \
                and cond[3][1] == ('g', 'builtins.len'):
            mg = cond[3][2][0]
            k = _coincidence(mg, fx)
        kinds.setdefault(k, []).append(e)
        ctx.check(k is not None and cls == ERR, rule, Q, e.node, e.loc(),
                  f'refusal under {T.show(cond, maxlen=200) if cond is not None else "<no condition>"} raising {cls}: '
                  'not one of the documented conditions (not a DataFrame, empty, missing column, duplicated rows, '
                  'coincident type-0/non-0 or VV/non-VV hit of one ceilometer)',
                  facts={'condition': T.show(cond, maxlen=400) if cond is not None else None},
                  instance=f'refusal: {k or e.text()[:50]}')
    want = ['not a DataFrame', 'empty', 'required column missing', 'duplicated rows',
            'coincident hit types (types 0 and -1)']
    for w in want:
        ctx.check(len(kinds.get(w, [])) == 1, rule, Q, f.node.name, f.loc(),
                  f'documented refusal "{w}" found {len(kinds.get(w, []))} times in check_data_consistency',
                  instance=f'documented refusal present: {w}')
    # the sanity checks only warn
    warns = [e for e in evs if e.kind == 'call' and call_head(e) == 'warnings.warn']
    ctx.floor(rule, 'warnings.warn call sites', len(warns), 3)
    for e in warns:
        cat = kwarg(e.call, 'category', 1)
        ctx.check(cat == WARN, rule, Q, e.node, e.loc(), f'warning issued with category {T.show(cat)}: not AmpycloudWarning',
                  instance=f'warning category at {e.loc().split(":")[-1]}')


def _nonempty_of_duplicates(cond, fx) -> bool:
    """0 < len(data[data.duplicated()]) (any spelling of "not empty") for the screened copy."""
    from sa.rules.common import nonempty_arg
    sel = nonempty_arg(cond)
    if sel is None:
        return False
    sel = T.peel(sel)
    return tag(sel) == 'mask' and _is_data(sel[1], fx) and tag(sel[2]) == 'mcall' and sel[2][2] == 'duplicated' and \
        not sel[2][3] and not sel[2][4] and _is_data(sel[2][1], fx)


def _plain_rows(t, fx):
    """The same rows and values with index bookkeeping removed: reset_index(drop=True) / copy() keep every row and
    value, and a pre-selection of columns of the working copy that retains type, dt and ceilo is the working copy as
    far as this test is concerned."""
    if not isinstance(t, tuple):
        return t
    tg = tag(t)
    if tg is None:
        return tuple(_plain_rows(x, fx) for x in t)
    new = tuple([t[0]] + [_plain_rows(x, fx) if isinstance(x, tuple) else x for x in t[1:]])
    if tg == 'mcall' and new[2] == 'reset_index' and dict(new[4]).get('drop', new[3][1] if len(new[3]) > 1 else None) == C(True):
        return new[1]
    if tg == 'mcall' and new[2] == 'copy':
        return new[1]
    if tg == 'cols' and _is_data(new[1], fx) and {'type', 'dt', 'ceilo'} <= set(new[2]):
        return new[1]
    return new


def _coincidence(mg, fx):
    """merged = dets.merge(nodets, how='inner', on=['dt','ceilo']) for hit_type in [0, -1]."""
    if tag(mg) == 'call' and mg[1] == ('g', 'pandas.merge') and len(mg[2]) == 2:
        mg = ('mcall', mg[2][0], 'merge', (mg[2][1],), mg[3])
    if not (tag(mg) == 'mcall' and mg[2] == 'merge' and len(mg[3]) == 1):
        return None
    kw = dict(mg[4])
    on = kw.get('on')
    if kw.get('how') != C('inner') or tag(on) not in ('list', 'tuple') or {x[1] for x in on[1] if T.is_const(x)} != {'dt', 'ceilo'}:
        return None
    sides = [_plain_rows(mg[1], fx), _plain_rows(mg[3][0], fx)]
    conds = []
    lv = None
    for sd in sides:
        if not (tag(sd) == 'cols' and set(sd[2]) == {'dt', 'ceilo'} and tag(sd[1]) == 'mask' and _is_data(sd[1][1], fx)):
            return None
        c = sd[1][2]
        if not (tag(c) == 'cmp' and c[1] in ('eq', 'ne') and tag(c[2]) in ('col', 'lv') and tag(c[3]) in ('col', 'lv')):
            return None
        col = c[2] if tag(c[2]) == 'col' else c[3]
        var = c[3] if tag(c[2]) == 'col' else c[2]
        if col[2] != 'type' or not _is_data(col[1], fx) or tag(var) != 'lv':
            return None
        lv = var
        conds.append(c[1])
    if sorted(conds) != ['eq', 'ne']:
        return None
    loop = fx.deep_loops(Q)[lv[1]]
    it = T.peel(loop.iter)
    if tag(it) in ('list', 'tuple', 'set') and sorted(x[1] for x in it[1] if T.is_const(x)) == [-1, 0] \
            and len(it[1]) == 2:
        return 'coincident hit types (types 0 and -1)'
    return None


def normalisation(ctx, rule='C15-R2', rule3='C15-R3'):
    fx = effects(ctx)
    p = ctx.project
    f = p.func(Q, rule)
    evs = fx.deep_events(Q)
    s = fx.deep(Q)[1]
    # deep copy first, argument untouched (C11-R1), result is that copy
    from sa.anchors import is_helper
    # (a helper that wraps the copy is looked through: its call event is followed by the events of its body)
    first = [e for e in evs if e.kind in ('call', 'assign') and
             not (e.kind == 'call' and (call_head(e) or '') in p.funcs and is_helper(p, call_head(e)))][:1]
    ctx.check(bool(first) and first[0].kind == 'call' and call_head(first[0]) == 'copy.deepcopy'
              and first[0].call[2] == (('p', f.params[0]),), rule, Q, first[0].node if first else f.node.name, f.loc(),
              'the first action is not a deep copy of the argument', instance='deep copy first')
    ctx.check(_is_data(s.ret, fx), rule, Q, f.node.name, f.loc(),
              f'the returned object is {T.show(s.ret, maxlen=120)}: not the normalised private copy',
              instance='returns the normalised copy')
    # the values of the caller's columns are handed on as they came: the only stores into the working copy are the dtype
    # casts of a column onto itself (a hit blanked, clipped or re-typed here is a hit the rest of the chain never sees)
    for e in evs:
        if e.kind not in ('store', 'aug') or e.base is None or not _is_data(e.base, fx):
            continue
        tgt, v = e.target, e.value
        col = tgt[2] if tag(tgt) in ('sub', 'col') else None
        cast = e.kind == 'store' and tag(v) == 'mcall' and v[2] == 'astype' and tag(T.peel(v[1])) in ('sub', 'col', 'vals') and \
            T.contains(v[1], lambda x, col=col: tag(x) in ('sub', 'col') and x[2] == col and _is_data(x[1], fx))
        ctx.check(cast, rule, Q, e.node, e.loc(),
                  f'the screening writes {T.show(tgt, maxlen=80)} := {T.show(v, maxlen=120)}: it may cast a column to the required '
                  'dtype and drop superfluous columns, nothing else - the hits are handed on with the values they came with',
                  instance='stores into the working copy are dtype casts only')
    # ordering: coercion and removal of extra columns precede the duplicate test
    casts = [e for e in evs if e.kind == 'store' and tag(e.value) == 'mcall' and e.value[2] == 'astype']
    drops = [e for e in evs if e.kind == 'mutcall' and e.note == 'drop' or
             (e.kind == 'assign' and tag(e.value) == 'mcall' and e.value[2] == 'drop')]
    dups = [e for e in evs if e.kind == 'call' and tag(e.call) == 'mcall' and e.call[2] == 'duplicated']
    ctx.check(bool(casts), rule, Q, f.node.name, f.loc(), 'columns of the wrong dtype are not coerced',
              instance='dtype coercion present')
    ctx.check(bool(drops), rule, Q, f.node.name, f.loc(),
              'superfluous columns are not removed: the result does not have exactly the four required columns',
              instance='removal of superfluous columns present')
    ctx.floor(rule, 'duplicate tests', len(dups), 1)
    if casts and drops and dups:
        ctx.check(max(e.seq for e in casts + drops) < min(e.seq for e in dups), rule, Q, dups[0].node, dups[0].loc(),
                  'rows are tested for duplication before dtypes are coerced / extra columns removed: rows that '
                  'become equal only after coercion slip through',
                  instance='coercion and column removal precede the duplicate test')
    # R3: normalisation establishes the negation of its trigger
    for e in casts:
        cond = _own_condition(e, evs)
        tgt = e.target
        col = tgt[2] if tag(tgt) in ('sub', 'col') else None
        v = e.value
        same_col = tag(v[1]) in ('sub', 'col') and v[1][2] == col
        ty = v[3][0] if v[3] else None
        trig_ok = cond is not None and T.contains(cond, lambda x: tag(x) == 'cmp' and x[1] == 'ne'
                                                  and ty in (x[2], x[3])
                                                  and T.contains(x, lambda y: tag(y) == 'attr' and y[2] == 'dtype'))
        ctx.check(same_col and trig_ok, rule3, Q, e.node, e.loc(),
                  f'dtype fix-up casts {T.show(v, maxlen=100)} under {T.show(cond, maxlen=100) if cond is not None else None}: the '
                  'cast target must be the very dtype that was tested, on the very column that was tested (else a second '
                  'pass warns again)', instance='cast target = tested dtype, same column')
        # ... and the cast happens for EVERY column whose dtype differs: the trigger is that inequality and nothing more
        if trig_ok:
            lits = guard_literals(cond)
            extra = [l for l in lits if not (tag(l) == 'cmp' and l[1] == 'ne' and ty in (l[2], l[3]))]
            ctx.check(not extra, rule3, Q, e.node, e.loc(),
                      f'the dtype fix-up is skipped unless {T.show(extra[0], maxlen=120) if extra else ""} also holds: a column '
                      'whose dtype differs from the required one in some other way (float32 for float64, int32 / Int64 for '
                      'int64) is returned as it came, so that the result does not have the required dtypes',
                      instance='every column with another dtype than required is cast')
    for e in drops:
        cond = _own_condition(e, evs)
        c = e.call if e.kind == 'mutcall' else e.value
        key = c[3][0] if c[3] else dict(c[4]).get('columns', dict(c[4]).get('labels'))
        axis = dict(c[4]).get('axis')
        if not c[3] and 'columns' in dict(c[4]):
            axis = C('columns')
        def not_required(cnd):
            return cnd is not None and tag(cnd) == 'not' and tag(cnd[1]) == 'cmp' and cnd[1][1] == 'in' and cnd[1][2] == key
        # the condition of the enclosing if, or - when the loop runs over a pre-filtered list - the filter (part of the
        # guard of the drop)
        ok = (not_required(cond) or any(not_required(l) for l in guard_literals(e.guard))) and axis in (C(1), C('columns'))
        ctx.check(ok, rule3, Q, e.node, e.loc(),
                  f'column removal drops {T.show(key)} (axis {T.show(axis)}) under {T.show(cond, maxlen=100) if cond is not None else None}: '
                  'exactly the columns that are not required must be dropped',
                  instance='dropped column = the one tested as not required')


def required_columns(ctx, rule='C15-R4'):
    fx = effects(ctx)
    p = ctx.project
    hm = p.modules.get('ampycloud.hardcoded')
    if hm is None or 'REQ_DATA_COLS' not in hm.globals:
        raise AnalysisError(rule, 'hardcoded.REQ_DATA_COLS vanished')
    node = hm.globals['REQ_DATA_COLS'][-1]
    ok = isinstance(node, ast.Dict) and [k.value for k in node.keys if isinstance(k, ast.Constant)] == \
        ['ceilo', 'dt', 'height', 'type']
    types = [ast.unparse(v) for v in node.values] if isinstance(node, ast.Dict) else []
    ctx.check(ok and types == ['StringDtype()', 'float', 'float', 'int'], rule, REQ, 'REQ_DATA_COLS',
              f'{hm.relpath}:{node.lineno}', f'required columns are {ast.unparse(node)[:120]}',
              instance="REQ_DATA_COLS = ceilo:str, dt:float, height:float, type:int")
    ctx.check(len(hm.globals['REQ_DATA_COLS']) == 1, rule, REQ, 'REQ_DATA_COLS', hm.relpath,
              'REQ_DATA_COLS is assigned more than once', instance='REQ_DATA_COLS assigned once')
    # no writer anywhere
    for q in fx.summ:
        for (key, deep), (e, via) in fx.mutations(q).items():
            if key[0] == 'global' and key[1] in (REQ, 'ampycloud.data.AbstractChunk.DATA_COLS'):
                ctx.violation(rule, q, e.node, e.loc(), f'{q} modifies {key[1]}', instance=f'{q} writes the column table')
    k = p.klass('ampycloud.data.AbstractChunk', rule)
    ca = k.class_attrs.get('DATA_COLS')
    head = p.resolve_static(k.module, ca.func, None) if ca is not None and isinstance(ca, ast.Call) else None
    if head in p.funcs and head in fx.summ:
        # a one-line wrapper of the copy (def _private_copy(obj): return copy.deepcopy(obj)) is that copy
        r = fx.summ[head].ret
        hf = p.funcs[head]
        if tag(r) == 'call' and tag(r[1]) == 'g' and r[1][1] in ('copy.deepcopy', 'copy.copy', 'builtins.dict') and \
                hf.params and r[2] == (('p', hf.params[0]),):
            head = r[1][1]
    ok = ca is not None and isinstance(ca, ast.Call) and head in (
        'copy.deepcopy', 'copy.copy', 'builtins.dict') and ca.args and \
        p.resolve_static(k.module, ca.args[0], None) == REQ
    ctx.check(ok, rule, k.qname, 'DATA_COLS', k.module.relpath,
              'AbstractChunk.DATA_COLS is not a copy of hardcoded.REQ_DATA_COLS', instance='DATA_COLS = copy of REQ_DATA_COLS')
    # chunk construction screens with DATA_COLS, first thing in _cleanup_pdf
    cq = 'ampycloud.data.AbstractChunk._cleanup_pdf'
    cf = p.func(cq, rule)
    evs = [e for e in fx.own_events(cq) if e.kind == 'call' and not (call_head(e) or '').count('.logger.')]
    first = evs[0] if evs else None
    ok = first is not None and call_head(first) == Q and first.call[2][:1] == (('p', cf.params[1]),) and \
        kwarg(first.call, 'req_cols', 1) == ('g', 'ampycloud.data.AbstractChunk.DATA_COLS')
    ctx.check(ok, rule, cq, first.node if first else cf.node.name, cf.loc(),
              'chunk construction does not start by screening its data with check_data_consistency(data, DATA_COLS)',
              instance='_cleanup_pdf screens first, with DATA_COLS')
    # ... and only there: what the chunk makes of the data afterwards (hits above the MSA blanked to type 0, rows dropped)
    # is not input any more, and can look like one of the documented defects without being one
    again = [e for e in fx.deep_events('ampycloud.data.AbstractChunk.__init__')
             if e.kind == 'call' and call_head(e) == Q and (first is None or e.node is not first.node)]
    ctx.check(not again, rule, cq, again[0].node if again else cf.node.name, again[0].loc() if again else cf.loc(),
              'the chunk data is screened a second time after the chunk has started to rewrite it: frames that meet none of '
              'the documented conditions are refused (a blanked first hit next to a kept second hit is a "coincidence")',
              instance='chunk construction screens the input once')
    init = p.func('ampycloud.data.AbstractChunk.__init__', rule)
    calls = [e for e in fx.own_events(init.qname) if e.kind == 'call' and call_head(e) == cq]
    ctx.check(len(calls) == 1, rule, init.qname, init.node.name, init.loc(),
              'AbstractChunk.__init__ does not pass the data through _cleanup_pdf', instance='__init__ -> _cleanup_pdf')
