"""C10: independence from index labels and frame layout (index typestate USER / UNIQUE / RANGE)."""
from __future__ import annotations

from sa import terms as T
from sa.anchors import is_helper
from sa.core import AnalysisError
from sa.rules.common import effects, call_head
from sa.rules.tablemodel import flatten
from sa.symexec import Executor
from sa.terms import tag, C

INIT = 'ampycloud.data.AbstractChunk.__init__'
SELF = ('p', 'self')
DATA = ('attr', SELF, '_data')
ROW_FILTERS = {'sort_values', 'sort_index', 'sample', 'drop_duplicates', 'dropna', 'query', 'head', 'tail',
               'nlargest', 'nsmallest'}
NEUTRAL = {'astype', 'copy', 'fillna', 'infer_objects', 'rename', 'round', 'convert_dtypes', 'replace'}
RANK = {'USER': 0, 'UNIQUE': 1, 'RANGE': 2}


def data_index_state(ctx, rule='C10-R1'):
    """State of the index of the frame stored in self._data on every path, and of every label-based row
    operation applied to it on the way."""
    p = ctx.project
    f = p.func(INIT, rule)
    ctx.saw(f)
    def inline(q, d):
        cf = p.funcs.get(q)
        return q == 'ampycloud.utils.utils.check_data_consistency' or is_helper(p, q) or (
            cf is not None and cf.module.name in ('ampycloud.data', 'ampycloud.utils.utils') and cf.name.startswith('_')
            and not cf.name.startswith('__'))
    ex = Executor(p, inline=inline, max_depth=6)
    s = ex.run(f)
    stores = [e for e in s.events if e.kind == 'store' and e.target == ('attr', SELF, '_data')]
    if len(stores) != 1:
        raise AnalysisError(rule, f'{len(stores)} assignments to self._data in AbstractChunk.__init__')
    cleanup = p.func('ampycloud.data.AbstractChunk._cleanup_pdf', rule)
    reported = set()
    ops_seen = []

    def need(o_kind, what, state, guard, value, col):
        key = (what, col, T.key(guard))
        if key in reported:
            return
        reported.add(key)
        node = _find_node2(s.events, what, col, value)
        ctx.check(RANK[state] >= 1, rule, cleanup.qname, node if node is not None else cleanup.node.name,
                  cleanup.loc(node) if node is not None else cleanup.loc(),
                  f'{what} is applied while the index still carries the caller\'s labels (never normalised'
                  + (f' on the path {T.show(guard, maxlen=80)}' if guard != T.TRUE else '') + '): '
                  'with repeated labels (pd.concat of per-ceilometer frames) it hits every row sharing a label '
                  '- rows below the limit are blanked or dropped, or the selection no longer matches',
                  facts={'index_state': state}, instance=f'_cleanup_pdf: {what} needs unique labels')

    def walk(t, guard, lphi_state):
        """index state of frame term t under path condition guard"""
        tg = tag(t)
        if tg == 'phi':
            states = [walk(v, T.mk_and([guard, g]), lphi_state) for g, v in t[1]]
            return min(states, key=lambda x: RANK[x])
        if tg == 'upd':
            st = walk(t[1], guard, lphi_state)
            tgt = t[2]
            lab_rows = [x for x in T.walk(tgt) if tag(x) == 'rows' and x[2] == 'lab' and x[1] == ('it',)]
            lab_cell = [x for x in T.walk(tgt) if tag(x) == 'cell' and x[2][0] == 'lab' and x[1] == ('it',)]
            cols = [x[2] for x in T.walk(tgt) if tag(x) == 'col'] + [x[3] for x in lab_cell]
            if lab_rows or lab_cell:
                need('set', f"label-based write .loc[<labels>, '{cols[0] if cols else '?'}']", st, guard, t[3],
                     cols[0] if cols else None)
            return st
        if tg == 'mcall':
            st = walk(t[1], guard, lphi_state)
            ops_seen.append(t[2])
            name, kws = t[2], dict(t[4])
            rowdrop = name == 'drop' and kws.get('axis', C(0)) in (C(0), C('index')) and 'columns' not in kws
            if rowdrop:
                need('call', 'label-based row drop .drop(<labels>)', st, guard, None, None)
            if name == 'reset_index':
                drop = kws.get('drop', t[3][1] if len(t[3]) > 1 else C(False))
                if drop != C(True):
                    need('call', "reset_index() without drop=True (the caller's labels become a column of the chunk data)",
                         'USER', guard, None, None)
                return 'RANGE'
            if name in ('set_index', 'reindex', 'set_axis'):
                return 'USER'
            if name in ROW_FILTERS or rowdrop:
                return 'UNIQUE' if st == 'RANGE' else st
            return st
        if tg == 'mask':
            st = walk(t[1], guard, lphi_state)
            ops_seen.append('filter')
            return 'UNIQUE' if st == 'RANGE' else st
        if tg == 'loopres':
            st0 = walk(t[3], guard, lphi_state)
            inner = dict(lphi_state)
            inner[(t[1], t[2])] = st0
            return walk(t[4], guard, inner)
        if tg == 'lphi':
            return lphi_state.get((t[1], t[2]), 'USER')
        return 'USER'        # the caller's frame (or a copy of it)
    state = walk(stores[0].value, T.TRUE, {})
    ctx.tables['index_state_of_self._data'] = state
    ctx.sample({'derivation of self._data (operations, oldest first)': ops_seen, 'index state': state})
    ctx.check(RANK[state] >= 1, rule, INIT, stores[0].node, stores[0].loc(),
              'on some path the frame stored as chunk data keeps the caller\'s index labels (no reset_index on the '
              'private copy): every later label-based operation (boolean-Series selection after sorting by time, '
              'writes through .loc[<labels>], group-id write-back by index) depends on those labels being unique',
              facts={'index_state': state, 'operations': ops_seen},
              instance='self._data has a normalised (unique) index on every path')
    return state


def _find_node2(events, what, col, value):
    for e in events:
        if what.startswith('label-based write') and e.kind == 'store' and tag(e.target) in ('col', 'cols') \
                and T.contains(e.target, lambda x: tag(x) == 'rows'):
            c = e.target[2] if tag(e.target) == 'col' else e.target[2][0]
            if c == col and e.value == value:
                return e.node
        if what.startswith('label-based row drop') and e.kind in ('assign', 'mutcall', 'call'):
            c = e.value if e.kind == 'assign' else e.call
            if tag(c) == 'mcall' and c[2] == 'drop':
                return e.node
    return None


def _find_node(events, op):
    for e in events:
        if e.kind == 'store' and op.kind == 'set' and e.value == op.value and tag(e.target) in ('col', 'cols') \
                and T.contains(e.target, lambda x: tag(x) == 'rows'):
            col = e.target[2] if tag(e.target) == 'col' else e.target[2][0]
            if col == op.col:
                return e.node
        if op.kind == 'call' and e.kind in ('assign', 'mutcall', 'call'):
            c = e.value if e.kind == 'assign' else e.call
            if tag(c) == 'mcall' and c[2] == op.name and c[3] == op.args:
                return e.node
    return None


def label_ops_elsewhere(ctx, rule='C10-R1'):
    """Label-based row operations on self._data in the stage methods (instances that rely on the field
    invariant), and no operation that would break it."""
    fx = effects(ctx)
    p = ctx.project
    n = 0
    for cq in ('ampycloud.data.AbstractChunk', 'ampycloud.data.CeiloChunk'):
        k = p.klass(cq, rule)
        for nm, m in sorted(k.methods.items()):
            for e in fx.own_events(m.qname):
                if e.kind in ('store', 'aug') and e.base is not None and T.root(e.base) == DATA:
                    if tag(e.target) == 'attr' and e.target[2] in ('index', 'columns') or \
                            tag(e.target) in ('index', 'columns'):
                        ctx.violation(rule, m.qname, e.node, e.loc(), 'the index of the chunk data is overwritten',
                                      instance=f'{m.qname}: index assignment')
                    if T.contains(e.target, lambda x: tag(x) in ('rows', 'cell') and
                                  (x[2] == 'lab' or (tag(x) == 'cell' and x[2][0] == 'lab'))):
                        n += 1
                        ctx.ok(rule, f'{m.qname}: label-based write {e.text()[:60]} (relies on unique labels)', e.loc())
                if e.kind == 'mutcall' and e.base is not None and T.root(e.base) == DATA and e.note in (
                        'set_index', 'sort_index', 'reindex'):
                    ctx.violation(rule, m.qname, e.node, e.loc(), f'{e.note} on the chunk data changes its labels',
                                  instance=f'{m.qname}: {e.note}')
                for nm2, v in fx.terms_of(e):
                    if nm2 == 'guard':
                        continue
                    # boolean Series applied to a re-ordered copy: aligned by label
                    for x in T.find(v, lambda t: tag(t) == 'mask' and tag(t[1]) == 'mcall'
                                    and t[1][2] in ROW_FILTERS and T.root(t[1][1]) == DATA):
                        n += 1
                        ctx.ok(rule, f'{m.qname}: boolean-Series selection on the time-sorted data '
                                     '(aligned by label, relies on unique labels)', e.loc())
                        break
    ctx.floor(rule, 'label-based row operations on the chunk data', n, 2)


def _whole_frame(t) -> bool:
    """Is t the user frame as a whole (possibly re-indexed / row-filtered), not a named selection of it?"""
    for _ in range(60):
        tg = tag(t)
        if tg in ('upd', 'mask', 'rows'):
            t = t[1]
        elif tg == 'mcall' and t[2] in ROW_FILTERS | NEUTRAL | {'reset_index', 'drop'}:
            t = t[1]
        elif tg == 'loopres':
            t = t[3]
        elif tg == 'lphi':
            return True
        elif tg == 'phi':
            return any(_whole_frame(v) for _, v in t[1])
        elif tg == 'p':
            return t[1] in ('data', 'pdf')
        elif tg == 'call' and t[1] in (('g', 'copy.deepcopy'), ('g', 'copy.copy'),
                                       ('g', 'ampycloud.utils.utils.check_data_consistency')):
            return bool(t[2]) and _whole_frame(t[2][0])
        else:
            return False
    return False


def no_positional_columns(ctx, rule='C10-R2'):
    """Before normalisation the user frame is only addressed by column name."""
    fx = effects(ctx)
    p = ctx.project
    n = 0
    for q in ('ampycloud.utils.utils.check_data_consistency', 'ampycloud.data.AbstractChunk._cleanup_pdf',
              'ampycloud.data.AbstractChunk.__init__'):
        f = p.func(q, rule)
        for e in fx.own_events(q):
            for nm, v in fx.terms_of(e):
                if nm == 'guard':
                    continue
                n += 1
                for x in T.find(v, lambda t: tag(t) == 'poscol' or (tag(t) == 'acc' and t[1] == 'iat')):
                    ctx.violation(rule, q, e.node, e.loc(),
                                  'a column of the user frame is addressed by position (.iloc[:, k]) before its layout '
                                  'is normalised: the result depends on column order', instance=f'{q}: positional column')
                for x in T.find(v, lambda t: (tag(t) == 'vals' and _whole_frame(t[1]))
                                or (tag(t) == 'mcall' and t[2] in ('itertuples', 'iterrows', 'to_records', 'to_numpy')
                                    and _whole_frame(t[1]))
                                or (tag(t) == 'call' and t[1] in (('g', 'numpy.array'), ('g', 'numpy.asarray'))
                                    and t[2] and _whole_frame(t[2][0]))):
                    ctx.violation(rule, q, e.node, e.loc(),
                                  'the whole user frame is turned into an array / iterated positionally: the result '
                                  'depends on column order', instance=f'{q}: frame used positionally')
    ctx.ok(rule, f'{n} terms in screening / clean-up: columns addressed by name only', '')
    ctx.floor(rule, 'terms examined', n, 40)


def no_column_ranges(ctx, rule='C10-R6'):
    """Columns of the chunk data / the user frame are selected by name or by a list of names, never by a range of labels
    (`frame.loc[rows, 'dt':'height']`): what lies between two column labels depends on the column order of the frame the
    caller supplied, which is kept as it came."""
    fx = effects(ctx)
    p = ctx.project
    n = 0
    scope = ['ampycloud.utils.utils.check_data_consistency']
    for cq in ('ampycloud.data.AbstractChunk', 'ampycloud.data.CeiloChunk'):
        scope += [m.qname for _, m in sorted(p.klass(cq, rule).methods.items())]
    for q in scope:
        f = p.func(q, rule)
        ctx.saw(f)
        seen = set()
        for e in fx.own_events(q):
            for nm, v in fx.terms_of(e):
                if nm == 'guard' or v is None:
                    continue
                n += 1
                for x in T.walk(v):
                    if tag(x) != 'sub' or tag(x[2]) != 'slice':
                        continue
                    bounds = [b for b in x[2][1:3] if T.is_const(b) and isinstance(b[1], str)]
                    r = T.root(T.peel(x[1]))
                    if bounds and (r == DATA or (tag(r) == 'p' and r[1] in ('data', 'pdf')) or tag(r) == 'lphi') \
                            and T.key(x) not in seen:
                        seen.add(T.key(x))
                        ctx.violation(rule, q, e.node, e.loc(),
                                      f'columns are selected by a range of labels {T.show(x[2], maxlen=60)}: which columns lie '
                                      'in that range (and whether the range exists at all) depends on the column order of '
                                      'the frame the caller supplied', instance=f'{q}: no label ranges over columns')
    ctx.ok(rule, f'{n} terms in screening / chunk methods: no range of column labels', '')
    ctx.floor(rule, 'terms examined', n, 200)


# ---------------------------------------------------------------------------------------------- C10-R4
NAME_KEYED_METHODS = {'merge', 'join', 'sort_values', 'groupby', 'merge_asof', 'merge_ordered', 'pivot', 'pivot_table',
                      'nlargest', 'nsmallest', 'value_counts'}
NAME_KEYED_CALLS = {'pandas.merge', 'pandas.merge_asof', 'pandas.merge_ordered', 'pandas.pivot_table', 'pandas.crosstab'}


def _user_index(t, lphi=None) -> bool:
    """Does the frame denoted by t still carry the index (labels and *names*) of the caller's frame?"""
    t = T.peel(t)
    tg = tag(t)
    if tg == 'phi':
        return any(_user_index(v) for _, v in t[1])
    if tg == 'mcall':
        if t[2] == 'reset_index':
            kws = dict(t[4])
            drop = kws.get('drop', t[3][1] if len(t[3]) > 1 else C(False))
            return drop != C(True) and _user_index(t[1])
        if t[2] in ('set_index', 'rename_axis', 'set_axis', 'reindex'):
            return False            # the index is what the code makes it (judged by the label rules)
        return _user_index(t[1])
    if tg in ('mask', 'col', 'cols', 'rows', 'sub', 'upd', 'vals', 'cell', 'poscol'):
        return _user_index(t[1])
    if tg == 'call' and tag(t[1]) == 'g' and t[1][1] in ('copy.deepcopy', 'copy.copy') and t[2]:
        return _user_index(t[2][0])
    if tg in ('loopres',):
        return _user_index(t[3]) or _user_index(t[4])
    if tg == 'lphi':
        return True
    return tg == 'p'


def name_keyed_operations(ctx, rule='C10-R4'):
    """Operations that address columns *by name through the frame as a whole* (merge on=, sort_values by=, groupby)
    are ambiguous - pandas raises ValueError - when an index level bears the name of a column.  They may only be
    applied to frames whose index ampycloud made itself (reset_index(drop=True)), never to one that still carries the
    index of the caller's frame."""
    p = ctx.project
    f = p.func(INIT, rule)
    ctx.saw(f)

    def inline(q, d):
        cf = p.funcs.get(q)
        return q == 'ampycloud.utils.utils.check_data_consistency' or is_helper(p, q) or (
            cf is not None and cf.module.name in ('ampycloud.data', 'ampycloud.utils.utils') and cf.name.startswith('_')
            and not cf.name.startswith('__'))
    ex = Executor(p, inline=inline, max_depth=6)
    s = ex.run(f)
    n = 0
    seen = set()
    for e in s.events:
        if e.kind != 'call' or e.guard == T.FALSE:
            continue
        c = e.call
        frames = []
        if tag(c) == 'mcall' and c[2] in NAME_KEYED_METHODS:
            keyed = bool(c[3]) or any(k in ('on', 'by', 'left_on', 'right_on', 'columns', 'index', 'values') for k, _ in c[4])
            if not keyed:
                continue
            frames = [c[1]] + ([c[3][0]] if c[2] in ('merge', 'join', 'merge_asof') and c[3] else [])
            what = f'.{c[2]}()'
        elif tag(c) == 'call' and tag(c[1]) == 'g' and c[1][1] in NAME_KEYED_CALLS:
            frames = list(c[2][:2])
            what = c[1][1]
        else:
            continue
        key = (T.key(c), e.func.qname)
        if key in seen:
            continue
        seen.add(key)
        n += 1
        bad = [fr for fr in frames if _user_index(fr)]
        ctx.check(not bad, rule, e.func.qname, e.node, e.loc(),
                  f'{what} addresses columns by name on a frame that still carries the caller\'s index '
                  f'({T.show(bad[0], maxlen=100) if bad else ""}): when the caller\'s index is named like one of the columns '
                  "(data.index.name = 'ceilo', data.set_index('dt', drop=False)) pandas refuses with \"'ceilo' is both an "
                  'index level and a column label, which is ambiguous\" - a ValueError that depends on the index alone',
                  instance=f'{e.func.qname.split(".")[-1]}: {what} on a frame with an index of ampycloud\'s own making')
    ctx.floor(rule, 'name-keyed frame operations before / at the construction of the chunk data', n, 1)


# ---------------------------------------------------------------------------------------------- C10-R5
POSITION_MAKERS = {'numpy.flatnonzero', 'numpy.where', 'numpy.nonzero', 'numpy.argwhere', 'numpy.arange', 'builtins.range',
                   'numpy.argsort', 'numpy.argmax', 'numpy.argmin', 'numpy.searchsorted', 'numpy.lexsort',
                   'numpy.argpartition', 'numpy.nanargmax', 'numpy.nanargmin', 'numpy.digitize'}
POSITION_METHODS = {'argsort', 'argmax', 'argmin', 'nonzero', 'searchsorted'}


def _positional(t) -> bool:
    """t is made of row *positions* (0 .. n-1 in the current row order)."""
    t = T.peel(t)
    tg = tag(t)
    if tg == 'call' and tag(t[1]) == 'g' and t[1][1] in POSITION_MAKERS:
        return True
    if tg == 'mcall' and t[2] in POSITION_METHODS:
        return True
    if tg in ('mask', 'sub', 'vals'):
        return _positional(t[1])
    if tg == 'phi':
        return any(_positional(v) for _, v in t[1])
    if tg in ('list', 'tuple'):
        return any(_positional(x) for x in t[1])
    if tg == 'call' and tag(t[1]) == 'g' and t[1][1] in ('builtins.list', 'numpy.array', 'numpy.asarray', 'builtins.set') \
            and t[2]:
        return _positional(t[2][0])
    return False


def _labels_of_data(t) -> bool:
    t = T.peel(t)
    if tag(t) == 'index':
        return T.root(t[1]) == DATA
    if tag(t) in ('mask', 'sub', 'vals'):
        return _labels_of_data(t[1])
    if tag(t) == 'mcall' and t[2] in ('to_numpy', 'tolist', 'to_list', 'copy'):
        return _labels_of_data(t[1])
    return False


def _range_indexed(t) -> bool:
    """t is a Series / frame built from bare values without an index: its labels are 0 .. n-1 (positions)."""
    if tag(t) != 'call' or tag(t[1]) != 'g' or t[1][1] not in ('pandas.Series', 'pandas.DataFrame') or not t[2]:
        return False
    if any(k in ('index',) for k, _ in t[3]) or len(t[2]) > 1:
        return False
    a = T.peel(t[2][0])
    return tag(a) in ('lc', 'list', 'tuple', 'vals') or (tag(a) == 'mcall' and a[2] in ('to_numpy', 'tolist', 'to_list')) \
        or (tag(a) == 'call' and tag(a[1]) == 'g' and a[1][1].startswith('numpy.'))


def positions_are_not_labels(ctx, rule='C10-R5'):
    """The chunk data has unique labels but not 0..n-1 in row order (rows are dropped after the index was reset, frames
    are re-sorted): row positions must not be used where labels are expected, nor labels as positions."""
    fx = effects(ctx)
    p = ctx.project
    n = 0
    for cq in ('ampycloud.data.AbstractChunk', 'ampycloud.data.CeiloChunk'):
        k = p.klass(cq, rule)
        for nm, m in sorted(k.methods.items()):
            ctx.saw(m)
            bad = []
            from sa.anchors import is_helper
            # own statements, and - for the documented entry points - their helpers expanded at the call sites, where
            # the parameters of a helper are what the caller passes (a mask over the chunk data, say)
            events = list(fx.own_events(m.qname))
            if not is_helper(p, m.qname):
                events += [e for e in fx.deep_events(m.qname) if e.ctx]
            for e in events:
                for nm2, v in fx.terms_of(e):
                    if nm2 == 'guard' or v is None:
                        continue
                    for x in T.walk(v):
                        tg = tag(x)
                        if tg == 'mcall' and x[2] == 'isin' and tag(T.peel(x[1])) == 'index' and \
                                T.root(T.peel(x[1])[1]) == DATA and x[3] and _positional(x[3][0]):
                            bad.append((e, x, 'row positions are looked up among the index labels'))
                        elif tg == 'rows' and x[2] == 'lab' and T.root(x[1]) == DATA and _positional(x[3]):
                            bad.append((e, x, 'row positions are used as labels in .loc[...]'))
                        elif tg == 'cell' and x[2][0] == 'lab' and T.root(x[1]) == DATA and _positional(x[2][1]):
                            bad.append((e, x, 'a row position is used as a label in .at / .loc'))
                        elif tg == 'mcall' and x[2] == 'drop' and T.root(x[1]) == DATA and x[3] and _positional(x[3][0]):
                            bad.append((e, x, 'row positions are dropped as labels'))
                        elif tg == 'rows' and x[2] == 'pos' and T.root(x[1]) == DATA and _labels_of_data(x[3]):
                            bad.append((e, x, 'index labels are used as row positions in .iloc[...]'))
                        elif tg in ('and', 'or', 'bin'):
                            ops = list(x[1]) if tg in ('and', 'or') else [x[2], x[3]]
                            fresh = [o for o in ops if _range_indexed(T.peel(o))]
                            others = [o for o in ops if not _range_indexed(T.peel(o)) and
                                      any(tag(y) == 'col' and T.root(y[1]) == DATA for y in T.walk(o))
                                      and not T.find(o, _range_indexed)]
                            if fresh and others:
                                bad.append((e, x, 'a Series built from bare values (labels 0 .. n-1) is combined, label by '
                                                  'label, with one that carries the labels of the chunk data'))
                        elif tg == 'mask' and T.root(x[1]) == DATA and _range_indexed(T.peel(x[2])):
                            bad.append((e, x, 'a Series built from bare values (labels 0 .. n-1) selects rows of the chunk '
                                              'data by label'))
            n += 1
            seen = set()
            for e, x, why in bad:
                key = (T.key(x), why)
                if key in seen:
                    continue
                seen.add(key)
                ctx.violation(rule, m.qname, e.node, e.loc(),
                              f'{why}: {T.show(x, maxlen=140)} - the labels of the chunk data are unique but not consecutive '
                              '(hits above MSA + buffer are dropped after the index was reset), so position k and label k '
                              'are different rows as soon as something was cropped',
                              instance=f'{m.qname}: positions and labels not mixed')
            if not bad:
                ctx.ok(rule, f'{m.qname}: row positions and index labels are not mixed', m.loc())
    ctx.floor(rule, 'chunk methods scanned', n, 20)
