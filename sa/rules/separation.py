"""C06: minimum separation of groups and of layers split from one group."""
from __future__ import annotations

from sa.anchors import is_helper
from sa import terms as T
from sa.core import AnalysisError
from sa.rules.baseheight import cbh_sites, _phi_leaves
from sa.rules.common import effects, call_head, guard_literals
from sa.rules.tablemodel import table_history, sets_of, is_cast, DATA, SELF
from sa.symexec import Executor
from sa.terms import tag, C

MERGE = 'ampycloud.data.CeiloChunk._merge_close_groups'
FG = 'ampycloud.data.CeiloChunk.find_groups'
NCOMP = 'ampycloud.layer.ncomp_from_gmm'
LIMS = ('prm', ('MIN_SEP_LIMS',))
VALS = ('prm', ('MIN_SEP_VALS',))
_MINSEP_CACHE: dict = {}


def minsep_routine(ctx, rule):
    """(qualified name, binding of its parameters, name of the height parameter) of the routine that looks the minimum
    separation up: the function of the package whose body reads MIN_SEP_VALS - found by what it does, not by its name
    or by where it lives (method of the chunk, module-level function fed the parameters by its callers)."""
    import ast
    p = ctx.project
    key = id(p)
    if key in _MINSEP_CACHE:
        return _MINSEP_CACHE[key]
    cands = []
    for q, f in p.funcs.items():
        if any(isinstance(n, ast.Subscript) and isinstance(n.slice, ast.Constant) and n.slice.value == 'MIN_SEP_VALS'
               for n in ast.walk(f.node)):
            cands.append(q)
    if len(cands) > 1:
        # the look-up split over several helpers (a table check and the look-up proper): the routine is the function that
        # calls them all
        callers = []
        for q, f in p.funcs.items():
            called = set()
            for n in ast.walk(f.node):
                if isinstance(n, ast.Call):
                    cq = p.resolve_static(f.module, n.func, f)
                    if cq in cands:
                        called.add(cq)
            if called == set(cands):
                callers.append(q)
        if len(callers) == 1:
            cands = callers
    # a candidate without a height to look up (a helper that checks the two tables and hands them back) is not the look-up:
    # the routine is the function that calls it
    for _ in range(3):
        if len(cands) != 1:
            break
        cf = p.funcs[cands[0]]
        a0 = cf.node.args
        own_params = [x.arg for x in a0.posonlyargs + a0.args + a0.kwonlyargs if x.arg not in ('self', 'cls')]
        if own_params:
            break
        callers = []
        for q, f in p.funcs.items():
            for n in ast.walk(f.node):
                if not isinstance(n, ast.Call):
                    continue
                hit = p.resolve_static(f.module, n.func, f) == cands[0] or (
                    isinstance(n.func, ast.Attribute) and isinstance(n.func.value, ast.Name) and n.func.value.id in ('self', 'cls')
                    and n.func.attr == cf.name and f.cls is not None and cf.cls is not None and
                    p.find_method(f.cls, cf.name) is cf)
                if hit and q not in callers:
                    callers.append(q)
        if len(callers) != 1:
            break
        cands = callers
    if len(cands) != 1:
        raise AnalysisError(rule, f'the routine that looks the minimum separation up (subscripts the parameters with '
                                  f"'MIN_SEP_VALS') was found {len(cands)} times: {cands}")
    q = cands[0]
    f = p.funcs[q]
    a = f.node.args
    params = [x.arg for x in a.posonlyargs + a.args + a.kwonlyargs]
    binding = {}
    if f.cls is None or f.is_static:
        # a plain function: the parameters reach it as arguments; they must be the chunk's own (every call site)
        fx = effects(ctx)
        seen = []
        for cq, e in fx.all_events():
            for t in T.walk(e.value) if e.value is not None else ():
                pass
            for nm, v in fx.terms_of(e):
                for x in T.find(v, lambda y: tag(y) == 'call' and (y[1] == ('g', q) or (
                        y[1] == ('g', 'functools.partial') and y[2] and y[2][0] == ('g', q)))):
                    args = x[2][1:] if x[1] == ('g', 'functools.partial') else x[2]
                    b = dict(zip(params, args))
                    b.update({k: v2 for k, v2 in x[3] if k})
                    seen.append(b)
        for b in seen:
            for k, v in b.items():
                if T.contains(v, lambda y: tag(y) == 'attr' and y[2] == '_prms') or tag(v) == 'prm':
                    binding.setdefault(k, v)
    height = [x for x in params if x not in binding and x not in ('self', 'cls')]
    _MINSEP_CACHE[key] = (q, binding, height[0] if height else None)
    return _MINSEP_CACHE[key]


def is_minsep_callable(ctx, t, rule) -> bool:
    """Is term t (handed to .apply / called) the separation routine with the chunk's own parameters?"""
    q, binding, _ = minsep_routine(ctx, rule)
    if tag(t) == 'bound' and t[1] == SELF and t[2] == q:
        return True
    if t == ('g', q) and not binding:
        return True
    if tag(t) == 'call' and t[1] == ('g', 'functools.partial') and t[2] and t[2][0] == ('g', q):
        return all(T.contains(v, lambda y: tag(y) == 'attr' and y[2] == '_prms') or tag(v) == 'prm'
                   for k, v in t[3] if k)
    if tag(t) == 'lam' and T.contains(t[2], lambda y: tag(y) == 'call' and y[1] == ('g', q)):
        return True
    return False


ORDER_KEEPING = {'flatten', 'ravel', 'reshape', 'copy', 'squeeze', 'astype', 'to_numpy'}


def _time_ordered_source(v):
    """Follow a value array back to the frame it was selected from; (ok, description)."""
    t = v
    for _ in range(40):
        tg = tag(t)
        if tg in ('vals',):
            t = t[1]
        elif tg == 'mcall' and t[2] in ORDER_KEEPING:
            t = t[1]
        elif tg == 'call' and t[1] in (('g', 'copy.deepcopy'), ('g', 'numpy.array'), ('g', 'numpy.asarray'),
                                       ('g', 'copy.copy')) and t[2]:
            t = t[2][0]
        elif tg == 'mask':
            t = t[1]          # selecting by a boolean mask keeps the order of the rows
        elif tg == 'col' and t[2] == 'height':
            t = t[1]
        elif tg == 'cols':
            t = t[1]
        elif tg == 'phi':
            res = [_time_ordered_source(x) for _, x in t[1]]
            bad = [r for r in res if not r[0]]
            return (False, bad[0][1]) if bad else res[0]
        else:
            break
    if tag(t) == 'mcall' and t[2] == 'sort_values':
        by = t[3][0] if t[3] else dict(t[4]).get('by')
        asc = dict(t[4]).get('ascending', T.TRUE)
        src = t[1]
        if by in (C('dt'), ('list', (C('dt'),))) and asc == T.TRUE and tag(src) in ('mask', 'rows', 'col', 'cols') \
                and T.root(src) == DATA:
            return False, ("a selection that is sorted by 'dt' on its own: hits with equal time stamps (several "
                           "ceilometers, multi-hit measurements) are then ordered differently from one selection to "
                           "another (the sort is not stable), so the look-back cuts through ties differently when a "
                           "separation is decided and when the base is reported; every site must select from the "
                           "whole chunk data sorted by 'dt'")
        if by in (C('dt'), ('list', (C('dt'),))) and asc == T.TRUE and src == DATA:
            return True, "selected from the chunk data sorted by ascending 'dt'"
        return False, f'sorted by {T.show(by)} (ascending={T.show(asc)})'
    return False, f'taken from {T.show(t, maxlen=120)} in whatever order the rows of the input frame have'


def time_ordered_arguments(ctx, rule='C06-R1'):
    """calc_base_height documents: values ordered in time, most recent last. Every call site must hand it
    heights selected from the time-sorted data."""
    sites = cbh_sites(ctx, rule)
    seen = set()
    for label, e, vals, lb, hp, ex in sites:
        key = (e.func.qname, e.node.lineno, label.split(':')[0])
        if key in seen:
            continue
        seen.add(key)
        ok, why = _time_ordered_source(vals)
        ctx.sample({'calc_base_height argument (' + label.split(':')[0] + ')': T.show(vals, maxlen=300)})
        ctx.check(ok, rule, e.func.qname, e.node, e.loc(),
                  f'heights handed to calc_base_height ({label.split(":")[0]}) are {why}: with a look-back below 100 % '
                  'the "most recent" hits are then an arbitrary subset, and the base used to decide whether '
                  'components are far enough apart differs from the base finally reported',
                  facts={'argument': T.show(vals, maxlen=400)},
                  instance=f'{label.split(":")[0]} -> {e.func.qname.split(".")[-1]}: time-ordered heights')
    ctx.floor(rule, 'calc_base_height call sites (inlined)', len(seen), 3)
    # sibling agreement: every site orders the hits by the very same call (an unstable sort at one site and a stable one
    # at another put hits with equal time stamps in different orders, and the look-back cuts through the ties differently)
    how = {}
    for label, e, vals, lb, hp, ex in sites:
        for x in T.walk(vals):
            if tag(x) == 'mcall' and x[2] == 'sort_values' and x[1] == DATA:
                how.setdefault((x[3], x[4]), (label, e))
    if len(how) > 1:
        (a, (la, ea)), (b, (lb_, eb)) = list(how.items())[:2]
        ctx.violation(rule, eb.func.qname, eb.node, eb.loc(),
                      f"the hits are time-ordered by sort_values{T.show(('tuple', a[0]), maxlen=40)} {dict(a[1]) and T.show(('dict', tuple((C(k), v) for k, v in a[1])), maxlen=60)} "
                      f"for {la.split(':')[0]} and by sort_values{T.show(('tuple', b[0]), maxlen=40)} "
                      f"{dict(b[1]) and T.show(('dict', tuple((C(k), v) for k, v in b[1])), maxlen=60)} for {lb_.split(':')[0]}: "
                      'hits sharing a time stamp are ordered differently at the two sites, so with a look-back below 100 % the '
                      'separation is decided on other hits than the ones the reported base is computed from',
                      instance='all base-height sites order the hits by the same sort call')
    else:
        ctx.ok(rule, 'all base-height sites order the hits by the same sort call')


def same_selection_at_decision_time(ctx, rule='C06-R2'):
    """Every base height that enters a group-separation decision is computed on the same selection
    (exclusion filter, fall-back) as the base finally reported by metarize('groups')."""
    p = ctx.project
    m, ex, s, st, ops = table_history(ctx, 'groups', rule)
    hb = [o for o in sets_of(ops, 'height_base') if not is_cast(o)]
    if len(hb) != 1:
        raise AnalysisError(rule, 'report-time base height store not unique')
    rep = hb[0]
    rep_member = T.mk_cmp('==', ('col', DATA, 'group_id'), ('lv', rep.loops[-1], 'elem'))
    rep_sel = _selection_of(rep.value)
    if rep_sel is None:
        ctx.violation(rule, m.qname, m.node.name, m.loc(),
                      f'the reported group base is {T.show(rep.value, maxlen=160)}: not the base-height routine '
                      'applied to a row selection of the time-sorted chunk data, so it cannot be compared with the '
                      'bases used when groups are merged', instance='report-time base = calc_base_height(sorted data[sel])')
        return
    rep_norm = T.subst(rep_sel, {rep_member: ('MEMBER',)})
    k = p.klass('ampycloud.data.CeiloChunk', rule)
    mg = p.find_method(k, '_merge_close_groups')
    if mg is None:
        raise AnalysisError(rule, 'anchor method vanished: _merge_close_groups')
    ctx.saw(mg)
    ex2 = Executor(p, inline=lambda q, d: (q.startswith('ampycloud.data.') or is_helper(p, q)) and not q.endswith('.metarize'), max_depth=6)
    s2 = ex2.run(mg)
    n = 0
    for e in s2.events:
        if e.kind != 'store' or e.guard == T.FALSE:
            continue
        col = None
        if tag(e.target) == 'cell':
            col = e.target[3]
        if col != 'height_base':
            continue
        n += 1
        sel = _selection_of(e.value)
        if sel is None:
            ctx.violation(rule, e.func.qname, e.node, e.loc(),
                          f'a group base used for the separation decision is {T.show(e.value, maxlen=120)}: not computed '
                          'by the base-height routine', instance=f'{e.where().split(" ")[0]}: decision-time base')
            continue
        members = [x for x in T.walk(sel) if tag(x) == 'cmp' and x[1] == 'eq' and ('col', DATA, 'group_id') in (x[2], x[3])]
        norm = T.subst(sel, {mm: ('MEMBER',) for mm in members})
        ctx.check(norm == rep_norm, rule, e.func.qname, e.node, e.loc(),
                  'the base height used to decide whether groups are too close is computed on '
                  f'{T.show(norm, maxlen=160)}, the base finally reported on {T.show(rep_norm, maxlen=160)}: with '
                  'ceilometers excluded from the base-height calculation the two differ, and groups closer than the '
                  'minimum separation are reported',
                  facts={'decision': T.show(norm, maxlen=600), 'report': T.show(rep_norm, maxlen=600)},
                  instance=f'{e.where().split(" ")[0]}: decision-time selection = report-time selection')
    ctx.floor(rule, 'stores of decision-time group bases', n, 2)


def _selection_of(v):
    from sa.rules.baseheight import CBH
    if tag(v) == 'phi':
        # the routine applied to one selection or another, chosen by early returns: the routine applied to the choice
        from sa.rules.tablemodel import _phi_alternatives
        v = T.anti_unify(_phi_alternatives(v))
    if tag(v) == 'call' and v[1] == ('g', CBH) and v[2]:
        vals = T.peel(v[2][0])
        if tag(vals) == 'col' and tag(vals[1]) == 'mask':
            return vals[1][2]
    return None


def merge_strictness(ctx, rule='C06-R3'):
    fx = effects(ctx)
    p = ctx.project
    f = p.func(MERGE, rule)
    ctx.saw(f)
    s = fx.deep(MERGE)[1]
    loops = [l for l in fx.deep_loops(MERGE).values() if l.func.qname == MERGE and l.kind == 'while']
    ctx.check(len(loops) == 1, rule, MERGE, f.node.name, f.loc(), f'{len(loops)} while loops in the merge routine',
              instance='merge: one iterative loop')
    if len(loops) != 1:
        return
    lp = loops[0]
    cond = lp.cond
    # "while some adjacent pair is too close": len(prelim[indexer]) > 0 in any spelling (also `while True` + break)
    from sa.rules.common import nonempty_arg
    sel = nonempty_arg(cond) if cond is not None else None
    idx = None
    if sel is not None:
        m = [x for x in T.walk(sel) if tag(x) in ('mask', 'sub')]
        idx = m[0][2] if m else None
    ok = sel is not None
    ctx.check(ok and idx is not None, rule, MERGE, lp.node, f.loc(lp.node),
              f'the merge loop runs while {T.show(cond, maxlen=120)}: expected "some adjacent pair is too close"',
              instance='merge: loop while some pair is too close')
    # the indexer (at entry and recomputed in the body, or computed afresh in every iteration) is
    # (diff(height_base) < min_sep(height_base)).fillna(False)
    cands = []
    if tag(idx) == 'lphi':
        init = lp.init.get(idx[2])
        body = lp.carried.get(idx[2], (None, None))[1]
        cands = [('at loop entry', init), ('recomputed after a merge', body)]
    elif idx is not None:
        cands = [('computed in every iteration', idx)]
    ctx.floor(rule, 'too-close tests of the merge loop', len(cands), 1)
    for label, t in cands:
        good = False
        why = T.show(t, maxlen=160)
        if tag(t) == 'mcall' and t[2] == 'fillna' and t[3] == (T.FALSE,):
            c = t[1]
            if tag(c) == 'cmp' and c[1] == 'lt':
                d, ms = c[2], c[3]
                ok_d = tag(d) == 'mcall' and d[2] == 'diff' and tag(d[1]) == 'col' and d[1][2] == 'height_base'
                ok_m = tag(ms) == 'mcall' and ms[2] == 'apply' and tag(ms[1]) == 'col' and ms[1][2] == 'height_base' \
                    and len(ms[3]) == 1 and is_minsep_callable(ctx, ms[3][0], rule) and d[1][1] == ms[1][1] if ok_d else False
                good = ok_d and ok_m
            elif tag(c) == 'cmp' and c[1] == 'le':
                why = 'pairs exactly the minimum separation apart are merged (<= instead of <)'
        ctx.check(good, rule, MERGE, lp.node, f.loc(lp.node),
                  f'too-close test {label}: {why}; expected diff(height_base) < min_sep(base of the upper group), with '
                  'missing values (first row) counted as not too close',
                  instance=f'merge: strict "<" against the separation of the upper group ({label})')
    # bases are sorted ascending with a gap-free index before diff() is taken; the index is re-made
    # gap-free after every drop inside the loop (judged on the derivation of the local table, so that
    # in-place calls and re-binding chains are the same thing)
    from sa.rules.tablemodel import flatten
    tbl = None
    for nm, (init_v, body_v) in lp.carried.items():
        if any(o.kind == 'call' and o.name == 'drop' for o in flatten(body_v, stop_at_lphi=True)):
            tbl = ('loopres', lp.id, nm, init_v, body_v)
    ok_s = ok_r = ok_loop = False
    if tbl is not None:
        before = flatten(tbl[3])                      # newest first
        names = [o.name for o in before if o.kind == 'call']
        for i, o in enumerate(before):
            if o.kind == 'call' and o.name == 'sort_values':
                by = o.args[0] if o.args else dict(o.kws).get('by')
                ok_s = by == C('height_base') and dict(o.kws).get('ascending', T.TRUE) == T.TRUE
                later = [x for x in before[:i] if x.kind == 'call']
                ok_r = any(x.name == 'reset_index' and dict(x.kws).get('drop') == T.TRUE for x in later) and \
                    not any(x.name in ('sort_values', 'sample', 'drop', 'filter') for x in later)
                break
        body = flatten(tbl[4], stop_at_lphi=True)
        for i, o in enumerate(body):
            if o.kind == 'call' and o.name == 'drop':
                ok_loop = any(x.kind == 'call' and x.name == 'reset_index' and dict(x.kws).get('drop') == T.TRUE
                              for x in body[:i])
    ctx.check(ok_s and ok_r, rule, MERGE, f.node.name, f.loc(), 'preliminary groups are not sorted by ascending base '
              '(and re-indexed) before adjacent differences are taken', instance='merge: groups sorted by base first')
    ctx.check(ok_loop, rule, MERGE, f.node.name, f.loc(),
              'the index is not reset after a group is dropped inside the loop (idx - 1 would address the wrong row)',
              instance='merge: index gaps removed after each drop')
    # sibling: the layer re-merge uses the same strictness
    nf = p.func(NCOMP, rule)
    evs = fx.deep_events(NCOMP)
    merges = [e for e in evs if e.kind == 'store' and e.loops and tag(e.target) == 'mask']
    ctx.floor(rule, 'component re-merge stores', len(merges), 1)
    for e in merges:
        lits = guard_literals(e.guard)
        ms = ('p', 'min_sep')
        is_strict = lambda l: tag(l) == 'cmp' and l[1] == 'lt' and l[3] == ms and tag(l[2]) == 'lv'      # noqa: E731
        strict = any(is_strict(l) for l in lits)
        # ... and under nothing else that looks at the distance: a tolerance (`and not np.isclose(delta, min_sep)`) leaves
        # components a hair less than min_sep apart as separate layers
        extra = [l for l in lits if not is_strict(l) and T.contains(l, lambda x: x == ms) and
                 T.contains(l, lambda x: tag(x) == 'lv')]
        strict = strict and not extra
        ctx.check(strict, rule, NCOMP, e.node, e.loc(),
                  f'mixture components are re-merged under {T.show(e.guard, maxlen=160)}: expected "delta < min_sep" '
                  '(components exactly min_sep apart stay separate, as groups do)',
                  instance='layers: components merged iff delta < min_sep (same strictness as groups)')
    # the deltas are differences of the sorted component bases
    fl = [l for l in fx.deep_loops(NCOMP).values() if l.kind == 'enumerate' and not l.virtual]
    ok_it = any(tag(l.iter) == 'call' and l.iter[1] == ('g', 'numpy.diff') and l.iter[2] and
                tag(l.iter[2][0]) == 'call' and l.iter[2][0][1] == ('g', 'numpy.sort') for l in fl)
    ctx.check(ok_it, rule, NCOMP, nf.node.name, nf.loc(), 'component deltas are not differences of the sorted bases',
              instance='layers: deltas = diff(sort(component bases))')


def min_sep_lookup(ctx, rule='C06-R4'):
    fx = effects(ctx)
    p = ctx.project
    MINSEP, binding, hname = minsep_routine(ctx, rule)
    f = p.func(MINSEP, rule)
    ctx.saw(f)
    evs = fx.deep_events(MINSEP, binding)
    raises = [e for e in evs if e.kind == 'raise']
    want = T.lin_cmp(('cmp', 'ne', ('call', ('g', 'builtins.len'), (LIMS,), ()),
                      ('bin', '-', ('call', ('g', 'builtins.len'), (VALS,), ()), C(1))))
    ok = len(raises) == 1 and any(T.lin_cmp(l) == want for l in guard_literals(raises[0].guard))
    ctx.check(ok, rule, MINSEP, f.node.name, f.loc(),
              'no refusal when MIN_SEP_LIMS is not exactly one shorter than MIN_SEP_VALS (the lookup below could '
              'then index out of range)', instance='min_sep: lengths checked (AmpycloudError)')
    rets = [e for e in evs if e.kind == 'return']
    h = ('p', hname)
    rets = [r for r in rets if not r.ctx]
    lookup = rets[0].value if rets else None
    if tag(lookup) == 'sub' and tag(lookup[2]) == 'call' and dict(lookup[2][3]).get('side') == C('left'):
        # side='left' is NumPy's default
        lookup = ('sub', lookup[1], ('call', lookup[2][1], lookup[2][2], tuple(k for k in lookup[2][3] if k[0] != 'side')))
    good = len(rets) == 1 and lookup == ('sub', VALS, ('call', ('g', 'numpy.searchsorted'), (LIMS, h), ()))
    ctx.check(good, rule, MINSEP, f.node.name, f.loc(),
              f'min_sep = {T.show(rets[0].value, maxlen=120) if rets else None}: expected '
              'MIN_SEP_VALS[searchsorted(MIN_SEP_LIMS, height)]', instance='min_sep: bin looked up by searchsorted')
    if raises and rets:
        ctx.check(raises[0].seq < rets[0].seq, rule, MINSEP, f.node.name, f.loc(), 'length check after the lookup',
                  instance='min_sep: check precedes lookup')
    # callers pass the base of the (upper) set
    a_ = f.node.args
    params = [x.arg for x in a_.posonlyargs + a_.args + a_.kwonlyargs]
    nsites = 0
    for caller, e in fx.all_events():
        if e.kind != 'call' or call_head(e) != MINSEP:
            continue
        nsites += 1
        args = e.call[2]
        if len(args) + len(e.call[3]) < len(params) and params and params[0] in ('self', 'cls'):
            args = (None,) + tuple(args)          # the receiver is not among the recorded arguments
        b = dict(zip(params, args))
        b.update({k: v for k, v in e.call[3] if k})
        a = b.get(hname)
        ok = a is not None and T.contains(a, lambda x: (tag(x) == 'cell' and x[3] == 'height_base'))
        ctx.check(ok, rule, caller, e.node, e.loc(),
                  f'minimum separation looked up for {T.show(a, maxlen=100)}: expected a base height',
                  instance=f'{caller.split(".")[-1]}: separation bin chosen by base height')


def no_write_after_merge(ctx, rule='C06-R5'):
    fx = effects(ctx)
    p = ctx.project
    f = p.func(FG, rule)
    evs = fx.own_events(FG)
    mc = [e for e in evs if e.kind == 'call' and call_head(e) == MERGE]
    ctx.check(len(mc) == 1, rule, FG, f.node.name, f.loc(), f'_merge_close_groups is called {len(mc)} times by find_groups',
              instance='find_groups merges close groups once')
    if not mc:
        return
    # every completed find_groups() went through the merge: the call is made under no other condition than having got
    # that far (a merge skipped "because no slices overlap" leaves isolated thin decks closer than the separation)
    tail = [e for e in evs if e.seq > mc[0].seq and not e.loops and e.kind in ('call', 'store', 'assign', 'return')]
    done = tail[-1].guard if tail else mc[0].guard
    ctx.check(T.implies(done, mc[0].guard) is True, rule, FG, mc[0].node, mc[0].loc(),
              f'_merge_close_groups is only called under {T.show(mc[0].guard, maxlen=160)}: find_groups can complete '
              'without the groups having been brought the minimum separation apart',
              instance='find_groups: the merge is on every path to completion')
    later = [e for e in evs if e.seq > mc[0].seq and e.kind in ('store', 'aug', 'mutcall', 'del')
             and e.base is not None and T.root(e.base) == DATA]
    ctx.check(not later, rule, FG, later[0].node if later else f.node.name, f.loc(),
              'group ids are modified after the separation was enforced', instance='no write to group_id after the merge')
    met = [e for e in evs if e.kind == 'call' and call_head(e) == 'ampycloud.data.CeiloChunk.metarize'
           and e.seq > mc[0].seq]
    ctx.check(bool(met), rule, FG, f.node.name, f.loc(), 'groups are not metarized after the merge',
              instance='metarize(groups) follows the merge')


def remerge_bookkeeping(ctx, rule='C06-R6'):
    """Re-merging of mixture components that are closer than the minimum separation (layer.ncomp_from_gmm): merging
    the component at sorted position i+1 into the one at position i relabels its hits, lets later merges see the alias
    (chains of close components end up in one layer), and lowers the reported component count by exactly one - so that
    the count returned equals the number of distinct ids, and no two remaining components are closer than allowed."""
    fx = effects(ctx)
    p = ctx.project
    f = p.func(NCOMP, rule)
    ctx.saw(f)
    ex, s = fx.deep(NCOMP)
    loops = [l for l in ex.loops.values() if l.kind == 'enumerate' and not l.virtual and tag(T.peel(l.iter)) == 'call'
             and T.peel(l.iter)[1] == ('g', 'numpy.diff')]
    if len(loops) != 1:
        raise AnalysisError(rule, f'{len(loops)} loops over the differences of the sorted component bases')
    lp = loops[0]
    idx = ('lv', lp.id, 'idx')
    nxt = ('bin', '+', idx, C(1))
    bases = None
    it = T.peel(lp.iter)
    if it[2] and tag(it[2][0]) == 'call' and it[2][0][1] == ('g', 'numpy.sort') and it[2][0][2]:
        bases = it[2][0][2][0]
    stores = [e for e in s.events if e.kind == 'store' and e.loops and e.loops[-1] == lp.id]
    # which loop-carried arrays play the roles of "component id of every hit" and "component id at sorted position"?
    order_var = None
    for nm, (init, body) in lp.carried.items():
        i0 = T.peel(init)
        if tag(i0) == 'call' and i0[1] == ('g', 'numpy.argsort') and i0[2] and (bases is None or i0[2][0] == bases):
            order_var = nm
    order = ('lphi', lp.id, order_var) if order_var is not None else None
    if order is None:
        # not updated inside the loop: used as computed before it?
        direct = [x for e in stores for x in T.walk(e.target) if tag(T.peel(x)) == 'call' and T.peel(x)[1] == ('g', 'numpy.argsort')
                  and T.peel(x)[2] and (bases is None or T.peel(x)[2][0] == bases)]
        order = direct[0] if direct else None
    ctx.check(order is not None, rule, NCOMP, lp.node, f.loc(lp.node),
              'the component order is not the argsort of the very base heights whose sorted differences are walked through',
              instance='re-merge: position i of the sorted bases is component argsort(bases)[i]')
    if order is None:
        return
    at_i, at_n = ('sub', order, idx), ('sub', order, nxt)
    relabel = [e for e in stores if tag(e.target) == 'mask' and tag(e.target[1]) == 'lphi'
               and e.target[2] in (('cmp', 'eq', e.target[1], at_n), ('cmp', 'eq', at_n, e.target[1]))]
    ctx.check(len(relabel) == 1 and relabel[0].value == at_i, rule, NCOMP, (relabel[0].node if relabel else lp.node),
              (relabel[0].loc() if relabel else f.loc(lp.node)),
              'a merge does not give the hits of the component at sorted position i+1 the id of the component at position i '
              + (f'(it stores {T.show(relabel[0].value, maxlen=60)} under {T.show(relabel[0].target[2], maxlen=80)})'
                 if relabel else '(no such store in the loop)'),
              instance='re-merge: hits of component i+1 take the id of component i')
    alias = [e for e in stores if e.target == at_n]
    ctx.check(len(alias) == 1 and alias[0].value == at_i and (not relabel or alias[0].guard == relabel[0].guard)
              and (not relabel or alias[0].seq > relabel[0].seq), rule, NCOMP,
              (alias[0].node if alias else lp.node), (alias[0].loc() if alias else f.loc(lp.node)),
              'after a merge the id at sorted position i+1 is not replaced by the id at position i (under the same condition, '
              'after the relabelling): the next merge of a chain of close components would relabel hits that no longer carry '
              'that id, and the components stay apart',
              instance='re-merge: the alias is propagated for chains of close components')
    # the count goes down by exactly one per merge
    guard = relabel[0].guard if relabel else None
    counts = []
    for nm, (init, body) in lp.carried.items():
        me = ('lphi', lp.id, nm)
        alts = body[1] if tag(body) == 'phi' else ((T.TRUE, body),)
        dec = [(g, v) for g, v in alts if v == ('bin', '-', me, C(1)) or v == ('bin', '+', me, C(-1))]
        keep = [(g, v) for g, v in alts if v == me]
        if dec and len(dec) + len(keep) == len(alts):
            counts.append((nm, dec, keep))
            continue
        # the other bookkeeping: a tally of merges that starts at 0, goes up by one per merge, and is subtracted from the
        # count once the loop is over
        inc = [(g, v) for g, v in alts if v == ('bin', '+', me, C(1))]
        if inc and len(inc) + len(keep) == len(alts) and init == C(0) and T.contains(
                s.ret, lambda x: tag(x) == 'bin' and x[1] == '-' and tag(T.peel(x[3])) == 'loopres'
                and T.peel(x[3])[1] == lp.id and T.peel(x[3])[2] == nm):
            counts.append((nm, inc, keep))
    ok = False
    if len(counts) == 1 and guard is not None:
        nm, dec, keep = counts[0]
        own = [l for l in guard_literals(guard) if T.contains(l, lambda x: x == ('lv', lp.id, 'elem'))]
        # conditions under which the body is entered at all (a filtering generator / comprehension feeding the loop)
        # hold for everything in the body, the decrement included
        inloop = [e for e in s.events if e.loops and e.loops[-1] == lp.id]
        if inloop:
            entry = set(guard_literals(inloop[0].guard))
            for e in inloop:
                entry &= set(guard_literals(e.guard))
            own = [l for l in own if l not in entry]
        ok = len(dec) == 1 and all(l in guard_literals(dec[0][0]) or dec[0][0] == l for l in own) and \
            T.contains(s.ret, lambda x: tag(x) == 'loopres' and x[1] == lp.id and x[2] == nm)
    ctx.check(ok, rule, NCOMP, lp.node, f.loc(lp.node),
              'the number of components handed back is not lowered by exactly one for every merge (and only then): the '
              'count no longer equals the number of distinct component ids - a group reports k components and owns another '
              'number of layers', instance='re-merge: component count decremented once per merge')
