"""C18 (and C01-R7/R8, C03-R3, C04-R5): WMO conversions as tables and numeric kernels."""
from __future__ import annotations

from fractions import Fraction as F

from sa import kernel as K
from sa import terms as T
from sa.core import AnalysisError
from sa.rules.tables import decide_returns, summary
from sa.terms import tag, C

ERR = 'ampycloud.errors.AmpycloudError'
OKTA_TABLE = {0: 'NCD', 1: 'FEW', 2: 'FEW', 3: 'SCT', 4: 'SCT', 5: 'BKN', 6: 'BKN', 7: 'BKN', 8: 'OVC', 9: None}


def okta2code_table(ctx, rule='C18-R1'):
    p = ctx.project
    f = p.func('ampycloud.wmo.okta2code', rule)
    ctx.saw(f)
    prm = f.params[0]
    table = {}
    for v in range(-2, 12):
        kind, val = decide_returns(ctx, f, {prm: C(v)})
        if v in OKTA_TABLE:
            want = OKTA_TABLE[v]
            got = val[1] if kind == 'return' and T.is_const(val) else (kind, val)
            table[v] = got if kind == 'return' else f'raise {val}'
            ctx.check(kind == 'return' and T.is_const(val) and val[1] == want, rule, f.qname, f.node.name,
                      f.loc(), f'okta2code({v}) gives {got!r}, the WMO table says {want!r}',
                      instance=f'okta2code({v}) == {want!r}')
        else:
            table[v] = f'{kind} {val}'
            ctx.check(kind == 'raise' and val == ERR, rule, f.qname, f.node.name, f.loc(),
                      f'okta2code({v}) should refuse with AmpycloudError, got {kind} {val}',
                      instance=f'okta2code({v}) refused')
    for v in (2.0, 2.5, '3', None):
        kind, val = decide_returns(ctx, f, {prm: C(v)})
        ctx.check(kind == 'raise' and val == ERR, rule, f.qname, f.node.name, f.loc(),
                  f'okta2code({v!r}) (not an int) should refuse with AmpycloudError, got {kind} '
                  f'{T.show(val) if isinstance(val, tuple) else val}', instance=f'okta2code({v!r}) refused')
    ctx.tables['okta2code'] = {str(k): str(v) for k, v in table.items()}
    ctx.sample({'okta2code decision table extracted from the if-chain': {str(k): str(v) for k, v in table.items()}})


def height2code_kernel(ctx, rule='C18-R2'):
    p = ctx.project
    f = p.func('ampycloud.wmo.height2code', rule)
    ctx.saw(f)
    ex, s = summary(ctx, f)
    var = ('p', f.params[0])
    k = K.Kernel(var, rule)
    # NaN -> ''
    nan_parts = k.ev(T.subst(s.ret, {var: ('g', 'numpy.nan')}), (F(0), True, F(0), True))
    ctx.check(len(nan_parts) == 1 and nan_parts[0][1] == ('str', ''), rule, f.qname, f.node.name, f.loc(),
              f'height2code(NaN) is {nan_parts[0][1] if nan_parts else None}, expected the empty string',
              instance="height2code(NaN) == ''")
    try:
        parts = k.ev(s.ret, (F(0), True, F(100000), False))
    except K.NestedRounding as err:
        ctx.violation(rule, f.qname, f.node.name, f.loc(),
                      f'the height goes through two roundings ({err.why}): the coded value is no longer the floor of '
                      'height/100 - rounding first can lift a base onto the next boundary and code it upward',
                      instance='height2code: a single floor, never a rounding first')
        return
    desc = K.describe(parts)
    ctx.tables['height2code_pieces'] = desc
    ctx.sample({'height2code as a piecewise function of the height on [0, 1e5)': desc})
    nums = []
    for pp, v in parts:
        where = K.show_piece(pp)
        if v[0] != 'fmt' or v[1][0] != 'num':
            ctx.violation(rule, f.qname, f.node.name, f.loc(), f'on {where} the result is not a formatted '
                          f'number: {v}', instance=f'height2code on {where}')
            continue
        n = v[1]
        nums.append((pp, n))
        _, kind, a, b, sc, off = n
        ctx.check(v[2] == '03', rule, f.qname, f.node.name, f.loc(),
                  f'on {where} the number is formatted with {v[2]!r}, not zero-padded to three digits',
                  instance=f'{where}: format 03')
        lo, _, hi, _ = K.value_range(n, pp)
        ctx.check(lo >= 0 and hi <= 999, rule, f.qname, f.node.name, f.loc(),
                  f'on {where} the coded number ranges over [{float(lo):g}, {float(hi):g}]: not three digits',
                  instance=f'{where}: 0 <= code <= 999')
        floor_like = kind == 'floor' and sc > 0
        exact = sc * a == F(1, 100) and sc * b + off == 0
        ctx.check(floor_like and exact, rule, f.qname, f.node.name, f.loc(),
                  f'on {where} the code is {desc[parts.index((pp, v))]["value"]}: not a floor of height/100 '
                  '(a round/ceil, or a different divisor, can code a base above the true one)',
                  instance=f'{where}: code*100 <= height (floor, never rounded up)')
    bad = K.monotone_violations(nums)
    ctx.check(not bad, rule, f.qname, f.node.name, f.loc(), f'coded height is not non-decreasing: {bad}',
              instance='height2code non-decreasing on [0, 1e5)')
    # resolution: 100 ft up to and including 10000 ft, 1000 ft above
    gran = [(pp, n[4]) for pp, n in nums]
    want = [((F(0), True, F(10000), True), F(1)), ((F(10000), False, F(100000), False), F(10))]
    same = len(gran) == 2 and [g for _, g in gran] == [F(1), F(10)] and gran[0][0][0] == 0 and \
        gran[0][0][2] == F(10000) == gran[1][0][0] and gran[1][0][2] == F(100000)
    # (at exactly 10000 ft both resolutions give 100, so the side the boundary belongs to is immaterial)
    ctx.check(same, rule, f.qname, f.node.name, f.loc(),
              'resolution pieces are ' + ', '.join(f'{K.show_piece(pp)}: {float(g) * 100:g} ft' for pp, g in gran)
              + '; expected [0, 10000]: 100 ft and (10000, 1e5): 1000 ft',
              instance='100 ft up to 10000 ft (included), 1000 ft above')


def perc2okta_kernel(ctx, rule='C18-R3'):
    p = ctx.project
    f = p.func('ampycloud.wmo.perc2okta', rule)
    ctx.saw(f)
    ex, s = summary(ctx, f)
    var = ('p', f.params[0])
    # "0 only for n = 0, 8 only for n = m" for every m: the edges are exact comparisons. A tolerance comparison
    # (isclose / allclose with a non-zero tolerance) of the percentage gives okta 0 to n = 1 and okta 8 to n = m - 1
    # once m is large enough for 100 / m to fall below the tolerance
    TOL = {'numpy.isclose', 'math.isclose', 'numpy.allclose'}
    seen_tol = set()
    for root in [s.ret] + [e.guard for e in s.events if e.kind == 'raise']:
        for x in T.walk(root):
            if tag(x) == 'call' and tag(x[1]) == 'g' and x[1][1] in TOL and x not in seen_tol and \
                    any(y == var for a in x[2] for y in T.walk(a)):
                seen_tol.add(x)
                kws = dict(x[3] or ())
                exact = all(nm in kws and T.is_const(kws[nm]) and kws[nm][1] == 0 for nm in ('rtol', 'atol')) \
                    if x[1][1] != 'math.isclose' else \
                    all(nm in kws and T.is_const(kws[nm]) and kws[nm][1] == 0 for nm in ('rel_tol',)) and \
                    ('abs_tol' not in kws or (T.is_const(kws['abs_tol']) and kws['abs_tol'][1] == 0))
                ctx.check(exact, rule, f.qname, f.node.name, f.loc(),
                          f'perc2okta decides on the percentage with a tolerance: {T.show(x, maxlen=140)} - with enough '
                          'measurements one hit (n = 1) is within the tolerance of 0 % and gets okta 0, n = m - 1 gets okta 8',
                          instance='perc2okta: the edges 0 % / 100 % are exact comparisons')
    k = K.Kernel(var, rule)
    raises = [e for e in s.events if e.kind == 'raise']        # wherever written (a validation helper, ...)
    ctx.check(len(raises) == 1, rule, f.qname, f.node.name, f.loc(),
              f'{len(raises)} raise statements instead of the single range refusal', instance='one refusal')
    if raises:
        r = raises[0]
        cls = r.value[1] if tag(r.value) == 'new' else None
        # for arrays the refusal concerns every element: not all(in range), never not any(in range)
        anys = [x for x in T.walk(r.guard) if tag(x) == 'call' and x[1] in (('g', 'numpy.any'), ('g', 'builtins.any'))]
        negated_any = [x for x in T.walk(r.guard) if tag(x) == 'not' and x[1] in anys]
        ctx.check(not negated_any, rule, f.qname, r.node, r.loc(),
                  'the range refusal is "no element is in range" (not np.any(...)): an array with one percentage in [0, 100] '
                  'and others outside is accepted', instance='perc2okta: every element must be in range')
        # reductions over the argument: for an array, min(val) < c says "some element is below c", max(val) > c "some
        # element is above c". The refusal must be "some element below 0 or some element above 100": decided on a grid of
        # (smallest, largest) element; for a scalar both reductions are the value itself (what the kernel looks at below)
        RED_MIN = {'numpy.min', 'numpy.amin', 'numpy.nanmin', 'builtins.min'}
        RED_MAX = {'numpy.max', 'numpy.amax', 'numpy.nanmax', 'builtins.max'}
        reds = {}
        for x in T.walk(r.guard):
            if tag(x) == 'call' and tag(x[1]) == 'g' and x[1][1] in RED_MIN | RED_MAX and x[2][:1] == (var,):
                reds[x] = 'min' if x[1][1] in RED_MIN else 'max'
            elif tag(x) == 'mcall' and x[1] == var and x[2] in ('min', 'max') and not x[3]:
                reds[x] = x[2]
        guard = r.guard
        if reds:
            def evalb(t, env):
                tg = tag(t)
                if tg == 'or':
                    return any(evalb(x, env) for x in t[1])
                if tg == 'and':
                    return all(evalb(x, env) for x in t[1])
                if tg == 'not':
                    return not evalb(t[1], env)
                if tg == 'cmp' and t[1] in ('lt', 'le', 'eq', 'ne'):
                    a, b = (env[x] if x in env else (x[1] if T.is_const(x) and isinstance(x[1], (int, float)) else None)
                            for x in (t[2], t[3]))
                    if a is None or b is None:
                        raise AnalysisError(rule, f'range refusal of perc2okta: {T.show(t, maxlen=100)} not understood')
                    return {'lt': a < b, 'le': a <= b, 'eq': a == b, 'ne': a != b}[t[1]]
                raise AnalysisError(rule, f'range refusal of perc2okta: {T.show(t, maxlen=100)} not understood')
            grid = [-5, -0.01, 0, 50, 100, 100.01, 120]
            bad = None
            for lo in grid:
                for hi in grid:
                    if lo > hi:
                        continue
                    got = evalb(guard, {x: (lo if kind == 'min' else hi) for x, kind in reds.items()})
                    if got != (lo < 0 or hi > 100) and bad is None:
                        bad = (lo, hi, got)
            ctx.check(bad is None, rule, f.qname, r.node, r.loc(),
                      (f'an array whose smallest element is {bad[0]} and largest {bad[1]} is '
                       f'{"refused" if bad[2] else "accepted"}: ' if bad else '') +
                      'every element must lie in [0, 100] (smallest < 0 or largest > 100 refuses)',
                      instance='perc2okta: array refusal = some element out of range')
            guard = T.subst(guard, {x: var for x in reds})
        parts = k.evb(guard, (-K.INF, False, K.INF, False))
        want = [((-K.INF, False, F(0), False), True), ((F(0), True, F(100), True), False),
                ((F(100), False, K.INF, False), True)]
        ctx.check(parts == want and cls == ERR, rule, f.qname, r.node, r.loc(),
                  'values are refused on ' + ', '.join(K.show_piece(pp) for pp, b in parts if b) +
                  f' with {cls}; expected AmpycloudError exactly outside [0, 100]',
                  instance='refuses exactly the values outside [0, 100]')
        first_other = min((e.seq for e in s.events if e.kind == 'store' or (e.kind == 'return' and not e.ctx)), default=1 << 60)
        ctx.check(r.seq < first_other, rule, f.qname, r.node, r.loc(), 'the range check is not the first thing done',
                  instance='range check first')
    try:
        parts = k.ev(s.ret, (F(0), True, F(100), True))
    except K.MaskMismatch as err:
        ctx.violation(rule, f.qname, f.node.name, f.loc(),
                      f'{err.why}: a masked assignment reads its values under another condition than the one it writes them '
                      'under - the oktas of some percentages are computed from other elements (or the shapes disagree)',
                      instance='perc2okta: masked assignments aligned')
        return
    except K.NestedRounding as err:
        ctx.violation(rule, f.qname, f.node.name, f.loc(),
                      f'the percentage goes through two roundings ({err.why}): bin edges move',
                      instance='perc2okta: one rounding per value')
        return
    desc = K.describe(parts)
    ctx.tables['perc2okta_pieces'] = desc
    ctx.sample({'perc2okta as a piecewise function of the percentage on [0, 100]': desc})
    nums = []
    for pp, v in parts:
        where = K.show_piece(pp)
        if v[0] != 'num':
            ctx.violation(rule, f.qname, f.node.name, f.loc(), f'non-numeric result {v} on {where}',
                          instance=f'perc2okta on {where}')
            continue
        nums.append((pp, v))
        lo, _, hi, _ = K.value_range(v, pp)
        ctx.check(K.is_integer_valued(v), rule, f.qname, f.node.name, f.loc(),
                  f'fractional oktas on {where}', instance=f'{where}: integer okta')
        is_zero = pp == (F(0), True, F(0), True)
        is_full = pp == (F(100), True, F(100), True)
        if is_zero:
            ctx.check(lo == hi == 0, rule, f.qname, f.node.name, f.loc(), f'perc2okta(0) in [{lo}, {hi}]',
                      instance='0 % -> 0 okta')
        elif is_full:
            ctx.check(lo == hi == 8, rule, f.qname, f.node.name, f.loc(), f'perc2okta(100) in [{lo}, {hi}]',
                      instance='100 % -> 8 oktas')
        else:
            ctx.check(lo >= 1 and hi <= 7, rule, f.qname, f.node.name, f.loc(),
                      f'on {where} the okta ranges over [{float(lo):g}, {float(hi):g}]: 0 must mean exactly 0 % '
                      'and 8 exactly 100 %', instance=f'{where}: 1 <= okta <= 7')
            # nearest okta clipped to 1..7
            near = K.num('round', F(8, 100), F(0))
            nlo, _, nhi, _ = K.value_range(near, pp)
            clo, chi = max(1, min(7, nlo)), max(1, min(7, nhi))
            if v[1] == 'round':
                ok = (v[2], v[3], v[4], v[5]) == (F(8, 100), F(0), F(1), F(0)) and nlo >= 1 and nhi <= 7
            else:
                ok = lo == hi == clo == chi
            ctx.check(ok, rule, f.qname, f.node.name, f.loc(),
                      f'on {where} the result is {desc[parts.index((pp, v))]["value"]} (range '
                      f'[{float(lo):g}, {float(hi):g}]), the nearest okta clipped to 1..7 ranges over '
                      f'[{clo}, {chi}]', instance=f'{where}: nearest okta clipped to 1..7')
    bad = K.monotone_violations(nums)
    ctx.check(not bad, rule, f.qname, f.node.name, f.loc(), f'perc2okta is not non-decreasing: {bad}',
              instance='perc2okta non-decreasing on [0, 100]')
    cover = parts and parts[0][0][0] == 0 and parts[-1][0][2] == 100
    ctx.check(bool(cover), rule, f.qname, f.node.name, f.loc(), 'result not defined on all of [0, 100]',
              instance='total on [0, 100]')
    ctx.assumptions += ['exact-real arithmetic (IEEE rounding within an ulp of a bin edge is outside the model); '
                        'which neighbour a tie (x.5 oktas) rounds to is left open by the property']
