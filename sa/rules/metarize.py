"""C01-R4/R5 (C04-R6): code assembly and ordering of the table in CeiloChunk.metarize."""
from __future__ import annotations

from sa import terms as T
from sa.core import AnalysisError
from sa.rules.tablemodel import table_history, sets_of, is_cast, WHICH
from sa.terms import tag, C

SIG = 'ampycloud.icao.significant_cloud'
ORDER_PRESERVING_CALLS = {'astype', 'copy', 'infer_objects', 'convert_dtypes', 'round'}
VALUE_COLS = ('okta', 'height_base', 'code')


def code_assembly(ctx, rule='C01-R4'):
    for which in WHICH:
        m, ex, s, st, ops = table_history(ctx, which, rule)
        codes = [o for o in sets_of(ops, 'code') if not is_cast(o)]
        ctx.check(len(codes) == 1, rule, m.qname, m.node.name, m.loc(),
                  f"metarize('{which}'): the code column is written {len(codes)} times (besides dtype casts)",
                  instance=f"metarize('{which}'): one assignment of the code")
        for o in codes:
            v = o.value
            row = o.row
            ok = False
            why = f'code := {T.show(v, maxlen=200)}'
            if tag(v) == 'bin' and v[1] == '+' and row is not None:
                a, b = v[2], v[3]
                oka = tag(a) == 'call' and a[1] == ('g', 'ampycloud.wmo.okta2code') and len(a[2]) == 1 \
                    and tag(a[2][0]) == 'cell' and a[2][0][3] == 'okta' and a[2][0][2][1] == row[1]
                okb = tag(b) == 'call' and b[1] == ('g', 'ampycloud.wmo.height2code') and len(b[2]) == 1 \
                    and tag(b[2][0]) == 'cell' and b[2][0][3] == 'height_base' and b[2][0][2][1] == row[1]
                ok = oka and okb
                if not oka:
                    why = f'prefix is {T.show(a, maxlen=120)}: not okta2code(okta of the same row)'
                elif not okb:
                    why = f'digits are {T.show(b, maxlen=120)}: not height2code(height_base of the same row)'
            ctx.check(ok, rule, m.qname, m.node.name, m.loc(),
                      f"metarize('{which}'): {why}; a group must be the WMO abbreviation of the okta followed by "
                      'the floored base height of the same set',
                      instance=f"metarize('{which}'): code[row] = okta2code(okta[row]) + height2code(base[row])")
            # the okta and base read are the final ones: no later write to those cells
            idx = ops.index(o)
            later = [x for x in ops[:idx] if x.kind == 'set' and x.col in ('okta', 'height_base') and not is_cast(x)]
            ctx.check(not later, rule, m.qname, m.node.name, m.loc(),
                      f"metarize('{which}'): okta / height_base are rewritten after the code was built from them",
                      instance=f"metarize('{which}'): code built from the final okta and base")


def sorted_before_significance(ctx, rule='C01-R5'):
    for which in WHICH:
        m, ex, s, st, ops = table_history(ctx, which, rule)
        sig = [o for o in sets_of(ops, 'significant') if not is_cast(o)]
        ctx.check(len(sig) == 1 and sig[0].row is None, rule, m.qname, m.node.name, m.loc(),
                  f"metarize('{which}'): the significant column is computed {len(sig)} times / not for all rows",
                  instance=f"metarize('{which}'): significance assigned once, to all rows")
        if len(sig) != 1:
            continue
        so = sig[0]
        i_sig = ops.index(so)
        v = so.value
        arg = T.peel(v[2][0]) if tag(v) == 'call' and v[1] == ('g', SIG) and v[2] else None
        ok = arg is not None and tag(arg) == 'col' and arg[2] == 'okta' and arg[1] == so.state
        ctx.check(ok, rule, m.qname, m.node.name, m.loc(),
                  f"metarize('{which}'): significant := {T.show(v, maxlen=160)}: not significant_cloud() of the "
                  'okta column of this very table in its current row order',
                  instance=f"metarize('{which}'): significant = significant_cloud(okta of the table as stored)")
        # nothing after the significance assessment may reorder rows or touch okta / base / code
        for o in ops[:i_sig]:
            bad = (o.kind == 'call' and o.name not in ORDER_PRESERVING_CALLS and o.name != 'reset_index') or \
                  (o.kind == 'set' and o.col in VALUE_COLS + ('significant',) and not is_cast(o))
            ctx.check(not bad, rule, m.qname, m.node.name, m.loc(),
                      f"metarize('{which}'): after significance was assessed the table is changed by "
                      f'{o.name or o.col}: flags no longer match the row order / values',
                      instance=f"metarize('{which}'): nothing reorders or rewrites after significance")
        # walking back from the significance: only order-preserving steps until the ascending sort by base
        found_sort = None
        saw_reset = False
        for o in ops[i_sig + 1:]:
            if o.kind == 'call' and o.name == 'sort_values':
                found_sort = o
                break
            if o.kind == 'call' and o.name == 'reset_index':
                drop = dict(o.kws).get('drop')
                saw_reset = saw_reset or drop == T.TRUE
                continue
            if o.kind == 'call' and o.name in ORDER_PRESERVING_CALLS:
                continue
            if o.kind == 'set' and (is_cast(o) or o.col not in VALUE_COLS):
                if o.row is None or o.col not in VALUE_COLS:
                    continue
            break
        ok = found_sort is not None
        ctx.check(ok, rule, m.qname, m.node.name, m.loc(),
                  f"metarize('{which}'): the table is not sorted (ascending, by base height) immediately before "
                  'significance is assessed: the 1-3-5 rule would run on layers in the wrong order',
                  instance=f"metarize('{which}'): sort_values before significance")
        if found_sort is not None:
            by = found_sort.args[0] if found_sort.args else dict(found_sort.kws).get('by')
            asc = dict(found_sort.kws).get('ascending', T.TRUE)
            by_ok = by in (C('height_base'), ('list', (C('height_base'),)))
            ctx.check(by_ok and asc == T.TRUE, rule, m.qname, m.node.name, m.loc(),
                      f"metarize('{which}'): sorted by {T.show(by)} ascending={T.show(asc)}: must be ascending base "
                      'height (lowest layer first)', instance=f"metarize('{which}'): sorted by ascending height_base")
            ctx.check(saw_reset, rule, m.qname, m.node.name, m.loc(),
                      f"metarize('{which}'): the index is not reset (drop=True) after sorting: positions used as "
                      'labels downstream (.at[ind, ...]) would address the wrong rows',
                      instance=f"metarize('{which}'): index reset after the sort")
            # every value column is final before the sort
            i_sort = ops.index(found_sort)
            for col in ('okta', 'height_base'):
                w = [o for o in ops[i_sort + 1:] if o.kind == 'set' and o.col == col and not is_cast(o)]
                ctx.check(bool(w), rule, m.qname, m.node.name, m.loc(),
                          f"metarize('{which}'): column {col} is not computed before the sort",
                          instance=f"metarize('{which}'): {col} computed before the sort")


def table_writers(ctx, rule='C01-R5'):
    """Outside metarize the only writers of table columns are find_groups (isolated) and find_layers (ncomp)."""
    from sa.rules.common import effects
    fx = effects(ctx)
    allowed = {('ampycloud.data.CeiloChunk.find_groups', '_slices', 'isolated'),
               ('ampycloud.data.CeiloChunk.find_layers', '_groups', 'ncomp')}
    n = 0
    for q, e in fx.all_events():
        if e.kind not in ('store', 'aug', 'del', 'mutcall') or e.base is None:
            continue
        r = T.root(e.base)
        if tag(r) == 'attr' and r[1] == ('p', 'self') and r[2] in ('_slices', '_groups', '_layers') \
                and 'plots' not in q:
            cols = {x[2] for x in T.walk(e.target) if tag(x) == 'col'} | \
                   {x[3] for x in T.walk(e.target) if tag(x) == 'cell'}
            n += 1
            ok = all((q, r[2], c) in allowed for c in cols) and bool(cols)
            ctx.check(ok, rule, q, e.node, e.loc(),
                      f'{q} writes {sorted(cols) or "rows"} of self.{r[2]} outside metarize(): the published table no '
                      'longer matches what significance / codes were computed from',
                      instance=f'{q}: writes {sorted(cols)} of {r[2]}')
    ctx.floor(rule, 'in-place writes to published tables (isolated, ncomp)', n, 4)
