"""C08: refusals are AmpycloudError only; third-party preconditions are established before the call."""
from __future__ import annotations

import ast

from sa import terms as T
from sa.core import AnalysisError
from sa.rules.common import effects, call_head, guard_literals, kwarg
from sa.symexec import Executor
from sa.terms import tag, C

ERR = 'ampycloud.errors.AmpycloudError'


def _raised_class(v):
    if tag(v) == 'new':
        return v[1]
    if tag(v) == 'call' and tag(v[1]) == 'g':
        return v[1][1]
    if tag(v) == 'g':
        return v[1]
    return None


def only_ampycloud_errors(ctx, rule='C08-R1'):
    fx = effects(ctx)
    p = ctx.project
    n = 0
    for q, e in fx.all_events():
        if e.kind == 'raise':
            n += 1
            cls = _raised_class(e.value)
            ok = cls == ERR or (cls in p.classes and any(
                k.qname == ERR for k in p.mro(p.classes[cls])))
            ctx.check(ok, rule, q, e.node, e.loc(),
                      f'raises {cls or T.show(e.value, maxlen=60)}: problems ampycloud refuses must be '
                      'signalled by AmpycloudError and no other exception type',
                      instance=f'{q}: {e.text()[:60]}')
        elif e.kind == 'except':
            ctx.violation(rule, q, e.node, e.loc(),
                          f'except {e.note or "<bare>"}: an exception handler converts or swallows errors '
                          '(none exists on the pinned tree; each must be reviewed)',
                          instance=f'{q}: except {e.note}')
    # a refusal centralised in a helper that always raises (`_refuse(msg)`) is one raise statement and many sites
    from sa.definite import Raisers
    sites = Raisers(p).call_sites()
    ctx.floor(rule, 'refusal sites in the package (raise statements and calls of helpers that always raise)',
              n + len(sites), 40)
    asserts = [(q, e) for q, e in fx.all_events() if e.kind == 'assert']
    ctx.tables['assert_statements (information only)'] = [f'{q} @ {e.loc()}: {e.text()[:80]}'
                                                          for q, e in asserts]


# ------------------------------------------------------------------ preconditions
def _size_terms(arg):
    """Terms that denote the number of rows of `arg`."""
    a = T.peel(arg)
    out = {('call', ('g', 'builtins.len'), (arg,), ()), ('call', ('g', 'builtins.len'), (a,), ())}
    masks = [x[2] for x in T.walk(a) if tag(x) == 'mask']
    for m in masks[:1]:
        out.add(('mcall', m, 'sum', (), ()))
        out.add(('call', ('g', 'numpy.sum'), (m,), ()))
        out.add(('call', ('g', 'numpy.count_nonzero'), (m,), ()))
        out.add(('sizeof-mask', m))
    return out, (masks[0] if masks else None)


def _is_size_of(term, sizes, mask) -> bool:
    if term in sizes:
        return True
    # len(anything[mask]) with the same mask
    if tag(term) == 'call' and term[1] == ('g', 'builtins.len') and term[2]:
        x = T.peel(term[2][0])
        if mask is not None:
            for y in T.walk(x):
                if tag(y) == 'mask' and y[2] == mask:
                    return True
                if tag(y) == 'mask' and tag(y[2]) == 'and' and mask in y[2][1] and False:
                    return True
    return False


def min_len_established(guard, arg, n) -> bool:
    sizes, mask = _size_terms(arg)
    for lit in guard_literals(guard):
        if tag(lit) != 'cmp':
            continue
        op, a, b = lit[1], lit[2], lit[3]
        if op == 'lt' and T.is_const(a) and isinstance(a[1], (int, float)) and a[1] >= n - 1 \
                and _is_size_of(b, sizes, mask):
            return True
        if op == 'le' and T.is_const(a) and isinstance(a[1], (int, float)) and a[1] >= n \
                and _is_size_of(b, sizes, mask):
            return True
    return False


def clustering_precondition(ctx, rule='C08-R2'):
    """AgglomerativeClustering.fit needs at least two samples."""
    fx = effects(ctx)
    p = ctx.project
    wrapper = 'ampycloud.cluster.agglomerative_cluster'
    umbrella = 'ampycloud.cluster.clusterize'
    wf = p.func(wrapper, rule)
    p.func(umbrella, rule)
    fits = [e for e in fx.deep_events(wrapper) if e.kind == 'call' and tag(e.call) == 'mcall'
            and e.call[2] in ('fit', 'fit_predict') and T.contains(
                e.call[1], lambda x: x == ('g', 'sklearn.cluster.AgglomerativeClustering'))]
    ctx.floor(rule, 'AgglomerativeClustering.fit call sites', len(fits), 1)
    wrapper_ok = all(min_len_established(e.guard, e.call[3][0], 2) for e in fits if e.call[3])
    if wrapper_ok and fits:
        for e in fits:
            ctx.ok(rule, 'agglomerative_cluster: fit() dominated by a sample-count guard (>= 2)', e.loc())
        return
    # otherwise every call site must establish it
    ex = Executor(p, inline=lambda q, d: q == umbrella)
    n_sites = 0
    for q in sorted(fx.summ):
        if q in (wrapper, umbrella):
            continue
        for e in fx.own_events(q):
            if e.kind != 'call' or call_head(e) not in (wrapper, umbrella):
                continue
            n_sites += 1
            arg = e.call[2][0] if e.call[2] else kwarg(e.call, 'data')
            ok = arg is not None and min_len_established(e.guard, arg, 2)
            ctx.check(ok, rule, q, e.node, e.loc(),
                      'agglomerative clustering is run on a selection that is not known to hold at least '
                      'two points: scikit-learn raises ValueError for a single sample (a bundle of '
                      'overlapping slices reduced to one hit), and neither this call site nor the '
                      'wrapper cluster.agglomerative_cluster guards against it',
                      facts={'argument': T.show(arg, maxlen=300), 'guard': T.show(e.guard, maxlen=300)},
                      instance=f'{q}: clusterize({T.show(arg, maxlen=50)})')
    ctx.floor(rule, 'call sites of the clustering wrapper', n_sites, 2)


def mixture_preconditions(ctx, rule='C08-R2'):
    fx = effects(ctx)
    p = ctx.project
    ncomp = 'ampycloud.layer.ncomp_from_gmm'
    f = p.func(ncomp, rule)
    evs = fx.deep_events(ncomp)
    # (d) np.min(res[res > 0]) needs two distinct values: early return on a single distinct value
    mins = [e for e in evs if e.kind == 'call' and call_head(e) in ('numpy.min', 'numpy.nanmin', 'builtins.min')
            and e.call[2] and tag(T.peel(e.call[2][0])) == 'mask']
    for e in mins:
        ok = any(tag(l) == 'cmp' and l[1] == 'ne' and T.contains(l, lambda x: tag(x) == 'call'
                 and x[1] == ('g', 'numpy.unique')) for l in guard_literals(e.guard)) or \
            any(tag(l) == 'cmp' and l[1] in ('lt', 'le') and T.contains(l, lambda x: tag(x) == 'call'
                and x[1] == ('g', 'numpy.unique')) for l in guard_literals(e.guard))
        ctx.check(ok, rule, ncomp, e.node, e.loc(),
                  'minimum over the positive height differences can be taken of an empty selection '
                  '(all values identical): no early return dominates it',
                  instance='ncomp_from_gmm: single-value early return dominates the resolution estimate')
    ctx.floor(rule, 'resolution estimate (min of positive differences)', len(mins), 1)
    # (k) unpopulated mixture components are ruled out before model selection (#119), which the
    #     sanity assert further down relies on
    best = [e for e in evs if e.kind == 'call' and call_head(e) == 'ampycloud.layer.best_gmm']
    ctx.floor(rule, 'best_gmm call in ncomp_from_gmm', len(best), 1)
    for e in best:
        a0 = e.call[2][0] if e.call[2] else None
        boosted = a0 is not None and T.contains(
            a0, lambda x: tag(x) == 'loopres' and T.contains(
                x, lambda y: tag(y) == 'cmp' and y[1] == 'lt' and T.contains(
                    y, lambda z: tag(z) == 'mcall' and z[2] == 'predict')))
        ctx.check(boosted, rule, ncomp, e.node, e.loc(),
                  'model selection runs on scores in which mixture models with unpopulated components '
                  'are not ruled out (#119): the component-count assert below can then fail',
                  instance='ncomp_from_gmm: unpopulated models ruled out before best_gmm')
    # component count never exceeds the number of distinct values
    gm = [e for e in evs if e.kind == 'call' and call_head(e) == 'sklearn.mixture.GaussianMixture']
    ctx.floor(rule, 'GaussianMixture constructions', len(gm), 1)
    # (b) call sites: at least 30 valid points and more than one distinct value, component cap
    sites = fx.deep_sites(ncomp)
    ctx.floor(rule, 'call sites of ncomp_from_gmm seen from the stage methods', len(sites), 1)
    for caller, e in sites:
        lits = guard_literals(e.guard)
        vals = e.call[2][0] if e.call[2] else None
        enough = any(tag(l) == 'cmp' and l[1] == 'le' and T.is_const(l[2]) and l[2][1] >= 2
                     and tag(l[3]) == 'call' and l[3][1] == ('g', 'builtins.len') for l in lits)
        ctx.check(enough, rule, caller, e.node, e.loc(),
                  'the mixture model is fitted without a dominating minimum-sample guard '
                  '(GaussianMixture needs at least as many samples as components; the code uses >= 30)',
                  facts={'guard': T.show(e.guard, maxlen=400)},
                  instance=f'{caller}: ncomp_from_gmm guarded by a minimum sample count')
        cap = kwarg(e.call, 'ncomp_max', 1)
        capped = cap is not None and T.contains(
            cap, lambda x: tag(x) == 'call' and x[1] in (('g', 'numpy.min'), ('g', 'builtins.min'))
            and T.contains(x, lambda y: tag(y) == 'call' and y[1] == ('g', 'numpy.unique')))
        handled_inside = any(
            x.kind == 'store' or x.kind == 'assign' for x in evs) and any(
            tag(l) == 'cmp' and l[1] == 'lt' and T.contains(l, lambda y: tag(y) == 'call'
                                                           and y[1] == ('g', 'numpy.unique'))
            for x in evs for l in guard_literals(x.guard))
        ctx.check(capped or handled_inside, rule, caller, e.node, e.loc(),
                  'the number of mixture components is not capped by the number of distinct heights (#78)',
                  instance=f'{caller}: components capped by distinct values')


REDUCERS = {'numpy.min', 'numpy.max', 'numpy.amin', 'numpy.amax', 'numpy.nanmin', 'numpy.nanmax', 'numpy.argmin',
            'numpy.argmax', 'builtins.min', 'builtins.max', 'numpy.ptp'}


def _array_root(t):
    """The array a derived array (sort / diff / reshape / mask / deepcopy of it) comes from."""
    for _ in range(40):
        tg = tag(t)
        if tg in ('mask', 'vals'):
            t = t[1]
        elif tg == 'sub' and tag(t[2]) in ('tuple', 'slice'):
            t = t[1]
        elif tg == 'mcall' and t[2] in ('reshape', 'flatten', 'ravel', 'copy', 'squeeze', 'astype'):
            t = t[1]
        elif tg == 'call' and t[1] in (('g', 'numpy.diff'), ('g', 'numpy.sort'), ('g', 'copy.deepcopy'),
                                       ('g', 'numpy.array'), ('g', 'numpy.asarray'), ('g', 'numpy.abs')) and t[2]:
            t = t[2][0]
        elif tg == 'phi':
            roots = {T.key(_array_root(v)) for _, v in t[1]}
            if len(roots) == 1:
                t = _array_root(t[1][0][1])
            else:
                return t
            return t
        else:
            return t
    return t


def _distinctness_evidence(guard, arr) -> bool:
    """Does the guard imply that `arr` holds at least two distinct values?
    (1 != len(unique(arr')))  or  (1 < len(unique(arr')))  with arr' derived from the same array."""
    root = _array_root(arr)
    for lit in guard_literals(guard):
        if tag(lit) != 'cmp' or lit[1] not in ('ne', 'lt', 'le'):
            continue
        a, b = lit[2], lit[3]
        if lit[1] == 'ne' and C(1) not in (a, b):
            continue
        if lit[1] == 'lt' and a != C(1):
            continue
        if lit[1] == 'le' and a != C(2):
            continue
        other = b if T.is_const(a) else a
        if tag(other) == 'call' and other[1] == ('g', 'builtins.len') and other[2]:
            u = T.peel(other[2][0])
            if tag(u) == 'call' and u[1] == ('g', 'numpy.unique') and u[2] and \
                    T.key(_array_root(u[2][0])) == T.key(root):
                return True
    return False


def empty_selection_reductions(ctx, rule='C08-R2'):
    """min / max / argmin ... over a boolean selection `x[cond]` raise ValueError when nothing is selected.
    Every such site on the processing path needs a dominating guard that makes the selection non-empty
    (for `d[d > 0]` with d = differences of an array: at least two distinct values in that array)."""
    from sa.rules.common import processing_path
    fx = effects(ctx)
    p = ctx.project
    reach = processing_path(fx)
    n = 0
    for q in sorted(reach):
        if p.funcs[q].module.name.startswith('ampycloud.plots'):
            continue
        for e in fx.own_events(q):
            if e.kind != 'call' or call_head(e) not in REDUCERS or not e.call[2]:
                continue
            arg = e.call[2][0]
            sel = T.peel(arg)
            if tag(sel) != 'mask':
                continue
            n += 1
            cond = sel[2]
            # d[d > 0]  (or d[0 < d]): positive differences of an array
            pos = tag(cond) == 'cmp' and cond[1] == 'lt' and cond[2] == C(0) and cond[3] == sel[1]
            ok = pos and _distinctness_evidence(e.guard, sel[1])
            ctx.check(ok, rule, q, e.node, e.loc(),
                      f'{call_head(e)} is taken over the selection {T.show(sel, maxlen=120)}, which can be empty '
                      '(e.g. all values / time stamps identical): NumPy then raises ValueError, not an AmpycloudError. '
                      'No dominating guard establishes that the underlying array holds two distinct values',
                      facts={'guard': T.show(e.guard, maxlen=300)},
                      instance=f'{q.split(".")[-1]}: reduction over a non-empty selection')
    ctx.floor(rule, 'reductions over boolean selections on the processing path', n, 1)


def fluffer_precondition(ctx, rule='C08-R2'):
    fx = effects(ctx)
    p = ctx.project
    q = 'ampycloud.fluffer.get_fluffiness'
    f = p.func(q, rule)
    low = [e for e in fx.deep_events(q) if e.kind == 'call' and (call_head(e) or '').endswith('.lowess')]
    ctx.floor(rule, 'LOWESS call sites', len(low), 1)
    pts = ('p', f.params[0])
    for e in low:
        lits = guard_literals(e.guard)
        ok = any(tag(l) == 'cmp' and ((l[1] == 'ne' and C(1) in (l[2], l[3])) or
                                      (l[1] in ('lt', 'le') and T.is_const(l[2]) and l[2][1] >= 1))
                 and T.contains(l, lambda x: x == ('call', ('g', 'builtins.len'), (pts,), ()))
                 for l in lits)
        ctx.check(ok, rule, q, e.node, e.loc(),
                  'LOWESS is run without the single-point early return dominating it',
                  instance='get_fluffiness: single point handled before LOWESS')
        # missing='none' requires NaN-free input, is_sorted=True requires the sort above
        is_sorted = kwarg(e.call, 'is_sorted')
        if is_sorted == T.TRUE:
            xs = e.call[2][1] if len(e.call[2]) > 1 else kwarg(e.call, 'exog')
            srt = T.contains(e.call, lambda x: tag(x) == 'mcall' and x[2] == 'argsort')
            ctx.check(srt, rule, q, e.node, e.loc(),
                      'LOWESS is told is_sorted=True but the points are not sorted by time first',
                      instance='get_fluffiness: points sorted before LOWESS(is_sorted=True)')


def percentile_precondition(ctx, rule='C08-R2'):
    fx = effects(ctx)
    p = ctx.project
    q = 'ampycloud.utils.utils.calc_base_height'
    p.func(q, rule)
    pct = [e for e in fx.deep_events(q) if e.kind == 'call' and call_head(e) in (
        'numpy.percentile', 'numpy.nanpercentile', 'numpy.quantile')]
    ctx.floor(rule, 'percentile call in calc_base_height', len(pct), 1)
    from sa.rules.common import nonempty_arg
    for e in pct:
        a = e.call[2][0]
        ok = any(nonempty_arg(l) == a for l in guard_literals(e.guard))
        ctx.check(ok, rule, q, e.node, e.loc(),
                  'the percentile is taken without the empty-selection refusal (AmpycloudError) dominating it '
                  '(the guard in front of it does not say "the selection is not empty")',
                  instance='calc_base_height: empty selection refused before the percentile')
    raises = [e for e in fx.deep_events(q) if e.kind == 'raise']
    ctx.check(bool(raises), rule, q, 'calc_base_height', p.funcs[q].loc(),
              'empty look-back selection is not refused', instance='calc_base_height: raises on empty')
    # ... and nothing else is refused: a selection with one or more values has a base height
    from sa.rules.typestate import _own_condition
    all_evs = fx.deep_events(q)
    for r in raises:
        own = _own_condition(r, all_evs)
        ctx.check(own is not None and nonempty_arg(T.mk_not(own)) is not None, rule, q, r.node, r.loc(),
                  f'calc_base_height refuses under {T.show(r.guard, maxlen=120)}: only an empty selection may be refused '
                  '(a layer made of a single hit has a base height)',
                  instance='calc_base_height: only the empty selection is refused')


def okta_is_python_int(ctx, rule='C08-R2'):
    """wmo.okta2code refuses anything that is not a Python int: every value stored in an okta cell must
    be one (a NumPy integer would make run() die with 'val should be of type int')."""
    from sa.rules.tablemodel import table_history, sets_of, is_cast
    m, ex, s, st, ops = table_history(ctx, 'layers', rule)
    stores = [o for o in sets_of(ops, 'okta') if not is_cast(o)]
    ctx.floor(rule, 'stores to the okta cell', len(stores), 3)
    for o in stores:
        v = o.value
        ok = (T.is_const(v) and type(v[1]) is int) or \
            (tag(v) == 'call' and v[1] == ('g', 'builtins.int'))
        ctx.check(ok, rule, m.qname, m.node.name, m.loc(),
                  f'okta cell receives {T.show(v, maxlen=80)}, which is not a Python int: okta2code() will '
                  'refuse it when the code is assembled', instance=f'okta := {T.show(v, maxlen=40)}')


def decorators_pass_through(ctx, rule='C08-R3'):
    """logger.log_func_call and plots.tools.set_mplstyle call the wrapped function exactly once on every
    non-refusing path and return its result; no handler."""
    fx = effects(ctx)
    p = ctx.project
    for inner, allow_raise in (('ampycloud.logger.log_func_call.<locals>.deco.<locals>.inner_deco', False),
                               ('ampycloud.plots.tools.set_mplstyle.<locals>.inner_deco', True)):
        f = p.func(inner, rule)
        ctx.saw(f)
        evs = fx.own_events(inner)
        calls = [e for e in evs if e.kind == 'call' and tag(e.call) == 'call' and e.call[1] == ('free', 'func')]
        good = len(calls) == 1 and calls[0].call[2] == (('star', ('p', '*args')),) and \
            calls[0].call[3] == ((None, ('p', '**kwargs')),)
        ctx.check(good, rule, inner, f.node.name, f.loc(),
                  f'the wrapped function is called {len(calls)} time(s) / not with (*args, **kwargs)',
                  instance=f'{inner.split(".<locals>")[0]}: func(*args, **kwargs) called once')
        if not calls:
            continue
        c = calls[0]
        rets = [e for e in evs if e.kind == 'return']
        ctx.check(len(rets) == 1 and rets[0].value == c.call and rets[0].guard == c.guard, rule, inner,
                  rets[0].node if rets else f.node.name, f.loc(),
                  'the result of the wrapped function is not what the wrapper returns',
                  instance=f'{inner.split(".<locals>")[0]}: returns the wrapped result')
        other_exits = [e for e in evs if e.kind == 'raise']
        if not allow_raise:
            ctx.check(not other_exits, rule, inner, f.node.name, f.loc(), 'the logging decorator can raise',
                      instance='log_func_call: no raise')
        # the call happens on every path that does not raise: its guard is the negation of the raise guards
        lits = guard_literals(c.guard)
        ctx.check(not c.loops and not [e for e in evs if e.kind == 'except'], rule, inner, c.node, c.loc(),
                  'wrapped call sits in a loop or under an exception handler',
                  instance=f'{inner.split(".<locals>")[0]}: straight-line call')


def chunk_never_empty(ctx, rule='C08-R2'):
    """The screening refuses an empty frame (AmpycloudError), and the stages rely on at least one row
    (`self.data.loc[:, 'slice_id'] = -1` raises ValueError on an empty frame).  Any row removal between the
    screening and the chunk must therefore be followed by an emptiness refusal of its own."""
    from sa.rules.tablemodel import flatten
    from sa.rules.typestate import _own_condition
    fx = effects(ctx)
    p = ctx.project
    q = 'ampycloud.data.AbstractChunk._cleanup_pdf'
    f = p.func(q, rule)
    evs = fx.deep_events(q)
    removers = []
    seen_calls = set()
    for e in evs:
        c = None
        if e.kind == 'assign' and tag(e.value) == 'mcall':
            c = e.value
        elif e.kind in ('mutcall', 'call'):
            c = e.call          # wherever the removal is written (statement, argument of a call, return value)
        if c is not None and tag(c) == 'mcall' and c[2] in ('drop', 'dropna', 'drop_duplicates', 'query', 'head', 'tail') \
                and dict(c[4]).get('axis', C(0)) in (C(0), C('index')) and 'columns' not in dict(c[4]):
            if T.key(c) in seen_calls:
                continue
            seen_calls.add(T.key(c))
            removers.append(e)
        if e.kind == 'assign' and tag(e.value) == 'mask' and tag(T.root(e.value)) in ('call', 'p', 'upd', 'mcall'):
            removers.append(e)
    refusals = []
    for e in evs:
        if e.kind != 'raise':
            continue
        cond = _own_condition(e, evs)
        if cond is not None and tag(cond) == 'cmp' and cond[1] in ('eq', 'le', 'lt') and T.contains(
                cond, lambda x: tag(x) == 'call' and x[1] == ('g', 'builtins.len')):
            refusals.append(e)
        if cond is not None and tag(cond) == 'attr' and cond[2] == 'empty':
            refusals.append(e)
    ctx.floor(rule, 'row removals in _cleanup_pdf', len(removers), 1)
    from sa.rules.flag import strip_updates
    for e in removers:
        ok = any(r.seq > e.seq for r in refusals)
        c = e.value if e.kind == 'assign' else e.call
        what = (c[3][0] if c[3] else dict(c[4]).get('labels', dict(c[4]).get('index'))) if tag(c) == 'mcall' else (c[2] if tag(c) == 'mask' else None)
        sel = [x for x in T.walk(what) if tag(x) == 'mask'] if what is not None else []
        cond = strip_updates(sel[0][2]) if sel else (strip_updates(what) if what is not None else None)
        if sel and cond is not None:
            cond = T.subst(cond, {strip_updates(sel[0][1]): ('g', 'DATA')})
        # the finding is identified by WHAT is removed (the normalised row condition), not by how the
        # statement is spelled, so that renaming a local does not turn a known finding into a new one
        key = 'row removal of ' + (T.show(cond, maxlen=250) if cond is not None else e.text()[:80])
        ctx.check(ok, rule, q, key, e.loc(),
                  'rows are removed from the screened frame and nothing refuses an empty result: a frame whose hits are '
                  'all of type >= 2 above MSA + MSA_HIT_BUFFER (legal: a type-2 hit without its type-1 hit is a '
                  'warning-only anomaly) is cropped to nothing, and find_slices() then dies with a pandas ValueError '
                  'instead of an AmpycloudError or a result',
                  instance='_cleanup_pdf: row removal followed by an emptiness refusal')


# ---------------------------------------------------------------------------------------------- C08-R4
_ACCESS_TAGS = ('mcall', 'attr', 'col', 'cols', 'sub', 'cell', 'rows', 'vals', 'index', 'columns', 'mask', 'poscol', 'acc')
_TRANSPARENT = {'copy.deepcopy', 'copy.copy'}
_NEEDS_A_FRAME = {'builtins.len', 'builtins.iter', 'builtins.list', 'builtins.sorted', 'builtins.sum', 'builtins.min',
                  'builtins.max', 'numpy.unique', 'numpy.asarray', 'numpy.array', 'builtins.enumerate', 'builtins.zip'}


def _origin(t):
    """The object a reference reaches into, looking through (deep) copies."""
    while True:
        t = T.root(T.peel(t))
        if tag(t) == 'call' and tag(t[1]) == 'g' and t[1][1] in _TRANSPARENT and t[2]:
            t = t[2][0]
            continue
        if tag(t) == 'mcall':
            t = t[1]
            continue
        return t


def _uses_as_frame(v, raw):
    """A sub-term that applies a method / attribute / subscript / len() to the raw input."""
    for x in T.walk(v):
        tg = tag(x)
        if tg in _ACCESS_TAGS and _origin(x) == raw and x != raw:
            return x
        if tg == 'call' and tag(x[1]) == 'g' and x[1][1] in _NEEDS_A_FRAME and x[2] and _origin(x[2][0]) == raw:
            return x
    return None


def raw_input_validated_first(ctx, rule='C08-R4'):
    """Whatever the caller hands over (None, a dict, a list of rows ...) is refused with AmpycloudError by the type
    test of check_data_consistency: until that test has passed, nothing may use the input as a DataFrame."""
    fx = effects(ctx)
    p = ctx.project
    CHK = 'ampycloud.utils.utils.check_data_consistency'
    n = 0
    # (a) inside the validator: the isinstance refusal comes before any use of the argument
    f = p.func(CHK, rule)
    ctx.saw(f)
    raw = ('p', f.params[0])
    evs = fx.deep_events(CHK)

    def is_type_refusal(e):
        return e.kind == 'raise' and T.contains(e.guard, lambda x: tag(x) == 'call' and x[1] == ('g', 'builtins.isinstance')
                                                and x[2] and _origin(x[2][0]) == raw
                                                and T.contains(x[2][1], lambda y: y == ('g', 'pandas.DataFrame')))
    refusals = [e for e in evs if is_type_refusal(e)]
    ctx.check(bool(refusals) and all(_raised_class(e.value) == 'ampycloud.errors.AmpycloudError' for e in refusals[:1]),
              rule, CHK, f.node.name, f.loc(),
              'check_data_consistency does not refuse a non-DataFrame argument with AmpycloudError',
              instance='check_data_consistency: isinstance(pdf, DataFrame) refusal')
    n += 1
    if refusals:
        seq = refusals[0].seq
        for e in evs:
            if e.seq >= seq or e.guard == T.FALSE:
                continue
            for nm in ('value', 'call', 'target'):
                v = getattr(e, nm)
                hit = _uses_as_frame(v, raw) if v is not None else None
                if hit is not None:
                    ctx.violation(rule, CHK, e.node, e.loc(),
                                  f'{T.show(hit, maxlen=120)} uses the argument as a DataFrame before its type has been '
                                  'checked: a None / dict / list input fails with AttributeError or TypeError instead of '
                                  'AmpycloudError', instance='check_data_consistency: nothing uses pdf before the type test')
                    break
    # (b) on the way to the validator: constructor and run() only pass the input along (or deep-copy it)
    for q in ('ampycloud.data.AbstractChunk.__init__', 'ampycloud.core.run'):
        f = p.func(q, rule)
        ctx.saw(f)
        if 'data' not in f.params:
            raise AnalysisError(rule, f'{q} has no parameter named data')
        raw = ('p', 'data')
        evs = fx.deep_events(q)
        gate = [e for e in evs if e.kind == 'call' and call_head(e) in (CHK, 'ampycloud.data.CeiloChunk') and
                any(_origin(a) == raw for a in e.call[2])]
        if not gate:
            raise AnalysisError(rule, f'{q}: the input never reaches check_data_consistency / CeiloChunk')
        seq = gate[0].seq
        bad = None
        for e in evs:
            if e.seq >= seq or e.guard == T.FALSE:
                continue
            for nm in ('value', 'call', 'target', 'guard'):
                v = getattr(e, nm)
                hit = _uses_as_frame(v, raw) if v is not None else None
                if hit is not None:
                    bad = (e, hit)
                    break
            if bad:
                break
        n += 1
        ctx.check(bad is None, rule, q, bad[0].node if bad else f.node.name, bad[0].loc() if bad else f.loc(),
                  (f'{T.show(bad[1], maxlen=120)} uses the raw input as a DataFrame before check_data_consistency has '
                   'tested its type: a None / dict / list input fails with AttributeError or TypeError instead of '
                   'AmpycloudError') if bad else '',
                  instance=f'{q.split(".")[-2]}.{q.split(".")[-1]}: the raw input is only passed along until validated')
    ctx.floor(rule, 'validation-order obligations', n, 3)


# ------------------------------------------------------------------ C08-R6 / C20-R7: definite assignment
def locals_bound_before_use(ctx, rule='C08-R6', scope='processing'):
    """Every read of a local name is reached with the name bound (E10).  A read that is not raises
    UnboundLocalError, which is neither a result nor an AmpycloudError.  Only reads left unbound on a path that
    needs no loop to run zero times and no handler to be entered are violations; the others are information."""
    from sa.definite import analyse
    fx = effects(ctx)
    p = ctx.project
    from sa.definite_cases import run_cases, CASES
    bad = run_cases(analyse)
    if bad:
        raise AnalysisError(rule, 'reference cases of the definite-assignment analysis fail: ' + '; '.join(bad[:3]))
    ctx.floor(rule, 'reference cases of the definite-assignment analysis (positive and negative controls)', len(CASES), 20)
    from sa.definite import unresolved_names, module_names
    from sa.definite_cases import run_unresolved, UNRESOLVED
    bad = run_unresolved(unresolved_names)
    if bad:
        raise AnalysisError(rule, 'reference cases of the unresolved-name analysis fail: ' + '; '.join(bad[:3]))
    ctx.floor(rule, 'reference cases of the unresolved-name analysis', len(UNRESOLVED), 6)
    if scope == 'processing':
        funcs = fx.reachable(fx.processing_entries())
    elif scope == 'params':
        funcs = fx.reachable(['ampycloud.core.set_prms', 'ampycloud.core.reset_prms', 'ampycloud.dynamic.get_default_prms',
                              'ampycloud.utils.utils.adjust_nested_dict', 'ampycloud.data.AbstractChunk.__init__'])
    else:
        funcs = {q for q in p.funcs if q.startswith('ampycloud.plots.')}
        funcs |= fx.reachable(sorted(funcs))
    modnames = {}

    def names_of(mod):
        if mod.name not in modnames:
            stars, external = set(), False
            for target in mod.star_imports:
                tm = p.modules.get(target)
                if tm is None:
                    external = True
                else:
                    stars |= module_names(tm.tree)
            modnames[mod.name] = None if external else module_names(mod.tree, stars)
        return modnames[mod.name]
    from sa.definite import Raisers
    never_returns = Raisers(p).never_returns
    reads, nfun, info = 0, 0, []
    for q in sorted(funcs):
        f = p.funcs.get(q)
        if f is None:
            continue
        nfun += 1
        ctx.saw(f)
        d = analyse(f.node, noreturn=lambda c, f=f: never_returns(f, c))
        reads += d.reads_checked
        for x in d.findings:
            loc = f'{f.module.relpath}:{x.node.lineno}'
            if x.grade == 'unbound':
                ctx.violation(rule, q, x.node, loc,
                              f"local name '{x.name}' is read here but is not bound on every path that reaches the "
                              'read (UnboundLocalError: neither a result nor an AmpycloudError)',
                              instance=f'{q}: {x.name} bound before use')
            else:
                info.append(f"{q} @ {loc}: '{x.name}' is bound only if a loop body ran / no handler was entered")
        # names no visible scope can bind (NameError): checked once per outermost function, nested ones included
        if f.parent is None and names_of(f.module) is not None:
            for nm in unresolved_names(f.node, set(), names_of(f.module)):
                ctx.violation(rule, q, nm, f'{f.module.relpath}:{nm.lineno}',
                              f"name '{nm.id}' is read here but nothing binds it: not a local, not a name of an enclosing "
                              f'function, not a name of module {f.module.name}, not a builtin (NameError: neither a result nor an '
                              'AmpycloudError)', instance=f'{q}: {nm.id} resolves')
    lo = {'processing': (30, 300), 'params': (5, 30)}.get(scope, (15, 150))
    ctx.floor(rule, f'functions analysed for definite assignment ({scope})', nfun, lo[0])
    ctx.floor(rule, f'reads of local names checked ({scope})', reads, lo[1])
    ctx.tables[f'{rule} loop-dependent bindings (information only)'] = info


# ------------------------------------------------------------------ C08-R7: regular expressions built from values
_PATTERN_FUNCS = {'re.compile': 0, 're.search': 0, 're.match': 0, 're.fullmatch': 0, 're.sub': 0, 're.subn': 0,
                  're.split': 0, 're.findall': 0, 're.finditer': 0}
_PATTERN_METHODS = {'contains', 'match', 'fullmatch', 'extract', 'extractall', 'findall', 'count'}   # of .str
_REGEX_BY_FLAG = {'replace', 'split', 'rsplit'}                                                # regex=True only


def patterns_are_literals(ctx, rule='C08-R7'):
    """A regular expression compiled from data or from a parameter (a ceilometer name, an entry of
    EXCLUDE_FOR_BASE_HEIGHT_CALC) raises re.error as soon as the value holds an unbalanced bracket - a legal name.
    Patterns on the processing path are literals, or are built from literals and re.escape()d values."""
    fx = effects(ctx)
    p = ctx.project
    funcs = fx.reachable(fx.processing_entries())
    n = 0

    def literal(t):
        t = T.peel(t)
        if T.is_const(t) and isinstance(t[1], str):
            return True
        if tag(t) == 'call' and t[1] == ('g', 're.escape'):
            return True
        if tag(t) == 'bin' and t[1] in ('+', '%'):
            return literal(t[2]) and (literal(t[3]) or t[1] == '%')
        if tag(t) == 'fstr':
            return all(literal(x) for x in t[1])
        if tag(t) == 'mcall' and t[2] == 'join' and T.is_const(t[1]) and t[3]:
            a = t[3][0]
            if tag(a) in ('list', 'tuple'):
                return all(literal(x) for x in a[1])
            if tag(a) == 'lc':
                return literal(a[2])
            return False
        if tag(t) == 'mcall' and t[2] == 'format':
            return False
        return False
    for q in sorted(funcs):
        for e in fx.own_events(q):
            if e.kind != 'call':
                continue
            c = e.call
            pat = None
            head = call_head(e) or ''
            if head in _PATTERN_FUNCS and tag(c) == 'call' and c[2]:
                pat = c[2][_PATTERN_FUNCS[head]]
            elif tag(c) == 'mcall' and (tag(c[1]) == 'attr' and c[1][2] == 'str' or T.contains(c[1], lambda x: tag(x) == 'attr' and x[2] == 'str')):
                kw = dict(c[4])
                if c[2] in _PATTERN_METHODS and (c[3] or 'pat' in kw) and kw.get('regex', T.TRUE) != T.FALSE:
                    pat = c[3][0] if c[3] else kw['pat']
                elif c[2] in _REGEX_BY_FLAG and kw.get('regex') == T.TRUE and (c[3] or 'pat' in kw):
                    pat = c[3][0] if c[3] else kw['pat']
            if pat is None:
                continue
            n += 1
            ctx.check(literal(pat), rule, q, e.node, e.loc(),
                      f'the regular expression {T.show(pat, maxlen=120)} is built from values that are not literals (and not '
                      're.escape()d): a name or parameter entry holding "(", "[", "*" or a backslash - all legal - raises '
                      're.error, which is neither a result nor an AmpycloudError',
                      instance=f'{q}: pattern of {head or c[2]} is a literal')
    ctx.tables[f'{rule} pattern-taking calls on the processing path'] = n
    # the matcher itself is exercised on every run (none on the pinned tree): a literal must pass, a value must not
    if not literal(C('a|b')) or literal(('p', 'names')) or not literal(('call', ('g', 're.escape'), (('p', 'x'),), ())):
        raise AnalysisError(rule, 'pattern-literal recogniser broken')
