"""C05: every hit is accounted for exactly once (id spaces, totality, sentinels, mask agreement)."""
from __future__ import annotations

from sa import terms as T
from sa.anchors import is_helper
from sa.core import AnalysisError
from sa.rules.common import effects, call_head, kwarg, guard_literals
from sa.terms import tag, C

SELF = ('p', 'self')
DATA = ('attr', SELF, '_data')
FL = 'ampycloud.data.CeiloChunk.find_layers'
FG = 'ampycloud.data.CeiloChunk.find_groups'
FS = 'ampycloud.data.CeiloChunk.find_slices'
NCOMP = 'ampycloud.layer.ncomp_from_gmm'
CLUST = 'ampycloud.cluster.clusterize'
GROUP_ID = ('col', DATA, 'group_id')


def _max_group_id_plus(t) -> bool:
    """Is t provably greater than every inherited (group) id:  max(group_id) + c (c >= 1), possibly inside
    max(..., const)?"""
    t0 = t
    while tag(t) == 'call' and t[1] in (('g', 'builtins.int'),) and t[2]:
        t = t[2][0]
    if tag(t) == 'call' and t[1] in (('g', 'builtins.max'), ('g', 'numpy.max'), ('g', 'numpy.maximum')):
        args = t[2][0][1] if len(t[2]) == 1 and tag(t[2][0]) in ('list', 'tuple') else t[2]
        return any(_max_group_id_plus(a) for a in args)
    lin, c = T.linear(t)
    if c >= 1 and len(lin) == 1:
        (atom, k), = lin.items()
        while tag(atom) == 'call' and atom[1] in (('g', 'builtins.int'), ('g', 'builtins.float')) and atom[2]:
            atom = atom[2][0]
        if k == 1 and _is_max_of_group_id(atom):
            return True
    return False


def _is_max_of_group_id(a) -> bool:
    if tag(a) == 'mcall' and a[2] == 'max' and T.peel(a[1]) == GROUP_ID:
        return True
    if tag(a) == 'call' and a[1] in (('g', 'numpy.max'), ('g', 'numpy.nanmax'), ('g', 'builtins.max')) and a[2] \
            and T.peel(a[2][0]) == GROUP_ID:
        return True
    return False


def id_spaces(ctx, rule='C05-R1'):
    fx = effects(ctx)
    p = ctx.project
    f = p.func(FL, rule)
    ctx.saw(f)
    evs = fx.deep_events(FL)
    gen = [e for e in evs if e.kind == 'store' and tag(e.target) == 'col' and e.target[2] == 'layer_id'
           and e.loops and not T.is_const(e.value)]
    ctx.floor(rule, 'stores of generated layer ids', len(gen), 1)
    for e in gen:
        v = e.value
        lin, c0 = T.linear(v)
        lv = [a for a in lin if tag(a) == 'lv' and a[1] == e.loops[-1]]
        sub = [a for a in lin if T.contains(a, lambda x: tag(x) == 'call' and x[1] == ('g', NCOMP))]
        ok_shape = len(lv) == 1 and len(sub) == 1 and lin[sub[0]] == 1
        ctx.check(ok_shape, rule, FL, e.node, e.loc(),
                  f'generated layer ids are {T.show(v, maxlen=160)}: not offset + stride * group index + component id',
                  instance='generated ids = offset + stride * index + component')
        if not ok_shape:
            continue
        stride = lin[lv[0]]
        ctx.sample({'generated layer ids': T.show(v, maxlen=300)})
        # K: cap on the number of components
        calls = [x for x in T.walk(sub[0]) if tag(x) == 'call' and x[1] == ('g', NCOMP)]
        cap = kwarg(calls[0], 'ncomp_max', 1) if calls else None
        K = None
        if cap is not None:
            for x in T.walk(cap):
                if tag(x) == 'call' and x[1] in (('g', 'numpy.min'), ('g', 'builtins.min')) and x[2]:
                    items = x[2][0][1] if tag(x[2][0]) in ('list', 'tuple') else x[2]
                    consts = [i[1] for i in items if T.is_const(i) and isinstance(i[1], int)]
                    if consts:
                        K = min(consts)
            if T.is_const(cap) and isinstance(cap[1], int):
                K = cap[1]
        if cap is None:
            df = p.func(NCOMP, rule)
            from sa.rules.common import param_default
            import ast
            d = param_default(df, 'ncomp_max')
            K = d.value if isinstance(d, ast.Constant) else None
        ctx.check(K is not None and isinstance(stride, int) and K <= stride, rule, FL, e.node, e.loc(),
                  f'component ids range over [0, {K}) but consecutive groups are only {stride} apart: ids of '
                  'different groups can coincide', facts={'stride': stride, 'K': K},
                  instance=f'stride {stride} >= number of components {K} (injective in (group, component))')
        # offset: everything else
        rest = {a: k for a, k in lin.items() if a not in (lv[0], sub[0])}
        off = C(c0)
        for a, k in rest.items():
            off = T.mk_bin('+', off, a if k == 1 else T.mk_bin('*', C(k), a))
        disjoint = any(_max_group_id_plus(a) for a in rest) or _max_group_id_plus(off)
        ctx.check(disjoint, rule, FL, e.node, e.loc(),
                  f'generated layer ids start at {T.show(off, maxlen=100)}, inherited ids are group ids = slice labels '
                  'in [0, n_slices): nothing keeps the two ranges apart, so with more than that many slices a '
                  'generated id equals the id of an unsplit group and one reported layer spans two groups',
                  facts={'offset': T.show(off, maxlen=200), 'stride': stride, 'K': K},
                  instance='generated ids disjoint from inherited group ids')
        # R5: written under group_id == this group's id, the very rows that were fed to the mixture model
        tgt_mask = e.target[1][2] if tag(e.target[1]) == 'mask' else None
        if tag(e.target[1]) == 'rows' and tag(e.target[1][3]) == 'index':
            inner = [x for x in T.walk(e.target[1][3][1]) if tag(x) == 'mask']
            tgt_mask = inner[0][2] if inner else None
        fed = calls[0][2][0] if calls and calls[0][2] else None
        fed_src = T.peel(fed) if fed is not None else None
        fed_mask = None
        for x in T.walk(fed_src) if fed_src is not None else []:
            if tag(x) == 'mask' and T.root(x[1]) == DATA:
                fed_mask = x[2]
                break
        grp = tag(tgt_mask) == 'cmp' and tgt_mask[1] == 'eq' and GROUP_ID in (tgt_mask[2], tgt_mask[3])
        ctx.check(bool(grp), 'C05-R5', FL, e.node, e.loc(),
                  f'sub-layer ids are written under {T.show(tgt_mask, maxlen=120)}: not "group_id == id of this group" '
                  '(a layer must lie inside exactly one group)', instance='layer ids written inside one group')
        same = fed_mask is not None and (fed_mask == tgt_mask)
        by_index = tag(e.target[1]) == 'rows' and fed_src is not None
        if not same and tag(e.target[1]) == 'rows':
            # labels of the (re-ordered) selection that was fed: .loc[selection.index, 'layer_id']
            sel = e.target[1][3]
            same = tag(sel) == 'index' and fed_src is not None and T.contains(fed_src, lambda x: x == sel[1])
        ctx.check(same, 'C05-R4', FL, e.node, e.loc(),
                  'the rows that receive the component labels are not the rows whose heights were fed to the '
                  f'mixture model (fed: {T.show(fed_mask, maxlen=100)}, written: {T.show(tgt_mask, maxlen=100)})',
                  instance='layers: labels written back to the rows that were clustered')


def totality(ctx, rule='C05-R2'):
    """Each stage fills every still-null id from the parent stage's id, for all rows."""
    fx = effects(ctx)
    p = ctx.project
    for q, col, parent in ((FG, 'group_id', 'slice_id'), (FL, 'layer_id', 'group_id')):
        f = p.func(q, rule)
        evs = fx.deep_events(q)
        fills = [e for e in evs if e.kind == 'store' and not e.loops and tag(e.target) == 'col'
                 and e.target[2] == col and tag(e.target[1]) == 'mask']
        good = False
        for e in fills:
            m = e.target[1][2]
            isna = tag(m) == 'mcall' and m[2] in ('isna', 'isnull') and T.peel(m[1]) == ('col', DATA, col)
            v = T.peel(e.value)
            same = v == ('col', T.mk_mask(DATA, m), parent)
            if isna and same:
                good = True
                # it is the last write to the column before metarize
                def relabel(x):
                    # data.loc[data[col] == a, col] = b : rows that have an id keep having one
                    tm = x.target[1][2] if tag(x.target) == 'col' and tag(x.target[1]) == 'mask' else None
                    return tag(tm) == 'cmp' and tm[1] == 'eq' and ('col', DATA, col) in (tm[2], tm[3])
                later = [x for x in evs if x.seq > e.seq and x.kind == 'store' and T.contains(
                    x.target, lambda y: tag(y) == 'col' and y[2] == col) and T.root(x.base) == DATA
                    and not relabel(x)]
                ctx.check(not later, rule, q, e.node, e.loc(), f'{col} is written again after the fill from {parent}',
                          instance=f'{q.split(".")[-1]}: fill is the last write to {col}')
        ctx.check(good, rule, q, f.node.name, f.loc(),
                  f'{q.split(".")[-1]}: hits without a {col} are not given their {parent} (rows where {col} is still '
                  'null must inherit the parent id, so that every hit stays accounted for)',
                  instance=f'{q.split(".")[-1]}: null {col} := {parent}')
    # slices: reset to -1 for all rows, integer dtype
    evs = fx.deep_events(FS)
    resets = [e for e in evs if e.kind == 'store' and e.target == ('col', DATA, 'slice_id') and e.value == C(-1)]
    f = p.func(FS, rule)
    ctx.check(bool(resets), rule, FS, f.node.name, f.loc(), 'slice ids are not reset to -1 for all rows first',
              instance='find_slices: slice_id := -1 for all rows')
    # ... and every valid hit gets a slice id whatever the number n of valid hits: the stores to slice_id under the
    # "valid" mask are guarded by conditions on n that together hold for every n >= 1 (decided by cases n = 1, 2, 3)
    valid = None
    labelled = []
    for e in evs:
        if e.kind != 'store' or not resets or e.seq <= resets[0].seq:
            continue
        tgt = e.target
        colname = tgt[2][0] if tag(tgt) == 'cols' and len(tgt[2]) == 1 else (tgt[2] if tag(tgt) == 'col' else None)
        if colname == 'slice_id' and tag(tgt[1]) in ('mask', 'rows') and T.root(tgt) == DATA and e.value != C(-1):
            labelled.append(e)
    ctx.floor(rule, 'stores of slice labels to the valid hits', len(labelled), 1)
    if labelled:
        def count_terms(g):
            # the number of valid hits, in any spelling (len(valids[valids]), valids.sum(), ...)
            return [x for x in T.walk(g) if (tag(x) == 'call' and x[1] == ('g', 'builtins.len')) or
                    (tag(x) in ('mcall', 'call') and T.count_cond(x) is not None)]
        counts = {}
        for e in labelled:
            for c in count_terms(e.guard):
                counts[c] = counts.get(c, 0) + 1
        n_term = max(counts, key=counts.get) if counts else None
        missing = []
        for n in (1, 2, 3, 50):
            ok = False
            for e in labelled:
                g = T.subst(e.guard, {n_term: C(n)}) if n_term is not None else e.guard
                entry = T.subst(resets[0].guard, {n_term: C(n)}) if n_term is not None else resets[0].guard
                if g != T.FALSE and T.implies(entry, g) is True:
                    ok = True
            if not ok:
                missing.append(n)
        ctx.check(not missing, rule, FS, labelled[0].node, labelled[0].loc(),
                  f'with {missing[0] if missing else ""} valid hit(s) no slice label is written: a hit with a valid height '
                  'keeps slice_id = -1 and belongs to no slice, group or layer',
                  instance='find_slices: valid hits labelled for every count of valid hits >= 1')


def sentinels(ctx, rule='C05-R3'):
    """-1 means "no set": counters keep ids >= 0, the table builder removes -1, both from the same column."""
    fx = effects(ctx)
    p = ctx.project
    k = p.klass('ampycloud.data.CeiloChunk', rule)
    for which in ('slices', 'groups', 'layers'):
        col = ('col', DATA, which[:-1] + '_id')
        m = p.find_method(k, f'n_{which}')
        if m is None:
            raise AnalysisError(rule, f'anchor property vanished: n_{which}')
        ret = fx.deep(m.qname)[1].ret
        want = ('call', ('g', 'builtins.len'), (('call', ('g', 'numpy.unique'),
                                                 (('col', T.mk_mask(DATA, ('cmp', 'le', C(0), col)), which[:-1] + '_id'),), ()),), ())
        alts = [v for _, v in ret[1]] if tag(ret) == 'phi' else [ret]
        ok = T.NONE in alts and any(T.peel(a) == want or a == want for a in alts)
        ctx.check(ok, rule, m.qname, m.node.name, m.loc(),
                  f'n_{which} = {T.show(ret, maxlen=200)}: expected None while the id column is absent, else the number '
                  'of distinct ids >= 0', instance=f'n_{which} counts distinct ids >= 0')
    g = p.find_method(k, '_get_cluster_ids')
    met = p.find_method(k, 'metarize')
    if met is None:
        raise AnalysisError(rule, 'anchor method vanished: metarize')
    for which in ('slices', 'groups', 'layers'):
        col = ('col', DATA, which[:-1] + '_id')
        uq = ('call', ('g', 'numpy.unique'), (col,), ())
        want = ('call', ('g', 'numpy.delete'), (uq, ('call', ('g', 'numpy.where'), (T.mk_cmp('==', uq, C(-1)),), ())), ())
        alt = T.mk_mask(uq, T.mk_cmp('!=', uq, C(-1)))
        alt2 = T.mk_mask(uq, ('cmp', 'le', C(0), uq))
        if g is not None:
            s = fx.deep(g.qname, {'which': C(which)})[1]
            ctx.check(s.ret in (want, alt, alt2), rule, g.qname, g.node.name, g.loc(),
                      f"_get_cluster_ids('{which}') = {T.show(s.ret, maxlen=200)}: expected the distinct ids of column "
                      f'{which[:-1]}_id without the sentinel -1', instance=f"_get_cluster_ids('{which}'): distinct ids minus -1")
            continue
        # no separate helper: the enumeration the table builder walks through, wherever it is computed
        ex, s = fx.deep(met.qname, {'which': C(which)})
        its = [T.peel(l.iter) for l in ex.loops.values() if l.iter is not None and
               T.contains(l.iter, lambda x: x == uq)]
        ctx.check(bool(its) and all(it in (want, alt, alt2) for it in its), rule, met.qname, met.node.name, met.loc(),
                  f"metarize('{which}') builds its rows from {T.show(its[0], maxlen=200) if its else None}: expected the "
                  f'distinct ids of column {which[:-1]}_id without the sentinel -1',
                  instance=f"metarize('{which}'): rows = distinct ids minus -1")


def write_back_masks(ctx, rule='C05-R4'):
    """Labels returned by the clustering are written to exactly the rows that were fed to it."""
    fx = effects(ctx)
    p = ctx.project
    # ---- slices
    f = p.func(FS, rule)
    evs = fx.deep_events(FS)
    cl = [e for e in evs if e.kind == 'call' and call_head(e) == CLUST]
    ctx.floor(rule, 'clustering call in find_slices', len(cl), 1)
    for e in cl:
        fed = T.peel(e.call[2][0])
        fm = [x for x in T.walk(fed) if tag(x) == 'mask']
        fed_mask = fm[0][2] if fm else None
        fed_frame = fm[0][1] if fm else None
        ok_fed = tag(fed_mask) == 'mcall' and fed_mask[2] == 'notna' and tag(fed_mask[1]) == 'col' \
            and fed_mask[1][2] == 'height' and tag(fed_mask[1][1]) == 'call' and \
            fed_mask[1][1][1] == ('g', 'ampycloud.data.CeiloChunk.data_rescaled') and fed_mask[1][1] == fed_frame
        ctx.check(ok_fed, rule, FS, e.node, e.loc(),
                  f'slicing feeds {T.show(fed, maxlen=160)}: expected the (dt, height) of the rescaled copy where '
                  'its height is not NaN', instance='slices: clustering fed with the valid rows of the rescaled copy')
        wr = [x for x in evs if x.kind == 'store' and x.seq > e.seq and T.contains(x.value, lambda y: y == e.call)]
        ctx.check(len(wr) == 1, rule, FS, e.node, e.loc(), f'cluster labels are stored {len(wr)} times',
                  instance='slices: labels stored once')
        for w in wr:
            tm = w.target[1][2] if tag(w.target) in ('col', 'cols') and tag(w.target[1]) == 'mask' else None
            tcol = w.target[2] if tag(w.target) == 'col' else (w.target[2][0] if tag(w.target) == 'cols' else None)
            own = ('mcall', ('col', DATA, 'height'), 'notna', (), ())
            ok = tcol == 'slice_id' and T.root(w.base) == DATA and tm in (own, fed_mask)
            lab = w.value == ('sub', e.call, C(1))
            ctx.check(ok and lab, rule, FS, w.node, w.loc(),
                      f'slice labels {T.show(w.value, maxlen=60)} are written under {T.show(tm, maxlen=120)}: expected '
                      'the rows with a valid height (the rescaled copy is row-aligned and NaN-preserving, so '
                      '`height.notna()` selects the same rows in both)',
                      instance='slices: labels written to the rows with a valid height')
    single = [e for e in evs if e.kind == 'store' and e.value == C(1) and T.contains(
        e.target, lambda y: y == 'slice_id' or (tag(y) in ('col', 'cols') and 'slice_id' in (y[2] if tag(y) == 'cols' else (y[2],))))]
    for w in single:
        lits = guard_literals(w.guard)
        tm = w.target[1][2] if tag(w.target[1]) == 'mask' else None
        one = any(tag(l) == 'cmp' and l[1] == 'eq' and l[2] == C(1) and T.contains(l[3], lambda y: y == tm) for l in lits)
        ctx.check(one, rule, FS, w.node, w.loc(), 'the single-point slice id is not written to exactly the one valid row',
                  instance='slices: single valid hit gets its own slice')
    # ---- groups
    evs = fx.deep_events(FG)
    cl = [e for e in evs if e.kind == 'call' and call_head(e) == CLUST]
    ctx.floor(rule, 'clustering call in find_groups', len(cl), 1)
    for e in cl:
        fed = T.peel(e.call[2][0])
        fm = [x for x in T.walk(fed) if tag(x) == 'mask']
        fed_mask = fm[0][2] if fm else None
        wr = [x for x in evs if x.kind == 'store' and x.seq > e.seq and T.contains(
            x.target, lambda y: tag(y) == 'col' and y[2] == 'group_id') and x.loops and len(x.loops) >= 2]
        ctx.check(len(wr) == 1, rule, FG, e.node, e.loc(), f'group labels are stored {len(wr)} times in the cluster loop',
                  instance='groups: labels stored once per cluster')
        for w in wr:
            rows = w.target[1] if tag(w.target[1]) == 'rows' else None
            sel = rows[3] if rows is not None else None
            src = sel[1] if tag(sel) == 'index' else None
            ms = [x for x in T.walk(src) if tag(x) == 'mask'] if src is not None else []
            wm = ms[0][2] if ms else None
            labels = ('sub', e.call, C(1))
            ok = wm is not None and tag(wm) == 'and' and fed_mask is not None and \
                set(fed_mask[1] if tag(fed_mask) == 'and' else (fed_mask,)) <= set(wm[1]) and \
                any(tag(x) == 'cmp' and x[1] == 'eq' and labels in (x[2], x[3]) for x in wm[1]) and \
                T.root(ms[0][1]) == DATA
            ctx.check(ok, rule, FG, w.node, w.loc(),
                      f'group ids are written to the rows {T.show(wm, maxlen=200)}: expected the rows fed to the '
                      'per-bundle clustering, restricted to one cluster label',
                      instance='groups: ids written to the clustered rows of one label')
            # majority slice id of those rows
            v = w.value
            ok_v = tag(v) == 'sub' and v[2] == C(0) and tag(v[1]) == 'mcall' and v[1][2] == 'mode' and v[1][1] == src
            ctx.check(ok_v, rule, FG, w.node, w.loc(),
                      f'group id is {T.show(v, maxlen=120)}: expected the majority slice id of those very rows',
                      instance='groups: id = majority slice id of the cluster')


def hits_immutable(ctx, rule='C05-R6'):
    """No writer of the four input columns of self._data and no row drop outside _cleanup_pdf."""
    fx = effects(ctx)
    p = ctx.project
    n = 0
    for cq in ('ampycloud.data.AbstractChunk', 'ampycloud.data.CeiloChunk'):
        k = p.klass(cq, rule)
        for nm, m in sorted(k.methods.items()):
            if nm == '_cleanup_pdf':
                continue
            if is_helper(p, m.qname):
                continue        # judged where it is used, with its arguments (a column name passed in) bound
            seen = set()
            for e in fx.deep_events(m.qname):
                if e.kind not in ('store', 'aug', 'del', 'mutcall') or e.base is None or T.root(e.base) != DATA:
                    continue
                if any(fr.callee.endswith('._cleanup_pdf') for fr in e.ctx):
                    continue        # inside the clean-up (or a helper of it)
                key = (id(e.node), T.key(e.target) if e.target is not None else None)
                if key in seen:
                    continue
                seen.add(key)
                n += 1
                cols = {x[2] for x in T.walk(e.target) if tag(x) == 'col'} | \
                       {x[3] for x in T.walk(e.target) if tag(x) == 'cell'} | \
                       {c for x in T.walk(e.target) if tag(x) == 'cols' for c in x[2]}
                hit = cols & {'ceilo', 'dt', 'height', 'type'}
                if e.kind == 'store' and tag(e.target) in ('col', 'cols') and T.root(e.target[1]) == DATA:
                    tcols = {e.target[2]} if tag(e.target) == 'col' else set(e.target[2])
                    hit = tcols & {'ceilo', 'dt', 'height', 'type'}
                bad = bool(hit) if e.kind in ('store', 'aug') else True
                if e.kind == 'store' and not cols:
                    bad = True
                ctx.check(not bad, rule, m.qname, e.node, e.loc(),
                          f'{nm} modifies the hits themselves ({sorted(hit) or e.note or "rows"}): after clean-up no '
                          'hit may be created, lost or altered in time, ceilometer, type or height',
                          instance=f'{m.qname}: {e.text()[:50]} touches id columns only')
    ctx.floor(rule, 'writes to the chunk data outside _cleanup_pdf', n, 8)


def split_when_counted(ctx, rule='C05-R9'):
    """A group reported with k > 1 sub-components yields k layers: in find_layers the generated layer ids are written
    exactly when the count that was stored in groups['ncomp'] is greater than one - no further condition between the
    two (a group kept whole "because a sub-component is thin" would still report ncomp = k)."""
    fx = effects(ctx)
    p = ctx.project
    f = p.func(FL, rule)
    ctx.saw(f)
    evs = fx.deep_events(FL)
    gen = [e for e in evs if e.kind == 'store' and tag(e.target) == 'col' and e.target[2] == 'layer_id'
           and e.loops and not T.is_const(e.value)]

    def is_ncomp_store(e):
        if e.kind != 'store':
            return False
        t = e.target
        col = t[3] if tag(t) == 'cell' else (t[2] if tag(t) == 'col' else None)
        return T.root(t) == ('attr', ('p', 'self'), '_groups') and col in ('ncomp', C('ncomp'))
    counts = [e for e in evs if is_ncomp_store(e) and e.loops and not T.is_const(T.peel(e.value))]
    ctx.floor(rule, 'stores of the mixture count / of generated layer ids in find_layers', min(len(gen), len(counts)), 1)
    for e in gen:
        same = [c for c in counts if c.loops[:1] == e.loops[:1]]
        if not same:
            continue
        c = same[0]
        V = T.peel(c.value)
        extra = [l for l in guard_literals(e.guard) if l not in guard_literals(c.guard)]
        alts = V[1] if tag(V) == 'phi' else ((T.TRUE, V),)

        def wanted(op, k):
            # the stored count is > 1, alternative by alternative (a count of -1 for a group that was not assessed is not)
            return T.mk_and([c.guard, T.mk_or([T.mk_and([g, T.mk_cmp(op, C(k), T.peel(v))]) for g, v in alts])])
        ok = any(T.implies(e.guard, w) is True and T.implies(w, e.guard) is True for w in (wanted('<', 1), wanted('<=', 2)))
        ctx.check(ok, rule, FL, e.node, e.loc(),
                  f'the sub-layer ids of a group are written under {T.show(T.mk_and(extra), maxlen=200)}, its number of '
                  f'sub-components ({T.show(V, maxlen=60)}) is stored without that condition: a group can report k > 1 '
                  'components and own a single layer (or the reverse)',
                  instance='find_layers: layer ids generated exactly when the stored ncomp > 1')


def ncomp_rewritten(ctx, rule='C05-R7'):
    """find_layers may be run again on the same groups table (a permitted call): every path through its per-group
    loop must write that group's ncomp (or leave by raising), else the count of the previous run survives next to
    the layers of this one."""
    fx = effects(ctx)
    p = ctx.project
    q = 'ampycloud.data.CeiloChunk.find_layers'
    f = p.func(q, rule)
    ctx.saw(f)
    evs = fx.deep_events(q)

    def is_ncomp_store(e):
        if e.kind != 'store':
            return False
        t = e.target
        col = t[3] if tag(t) == 'cell' else (t[2] if tag(t) == 'col' else None)
        return T.root(t) == ('attr', ('p', 'self'), '_groups') and col in ('ncomp', C('ncomp'))
    stores = [e for e in evs if is_ncomp_store(e) and e.loops]
    ctx.floor(rule, 'stores of the ncomp cell in the per-group loop', len(stores), 1)
    if not stores:
        ctx.violation(rule, q, f.node.name, f.loc(), 'find_layers never writes the ncomp cell of a group inside its loop',
                      instance='find_layers: ncomp written for every group visited')
        return
    lid = stores[0].loops[0]
    inloop = [e for e in evs if e.loops and e.loops[0] == lid]
    entry = inloop[0].guard
    leaving = [e.guard for e in inloop if is_ncomp_store(e) or e.kind == 'raise']
    covered = T.mk_or(leaving)
    verdict = T.implies(entry, covered)
    if verdict is None:
        raise AnalysisError(rule, 'too many conditions in the per-group loop of find_layers to enumerate')
    missing = T.mk_and([entry, T.mk_not(covered)]) if not verdict else None
    ctx.check(verdict, rule, q, stores[0].node, stores[0].loc(),
              'a path through the per-group loop leaves the ncomp cell of the group untouched (under '
              f'{T.show(missing, maxlen=260) if missing is not None else ""}): when find_layers is run again on the same '
              'chunk - a permitted call - the group keeps the sub-component count of the previous run while its hits are '
              'layered afresh, so a group can report k components and own a different number of layers',
              instance='find_layers: every path through the per-group loop writes ncomp (or raises)')
