"""C19: scalings - NaN-safe reductions, do/undo mutually inverse, order-preserving coefficient."""
from __future__ import annotations

from sa import terms as T
from sa.core import AnalysisError
from sa.rules.common import effects, call_head, guard_literals, kwarg, split_alternatives, implied_by
from sa.symalg import Poly, to_poly, denominators
from sa.terms import tag, C

MOD = 'ampycloud.scaler'
V = ('p', 'vals')
MODE_DO = ('cmp', 'eq', C('do'), ('p', 'mode'))
MODE_UNDO = ('cmp', 'eq', C('undo'), ('p', 'mode'))
UNSAFE = {'numpy.max', 'numpy.min', 'numpy.amax', 'numpy.amin', 'numpy.mean', 'numpy.median', 'numpy.ptp',
          'numpy.std', 'numpy.sum', 'builtins.max', 'builtins.min', 'builtins.sum', 'numpy.average', 'numpy.percentile'}
UNSAFE_METHODS = {'max', 'min', 'mean', 'sum', 'ptp', 'std'}


def nan_safe(ctx, rule='C19-R1'):
    fx = effects(ctx)
    p = ctx.project
    n = 0
    for q, f in sorted(p.funcs.items()):
        if f.module.name != MOD or '<locals>' in q:
            continue
        ctx.saw(f)
        for e in fx.own_events(q):
            if e.kind != 'call':
                continue
            head = call_head(e) or ''
            c = e.call
            arg = c[2][0] if tag(c) == 'call' and c[2] else (c[1] if tag(c) == 'mcall' else None)
            if arg is None or T.root(T.peel(arg)) != V:
                continue
            # selections that remove NaNs first are fine: vals[~isnan(vals)]
            cleaned = any(tag(x) == 'mask' and T.contains(x[2], lambda y: tag(y) == 'call' and y[1] == ('g', 'numpy.isnan'))
                          for x in T.walk(arg))
            if head in UNSAFE or (tag(c) == 'mcall' and c[2] in UNSAFE_METHODS and T.root(T.peel(c[1])) == V):
                n += 1
                ctx.check(cleaned, rule, q, e.node, e.loc(),
                          f'{head} over the data is not NaN-safe: a single non-detection (NaN) turns the scaling '
                          'parameters, and with them every scaled value, into NaN',
                          instance=f'{q.split(".")[-1]}: {head} NaN-safe')
            elif head.startswith('numpy.nan'):
                n += 1
                ctx.ok(rule, f'{q.split(".")[-1]}: {head} (NaN-safe reduction)', e.loc())
    ctx.floor(rule, 'reductions over the data in scaler.py', n, 6)
    # all-NaN early return dominates the derivation of the parameters
    q = f'{MOD}.apply_scaling'
    f = p.func(q, rule)
    evs = fx.deep_events(q)
    conv = [e for e in evs if e.kind == 'call' and call_head(e) == f'{MOD}.convert_kwargs']
    allnan = ('call', ('g', 'numpy.all'), (('call', ('g', 'numpy.isnan'), (V,), ()),), ())
    ok = bool(conv) and all(T.mk_not(allnan) in guard_literals(e.guard) for e in conv)
    # under "all NaN" the exits that hand the input back must cover everything: substitute the condition by True in
    # their guards and take the union
    rets = [e for e in evs if e.kind == 'return' and not e.ctx and e.value == V]
    cover = T.mk_or([T.subst(e.guard, {allnan: T.TRUE}) for e in rets]) if rets else T.FALSE
    rets = rets if cover == T.TRUE else []
    ctx.check(ok and bool(rets), rule, q, f.node.name, f.loc(),
              'an all-NaN input is not passed through before the scaling parameters are derived from the data '
              '(nanmax of nothing)', instance='apply_scaling: all-NaN passthrough dominates convert_kwargs')
    # step_scale starts from an all-NaN output
    sq = f'{MOD}.step_scale'
    sf = p.func(sq, rule)
    init = [e for e in fx.own_events(sq) if e.kind == 'call' and call_head(e) in ('numpy.full_like', 'numpy.full')]
    ok = any(len(e.call[2]) >= 2 and e.call[2][1] in (('g', 'numpy.nan'),) for e in init)
    ctx.check(ok, rule, sq, sf.node.name, sf.loc(), 'step_scale output is not initialised with NaN',
              instance='step_scale: output starts as NaN (NaN in -> NaN out)')


def _exprs(fx, q, rule, many=False):
    """(do expression, undo expression, events) for a scaling routine."""
    evs = split_alternatives(fx.deep_events(q))
    do = [e for e in evs if e.kind in ('return', 'store') and MODE_DO in guard_literals(e.guard)
          and not T.is_const(e.value)]
    undo = [e for e in evs if e.kind in ('return', 'store') and MODE_UNDO in guard_literals(e.guard)
            and not T.is_const(e.value)]
    if not do or not undo:
        raise AnalysisError(rule, f'{q}: {len(do)} do / {len(undo)} undo expressions found')
    if many:
        return do, undo
    if len(do) != 1 or len(undo) != 1:
        raise AnalysisError(rule, f'{q}: {len(do)} do / {len(undo)} undo expressions found')
    return do[0], undo[0]


def _compose(de, ue):
    """(identity?, a, b, c, d) for do(v) = a*v + b, undo(w) = c*w + d; raises AnalysisError when not affine."""
    atomised = frozenset(denominators(de.value) | denominators(ue.value))
    dp = to_poly(de.value, V, atomised)
    up = to_poly(ue.value, V, atomised)
    a, b = dp.coef_of(V)
    c, d = up.coef_of(V)
    return (c * a == Poly.const(1) and c * b + d == Poly()), a, b, c, d


def inverse_pairs(ctx, rule='C19-R2'):
    fx = effects(ctx)
    p = ctx.project
    for name in ('shift_and_scale', 'minmax_scale', 'step_scale'):
        q = f'{MOD}.{name}'
        f = p.func(q, rule)
        ctx.saw(f)
        dos, undos = _exprs(fx, q, rule, many=True)
        partnered = set()
        for de in dos:
            best = None
            try:
                for j, ue in enumerate(undos):
                    res = _compose(de, ue)
                    if best is None or res[0]:
                        best = (ue, res, j)
                    if res[0]:
                        break
            except AnalysisError as err:
                ctx.violation(rule, q, de.node, de.loc(), f'{name}: scaling expression is not affine in the data ({err.why})',
                              instance=f'{name}: do/undo affine')
                continue
            ue, (ok, a, b, c, d), j = best
            if ok:
                partnered.add(j)
            ctx.check(ok, rule, q, ue.node if ok else de.node, ue.loc() if ok else de.loc(),
                      f'{name}: undo(do(v)) = ({(c * a).show()})*v + ({(c * b + d).show()}): not the identity; do = '
                      f'({a.show()})*v + ({b.show()})' + (f' (under {T.show(de.guard, maxlen=120)})' if len(dos) > 1 else '') +
                      f', undo = ({c.show()})*w + ({d.show()}): no undo expression inverts this forward expression',
                      facts={'do': T.show(de.value, maxlen=300), 'undo': T.show(ue.value, maxlen=300)},
                      instance=f'{name}: undo(do(v)) == v')
            ctx.sample({f'{name}': {'do': f'({a.show()})*v + ({b.show()})', 'undo': f'({c.show()})*w + ({d.show()})'}})
            # R3: the coefficient of the forward map is 1 / (one positive quantity)
            mono = a.is_monomial() and list(a.d.values()) == [1] and len(list(a.d)[0]) == 1 and list(a.d)[0][0][1] == -1
            ctx.check(mono, 'C19-R3', q, de.node, de.loc(),
                      f'{name}: forward coefficient is {a.show()}: expected 1 / scale (a single positive quantity), which '
                      'makes the scaling order-preserving', instance=f'{name}: do(v) increasing (coefficient 1/positive)')
        for j, ue in enumerate(undos):
            if j not in partnered:
                # every forward expression stopped at the first undo that inverts it; this one may invert one as well
                # (the same pair seen twice: in a worker and in the wrapper that returns the worker's result)
                for de in dos:
                    try:
                        if _compose(de, ue)[0]:
                            partnered.add(j)
                            break
                    except AnalysisError:
                        pass
            if j not in partnered and len(undos) > 1:
                ctx.violation(rule, q, ue.node, ue.loc(), f'{name}: this undo expression inverts none of the forward expressions '
                              f'({T.show(ue.value, maxlen=120)})', instance=f'{name}: every undo expression has a forward partner')
        # masks of store-based scalings: the values read and the cells written use the same condition
        for e in list(dos) + list(undos):
            if e.kind == 'store':
                tm = e.target[2] if tag(e.target) == 'mask' else None
                vm = [x[2] for x in T.walk(e.value) if tag(x) == 'mask' and x[1] == V]
                ctx.check(tm is not None and vm and all(m == tm for m in vm), rule, q, e.node, e.loc(),
                          f'{name}: values are read under another condition than the one they are written under',
                          instance=f'{name}: same step mask on both sides')


def continuity_offset_guard(ctx, rule='C19-R5'):
    """The continuity correction of step scaling is dropped (set to 0) only when there is no step at all."""
    fx = effects(ctx)
    p = ctx.project
    q = f'{MOD}.step_scale'
    f = p.func(q, rule)
    de, ue = _exprs(fx, q, rule)
    steps = ('p', 'steps')
    n = ('call', ('g', 'builtins.len'), (steps,), ())
    none_forms = {('cmp', 'eq', C(0), n), ('cmp', 'le', n, C(0)), ('cmp', 'lt', n, C(1)), T.mk_not(steps),
                  T.mk_not(('cmp', 'lt', C(0), n))}
    found = 0
    for e in (de, ue):
        for ph in [x for x in T.walk(e.value) if tag(x) == 'phi' and any(v == C(0) for _, v in x[1])]:
            found += 1
            zero_guards = [g for g, v in ph[1] if v == C(0)]
            ok = all(g in none_forms for g in zero_guards)
            ctx.check(ok, rule, q, e.node, e.loc(),
                      f'the continuity offset is dropped under {T.show(zero_guards[0], maxlen=80)}: with one step edge '
                      'the second segment then restarts at 0 - a jump and an order reversal at the edge',
                      instance='step_scale: continuity offset omitted only when there are no steps')
    ctx.floor(rule, 'continuity-offset selections in step_scale', found, 2)


def minrange(ctx, rule='C19-R4'):
    fx = effects(ctx)
    p = ctx.project
    q = f'{MOD}.minrange2minmax'
    f = p.func(q, rule)
    ctx.saw(f)
    evs = fx.deep_events(q)
    rets = split_alternatives([e for e in evs if e.kind == 'return' and not e.ctx])
    mn = ('call', ('g', 'numpy.nanmin'), (V,), ())
    mx = ('call', ('g', 'numpy.nanmax'), (V,), ())
    mr = ('p', 'min_range')
    span_atom = T.mk_cmp('<=', mr, ('bin', '-', mx, mn))
    found = {'wide': False, 'narrow': False}
    from itertools import product as _product
    for e in rets:
        v = e.value
        if tag(v) != 'tuple' or len(v[1]) != 2:
            continue
        phis = []
        for x in T.walk(v):
            if tag(x) == 'phi' and x not in phis:
                phis.append(x)
        for choice in _product(*[ph[1] for ph in phis[:3]]):
            vv = T.subst(v, {ph: alt[1] for ph, alt in zip(phis, choice)}) if phis else v
            g = T.mk_and([e.guard] + [alt[0] for alt in choice])
            if g == T.FALSE or tag(vv) != 'tuple' or len(vv[1]) != 2:
                continue
            lo, hi = vv[1]
            if (lo, hi) == (mn, mx):
                # the data extrema are used only when they span at least the minimum range
                found['wide'] = True
                ctx.check(T.implies(g, span_atom) is True, rule, q, e.node, e.loc(),
                          f'(nanmin, nanmax) is returned under {T.show(g, maxlen=140)}, which does not entail a span of at least '
                          'min_range: the minimum range is not honoured',
                          instance='minrange2minmax: span >= min_range -> (nanmin, nanmax)')
                continue
            found['narrow'] = True
            pl, ph_ = to_poly(lo, V), to_poly(hi, V)
            width = ph_ - pl
            centre = ph_ + pl
            # width = the minimum range asked for, or a positive constant where none (or none positive) was asked for
            is_pos_const = set(width.d) <= {()} and width.d.get((), 0) > 0
            wide_enough = width == Poly.atom(mr) or (is_pos_const and T.implies(g, T.mk_cmp('<=', mr, C(0))) is True)
            ok = wide_enough and centre == Poly.atom(mx) + Poly.atom(mn)
            ctx.check(ok, rule, q, e.node, e.loc(),
                      f'below min_range the interval has width {width.show()} and twice-centre {centre.show()}: expected '
                      'width min_range (a positive constant where no positive range was asked for), centred on '
                      '(nanmax + nanmin) / 2',
                      instance='minrange2minmax: span < min_range -> symmetric interval of width min_range')
    ctx.check(all(found.values()), rule, q, f.node.name, f.loc(),
              f'minrange2minmax branches found: {found}', instance='minrange2minmax: both branches present')
    # convert_kwargs derives min/max through it, and the shift with nanmax
    cq = f'{MOD}.convert_kwargs'
    cf = p.func(cq, rule)
    calls = [e for e in fx.deep_events(cq) if e.kind == 'call' and call_head(e) == q]
    ok = bool(calls) and all(e.call[2][:1] == (V,) for e in calls)
    ctx.check(ok, rule, cq, cf.node.name, cf.loc(), 'min-max parameters are not derived by minrange2minmax(vals, min_range)',
              instance='convert_kwargs: (min_val, max_val) = minrange2minmax(vals, min_range)')
    shifts = [e for e in fx.deep_events(cq) if e.kind == 'store' and T.contains(e.target, lambda x: x == 'shift' or
              (tag(x) == 'col' and x[2] == 'shift'))]
    # ... or handed back in a new dictionary: return {**kwargs, 'shift': ...}
    built = [v for e in fx.deep_events(cq) if e.kind == 'return' and e.value is not None
             for d in T.walk(e.value) if tag(d) == 'dict' for k, v in d[1] if k == C('shift')]
    ok = bool(shifts or built) and all(e.value == mx for e in shifts) and all(v == mx for v in built)
    ctx.check(ok, rule, cq, cf.node.name, cf.loc(), 'the default shift is not nanmax(vals)',
              instance='convert_kwargs: shift = nanmax(vals)')


# ---------------------------------------------------------------------------------------------- C19-R6
def _edges(cond, rule, q):
    """(lower edge term, lower closed?, upper edge term, upper closed?) of a segment condition on the data."""
    lits = cond[1] if tag(cond) == 'and' else (cond,)
    lo = hi = None
    for c in lits:
        if tag(c) != 'cmp' or c[1] not in ('le', 'lt'):
            raise AnalysisError(rule, f'{q}: segment condition is not a pair of order comparisons ({T.show(c, maxlen=120)})')
        if c[3] == V and c[2] != V:
            lo = (c[2], c[1] == 'le')
        elif c[2] == V and c[3] != V:
            hi = (c[3], c[1] == 'le')
        else:
            raise AnalysisError(rule, f'{q}: comparison does not bound the data ({T.show(c, maxlen=120)})')
    if lo is None or hi is None:
        raise AnalysisError(rule, f'{q}: segment condition lacks a lower or an upper edge')
    return lo[0], lo[1], hi[0], hi[1]


def step_continuity(ctx, rule='C19-R6', max_steps=5):
    """Step scaling, for every number of step edges 0..max_steps with the edges and scales left symbolic:
    the segments tile the real line (first from -inf, each upper edge the next lower edge, last to +inf, half-open
    the same way everywhere), the forward map takes the same value on both sides of every edge (continuity),
    and the segments of the inverse are the images of the forward segments (edges_out == do(edges_in))."""
    from sa.shapeval import ShapeEval, ShapeError, Seq, atom, INF
    fx = effects(ctx)
    p = ctx.project
    q = f'{MOD}.step_scale'
    f = p.func(q, rule)
    ctx.saw(f)
    de, ue = _exprs(fx, q, rule)
    loops = fx.deep_loops(q)
    for e in (de, ue):
        if e.kind != 'store' or tag(e.target) != 'mask':
            raise AnalysisError(rule, f'{q}: the scaled values are not written segment by segment (out[cond] = ...)')
    # every segment is written, whatever the data: a segment skipped (or the loop left) on a test of the values leaves the
    # values of that segment NaN - at the boundary of the test (`edge >= max` for a value ON the edge) a hit is lost
    for nm, e in (('do', de), ('undo', ue)):
        dep = [l for l in guard_literals(e.guard) if T.contains(l, lambda x: x == V) and
               not (tag(l) == 'call' and l[1] == ('g', 'numpy.any'))]
        ctx.check(not dep, rule, q, e.node, e.loc(),
                  f'{nm}: a segment is only written under {T.show(dep[0], maxlen=120) if dep else ""}, a test of the data: the values '
                  'of a segment that is skipped stay NaN (a hit turned into a non-detection)',
                  instance=f'step_scale[{nm}]: every segment is written whatever the data')
    lids = {x[1] for e in (de, ue) for x in T.walk(e.value) if tag(x) == 'lv'}
    if len(lids) != 1:
        raise AnalysisError(rule, f'{q}: segment loop not identified ({sorted(lids)})')
    lid = lids.pop()
    loop = loops[lid]
    dlo, dlc, dhi, dhc = _edges(de.target[2], rule, q)
    ulo, ulc, uhi, uhc = _edges(ue.target[2], rule, q)
    # half-open the same way on every segment: no value lost, none written twice with a different formula
    for nm, (lc, hc), e in (('do', (dlc, dhc), de), ('undo', (ulc, uhc), ue)):
        ctx.check(lc != hc, rule, q, e.node, e.loc(),
                  f'{nm}: segments are {"closed" if lc else "open"} below and {"closed" if hc else "open"} above: a value '
                  'equal to a step edge ' + ('belongs to two segments' if lc else 'belongs to no segment and stays NaN'),
                  instance=f'step_scale[{nm}]: segments half-open the same way')
    nchecked = 0
    for n in range(0, max_steps + 1):
        steps = Seq('L', [atom(f's{i}') for i in range(n)])
        scales = Seq('L', [atom(f'c{i}') for i in range(n + 1)])
        env = {('p', 'steps'): steps, ('p', 'scales'): scales}

        def ev_at(sid, term, x=None):
            it = ShapeEval(rule, env).ev(loop.iter)
            lv = {('lv', lid, 'idx'): Poly.const(sid)}
            if loop.kind == 'enumerate':
                if sid >= len(it):
                    raise ShapeError(f'segment {sid} of {len(it)}')
                lv[('lv', lid, 'elem')] = it.items[sid]
            else:
                lv = {('lv', lid, 'elem'): it.items[sid]}
            sev = ShapeEval(rule, env, lv, var=V)
            val = sev.ev(term)
            if x is not None and isinstance(val, Poly):
                a, b = val.coef_of_name('v')
                val = a * x + b
            return val

        try:
            nseg = len(ShapeEval(rule, env).ev(loop.iter))
            if nseg != n + 1:
                ctx.violation(rule, q, loop.node, f.loc(), f'{n} step edge(s) need {n + 1} segments, the loop visits {nseg}',
                              instance=f'step_scale: n={n}: number of segments')
                continue
            for nm, (lo_t, hi_t), e in (('do', (dlo, dhi), de), ('undo', (ulo, uhi), ue)):
                los = [ev_at(s, lo_t) for s in range(nseg)]
                his = [ev_at(s, hi_t) for s in range(nseg)]
                tiles = los[0] == -INF and his[-1] == INF and all(his[s] == los[s + 1] for s in range(nseg - 1))
                nchecked += 1
                ctx.check(tiles, rule, q, e.node, e.loc(),
                          f'{nm}, {n} step edge(s): the segments do not tile the real line: lower edges '
                          f'[{", ".join(x.show() for x in los)}], upper edges [{", ".join(x.show() for x in his)}]',
                          instance=f'step_scale[{nm}] n={n}: segments tile (-inf, inf)')
            # continuity of the forward map and agreement of the inverse edges
            in_lo = [ev_at(s, dlo) for s in range(nseg)]
            in_hi = [ev_at(s, dhi) for s in range(nseg)]
            out_lo = [ev_at(s, ulo) for s in range(nseg)]
            for s in range(nseg - 1):
                left = ev_at(s, de.value, in_hi[s])
                right = ev_at(s + 1, de.value, in_lo[s + 1])
                nchecked += 1
                ctx.check(left == right, rule, q, de.node, de.loc(),
                          f'{n} step edge(s): the forward map jumps at edge {s}: {left.show()} from below, '
                          f'{right.show()} from above', instance=f'step_scale n={n}: continuous at edge {s}')
                nchecked += 1
                ctx.check(out_lo[s + 1] == right, rule, q, ue.node, ue.loc(),
                          f'{n} step edge(s): the inverse switches segment at {out_lo[s + 1].show()}, the image of input '
                          f'edge {s} is {right.show()}: values between the two are un-scaled with the wrong segment',
                          instance=f'step_scale n={n}: inverse edge {s} is the image of the input edge')
            # every segment: undo(do(v)) == v with the concrete offsets (R2 does it on the symbolic form)
            for s in range(nseg):
                fw = ev_at(s, de.value)
                a, b = fw.coef_of_name('v')
                back = ev_at(s, ue.value, fw)
                nchecked += 1
                ctx.check(back == atom('v'), rule, q, ue.node, ue.loc(),
                          f'{n} step edge(s), segment {s}: undo(do(v)) = {back.show()}',
                          instance=f'step_scale n={n}: segment {s} undo(do(v)) == v')
                mono = a.is_monomial() and all(ex == -1 for _, ex in list(a.d)[0]) and list(a.d.values())[0] > 0
                ctx.check(mono, rule, q, de.node, de.loc(),
                          f'{n} step edge(s), segment {s}: forward slope is {a.show()}, expected 1 / (positive scale)',
                          instance=f'step_scale n={n}: segment {s} increasing')
        except ShapeError as err:
            ctx.violation(rule, q, de.node, de.loc(), f'with {n} step edge(s) the computation is ill-formed: {err}',
                          instance=f'step_scale n={n}: well-formed')
    ctx.floor(rule, 'edge / segment obligations of step_scale', nchecked, 40)
    ctx.tables['step_scale_instantiation'] = {'step_counts': list(range(max_steps + 1)), 'obligations': nchecked,
                                              'domain': 'Laurent polynomials over s_i (edges), c_i (scales), v'}


# ---------------------------------------------------------------------------------------------- C19-R7
def given_parameters_honoured(ctx, rule='C19-R7'):
    """convert_kwargs derives a scaling parameter from the data only when the caller did not give it: whether a
    default applies is decided by the *presence* of the key, never by the truth value of what is stored under it
    (a legitimate shift of 0, or a min_val of 0, is a given parameter)."""
    fx = effects(ctx)
    p = ctx.project
    q = f'{MOD}.convert_kwargs'
    f = p.func(q, rule)
    ctx.saw(f)
    n = 0
    sites = []
    for e in fx.deep_events(q):
        if e.kind == 'store':
            tgt = e.target
            if tag(tgt) not in ('col', 'sub') or not T.contains(tgt[1], lambda x: x == ('p', '**kwargs')):
                continue
            sites.append((e, tgt[2] if tag(tgt) == 'col' else (tgt[2][1] if T.is_const(tgt[2]) else None)))
        elif e.kind == 'return' and not e.ctx and tag(e.value) == 'dict':
            # the derived parameter handed back in a new dictionary: return {**kwargs, 'shift': nanmax(vals)}
            sites += [(e, k[1]) for k, v in e.value[1] if T.is_const(k) and T.root(T.peel(v)) != ('p', '**kwargs')]
    for e, key in sites:
        if key not in ('shift', 'min_val', 'max_val', 'scale'):
            continue
        n += 1

        def value_test(x):
            # kwargs[key] / kwargs.get(key) used as a condition (alone or negated), not as an operand of `in`
            if tag(x) == 'not':
                x = x[1]
            if tag(x) in ('col', 'sub') and T.root(x) == ('p', '**kwargs'):
                k = x[2] if tag(x) == 'col' else (x[2][1] if T.is_const(x[2]) else None)
                return k in ('shift', 'min_val', 'max_val', 'scale')
            if tag(x) == 'mcall' and x[1] == ('p', '**kwargs') and x[2] in ('get', 'pop') and x[3] and T.is_const(x[3][0]):
                return x[3][0][1] in ('shift', 'min_val', 'max_val', 'scale')
            return False
        lits = []
        for l in guard_literals(e.guard):
            lits += list(l[1]) if tag(l) == 'or' else [l]
        # (a) applied only when the key is absent, (b) for the scaling it belongs to, (c) never when un-doing (the
        # parameters of an existing scaling cannot be derived from the scaled data)
        KW = ('p', '**kwargs')

        def absent(l, k):
            if not (tag(l) == 'not' and tag(l[1]) == 'cmp' and l[1][1] == 'in' and l[1][2] == C(k)):
                return False
            c = T.peel(l[1][3])
            if tag(c) == 'mcall' and c[2] == 'keys':
                c = T.peel(c[1])
            return T.root(c) == KW
        keys = ('min_val', 'max_val') if key in ('min_val', 'max_val') else (key,)
        ctx.check(any(absent(l, k) for l in lits for k in keys), rule, q, e.node, e.loc(),
                  f"the data-derived default for '{key}' is not conditional on the key being absent ({T.show(e.guard, maxlen=160)}): "
                  'a parameter given by the caller is overwritten (or a missing one is not derived)',
                  instance=f"convert_kwargs: default '{key}' under \"key not given\"")
        want_fct = 'shift-and-scale' if key in ('shift', 'scale') else 'minmax-scale'
        fct_ok = any(tag(l) == 'cmp' and l[1] == 'eq' and C(want_fct) in (l[2], l[3]) and ('p', 'fct') in (l[2], l[3])
                     for l in guard_literals(e.guard))
        ctx.check(fct_ok, rule, q, e.node, e.loc(),
                  f"the default for '{key}' is not derived under fct == '{want_fct}' ({T.show(e.guard, maxlen=160)})",
                  instance=f"convert_kwargs: default '{key}' belongs to {want_fct}")
        mode_lits = [l for l in guard_literals(e.guard) if T.contains(
            l, lambda x: x == C('mode') or (tag(x) in ('col', 'sub') and x[2] in ('mode', C('mode'))))]
        # the guard entails "mode is 'do', or no mode was given" (decided propositionally over the atoms of the guard)
        do_atoms = [a for a in T.walk(e.guard) if tag(a) == 'cmp' and a[1] == 'eq' and C('do') in (a[2], a[3])
                    and T.contains(a, lambda x: x == C('mode') or (tag(x) in ('col', 'sub') and x[2] in ('mode', C('mode'))))]
        in_atoms = [a for a in T.walk(e.guard) if tag(a) == 'cmp' and a[1] == 'in' and a[2] == C('mode')]
        mode_ok = bool(mode_lits) and T.implies(e.guard, T.mk_or(do_atoms + [T.mk_not(a) for a in in_atoms])) is True
        ctx.check(mode_ok, rule, q, e.node, e.loc(),
                  f"the default for '{key}' is derived under {T.show(T.mk_and(mode_lits), maxlen=120) if mode_lits else 'no mode test'}: "
                  "parameters may only be derived from the data when scaling ('do', or no mode given), never when un-doing",
                  instance=f"convert_kwargs: default '{key}' only in mode 'do'")
        bad = [l for l in lits if value_test(l)]
        ctx.check(not bad, rule, q, e.node, e.loc(),
                  f"the data-derived default for '{key}' is applied under {T.show(bad[0], maxlen=100) if bad else ''}: a truth "
                  f"test of the given value, so that a legitimate {key} of 0 counts as not given - do() then shifts by the "
                  'data maximum, undo() refuses, and the pair is no longer forward / backward',
                  instance=f"convert_kwargs: default '{key}' only when the key is absent")
    ctx.floor(rule, 'data-derived defaults stored by convert_kwargs', n, 2)
    # completeness: whatever convert_kwargs returns for a scaling that needs data-derived parameters carries them all
    # (else do() falls back on the extremum of whatever it is handed, and undo() of the scaled data on another one)
    KW = ('p', '**kwargs')
    evs = fx.deep_events(q)
    needs = {'shift-and-scale': ('shift',), 'minmax-scale': ('min_val', 'max_val')}

    def key_of(e):
        tgt = e.target
        if tag(tgt) not in ('col', 'sub') or not T.contains(tgt[1], lambda x: x == KW):
            return None
        return tgt[2] if tag(tgt) == 'col' else (tgt[2][1] if T.is_const(tgt[2]) else None)
    def present(a, k):
        if not (tag(a) == 'cmp' and a[1] == 'in' and a[2] == C(k)):
            return False
        c = T.peel(a[3])
        if tag(c) == 'mcall' and c[2] == 'keys':
            c = T.peel(c[1])
        return T.root(c) == KW
    nret = 0
    for e in evs:
        if e.kind != 'return' or e.ctx:
            continue
        names = [l[2][1] if T.is_const(l[2]) else l[3][1] for l in guard_literals(e.guard)
                 if tag(l) == 'cmp' and l[1] == 'eq' and KW not in (l[2], l[3]) and ('p', 'fct') in (l[2], l[3])
                 and (T.is_const(l[2]) or T.is_const(l[3]))]
        for k in needs.get(names[0] if len(names) == 1 else None, ()):
            nret += 1
            have = [a for a in T.walk(e.guard) if present(a, k)] + [s.guard for s in evs if s.kind == 'store'
                                                                     and s.seq < e.seq and key_of(s) == k]
            ok = T.implies(e.guard, T.mk_or(have))
            # the result is a new dictionary that spells the key out: {**kwargs, 'shift': ...}
            if ok is not True and tag(e.value) == 'dict' and any(kk == C(k) for kk, _ in e.value[1]):
                ok = True
            ctx.check(ok is True, rule, q, e.node, e.loc(),
                      f"convert_kwargs returns the parameters of '{names[0]}' without '{k}' when {T.show(e.guard, maxlen=200)}: "
                      'the key is neither given nor derived on this path, so the scaling falls back on the extremum of whatever '
                      'array it is handed and the derived parameters do not undo it',
                      instance=f"convert_kwargs: '{k}' present in every result for {names[0]}")
    ctx.floor(rule, 'results of convert_kwargs checked for completeness', nret, 3)


# ---------------------------------------------------------------------------------------------- C19-R8
def routine_defaults_and_dispatch(ctx, rule='C19-R8'):
    """Inside the routines, a missing parameter is replaced by the documented data extremum, only when it is missing
    (shift -> nanmax, min_val -> nanmin, max_val -> nanmax, tested with `is None`); apply_scaling hands the values to the
    routine named by `fct`, with the parameters convert_kwargs derived for that name."""
    fx = effects(ctx)
    p = ctx.project
    want = {'shift_and_scale': {'shift': 'numpy.nanmax'},
            'minmax_scale': {'min_val': 'numpy.nanmin', 'max_val': 'numpy.nanmax'}}
    n = 0
    for name, defaults in want.items():
        q = f'{MOD}.{name}'
        f = p.func(q, rule)
        ctx.saw(f)
        ex, s = fx.deep(q)
        de, ue = _exprs(fx, q, rule, many=True)
        for prm, red in defaults.items():
            n += 1
            # the value the parameter has where the scaling expressions are evaluated
            vals_seen = {x for e in list(de) + list(ue) for x in T.walk(e.value)
                         if tag(x) == 'phi' and any(v == ('p', prm) for _, v in x[1])}
            ok = False
            why = f'{prm} is used as given (no default for None)'
            for ph in vals_seen:
                alts = dict(ph[1])
                none_g = ('cmp', 'is', ('p', prm), T.NONE)
                dflt = alts.get(none_g)
                keep = alts.get(T.mk_not(none_g))
                if dflt is None or keep != ('p', prm):
                    why = f'{prm} is selected by {T.show(ph, maxlen=120)}: expected "the data extremum when None, else as given"'
                    continue
                ok = dflt == ('call', ('g', red), (V,), ())
                why = f'a missing {prm} becomes {T.show(dflt, maxlen=80)}: expected {red.split(".")[-1]}(vals)'
            ctx.check(ok, rule, q, f.node.name, f.loc(), f'{name}: {why}',
                      instance=f'{name}: {prm} defaults to {red.split(".")[-1]}(vals) when None, and only then')
    # convert_kwargs derives parameters when no mode is given, i.e. it takes an absent mode for 'do': every routine that
    # apply_scaling dispatches to must then scale (not un-scale) when it is called without a mode
    import ast as _ast
    for name in ('shift_and_scale', 'minmax_scale', 'step_scale'):
        q = f'{MOD}.{name}'
        f = p.func(q, rule)
        ctx.saw(f)
        from sa.rules.common import param_default, param_default_term
        d = param_default_term(p, f, 'mode')
        raw = param_default(f, 'mode')
        n += 1
        ctx.check(d == C('do'), rule, q, f.node.name, f.loc(),
                  f"{name}: the default of `mode` is {_ast.unparse(raw) if raw is not None else 'missing'}: convert_kwargs derives "
                  "the parameters of a scaling when no mode is given (an absent mode means 'do'), so a routine called "
                  'without a mode must scale, not un-scale', instance=f"{name}: mode defaults to 'do'")
    # dispatch
    q = f'{MOD}.apply_scaling'
    f = p.func(q, rule)
    ctx.saw(f)
    evs = split_alternatives(fx.deep_events(q))
    table = {'shift-and-scale': f'{MOD}.shift_and_scale', 'minmax-scale': f'{MOD}.minmax_scale', 'step-scale': f'{MOD}.step_scale'}
    found = set()
    for e in evs:
        if e.kind != 'return' or e.ctx or tag(e.value) != 'call' or tag(e.value[1]) != 'g' or e.value[1][1] not in table.values():
            continue
        routine = e.value[1][1]
        names = [l[2][1] if T.is_const(l[2]) else l[3][1] for l in guard_literals(e.guard)
                 if tag(l) == 'cmp' and l[1] == 'eq' and ('p', 'fct') in (l[2], l[3]) and (T.is_const(l[2]) or T.is_const(l[3]))]
        n += 1
        ok = len(names) == 1 and table.get(names[0]) == routine
        found.add(routine)
        ctx.check(ok, rule, q, e.node, e.loc(),
                  f'apply_scaling hands the values to {routine.split(".")[-1]} under fct == {names}: the routine does not match '
                  'the scaling that was asked for', instance=f'apply_scaling: {routine.split(".")[-1]} under its own name')
        a0 = e.value[2][0] if e.value[2] else None
        ctx.check(a0 == V, rule, q, e.node, e.loc(), f'apply_scaling scales {T.show(a0, maxlen=60)}, not the values it was given',
                  instance=f'apply_scaling: {routine.split(".")[-1]} receives vals')
    ctx.check(found == set(table.values()), rule, q, f.node.name, f.loc(),
              f'apply_scaling dispatches to {sorted(x.split(".")[-1] for x in found)}: one of the three scalings is unreachable',
              instance='apply_scaling: three routines reachable')
    ctx.floor(rule, 'defaults and dispatch obligations', n, 9)


# ---------------------------------------------------------------------------------------------- C19-R9 / C05-R10
_NMAX = ('call', ('g', 'numpy.nanmax'), (V,), ())
_NMIN = ('call', ('g', 'numpy.nanmin'), (V,), ())


def _lin(t):
    t = T.peel(t) if tag(t) not in ('bin', 'c', 'un') else t
    if tag(t) == 'bin' and t[1] == '/' and T.is_const(t[3]) and isinstance(t[3][1], (int, float)) and t[3][1] != 0:
        l, c = _lin(t[2])
        return {k: v / t[3][1] for k, v in l.items()}, c / t[3][1]
    if tag(t) == 'bin' and t[1] in ('+', '-'):
        la, ca = _lin(t[2])
        lb, cb = _lin(t[3])
        s = 1 if t[1] == '+' else -1
        out = dict(la)
        for k, v in lb.items():
            out[k] = out.get(k, 0) + s * v
        return {k: v for k, v in out.items() if abs(v) > 1e-12}, ca + s * cb
    if tag(t) == 'bin' and t[1] == '*':
        for a, b in ((t[2], t[3]), (t[3], t[2])):
            if T.is_const(a) and isinstance(a[1], (int, float)):
                l, c = _lin(b)
                return {k: v * a[1] for k, v in l.items()}, c * a[1]
    if tag(t) == 'un' and t[1] == '-':
        l, c = _lin(t[2])
        return {k: -v for k, v in l.items()}, -c
    if T.is_const(t) and isinstance(t[1], (int, float)) and not isinstance(t[1], bool):
        return {}, t[1]
    return {t: 1}, 0

def _sub(a, b):
    out = dict(a[0])
    for k, v in b[0].items():
        out[k] = out.get(k, 0) - v
    return {k: v for k, v in out.items() if abs(v) > 1e-12}, a[1] - b[1]

def _facts_of(guard):
    """[(linear form, strict?)] with form > 0 (strict) or >= 0 known to hold."""
    out = [(({_NMAX: 1, _NMIN: -1}, 0), False)]           # the largest value is not below the smallest
    for l in guard_literals(guard):
        neg = tag(l) == 'not'
        c = l[1] if neg else l
        if tag(c) != 'cmp' or c[1] not in ('lt', 'le'):
            continue
        a, b = _lin(c[2]), _lin(c[3])
        if not neg:
            out.append((_sub(b, a), c[1] == 'lt'))         # a < b  /  a <= b
        else:
            out.append((_sub(a, b), c[1] == 'le'))         # not a < b: a >= b;  not a <= b: a > b
    return out


def positive_span(ctx, rule='C19-R9'):
    """The pair (min_val, max_val) that minrange2minmax derives for the min-max scaling spans a positive range on every
    path: max_val - min_val, as a linear form in nanmax(vals), nanmin(vals) and min_range, is positive given the guard of
    the return (and nanmax >= nanmin).  A zero span - identical values and a minimum range of 0 - makes the scaling
    0 / 0: every height becomes NaN, find_slices takes the hits for non-detections and an overcast deck is reported NCD."""
    fx = effects(ctx)
    p = ctx.project
    q = f'{MOD}.minrange2minmax'
    f = p.func(q, rule)
    ctx.saw(f)
    NMAX = ('call', ('g', 'numpy.nanmax'), (V,), ())
    NMIN = ('call', ('g', 'numpy.nanmin'), (V,), ())

    lin, sub, facts_of = _lin, _sub, _facts_of

    def positive(d, facts):
        if not d[0]:
            return d[1] > 0
        for (ff, strict) in facts:
            if not strict:
                continue
            rest = sub(d, ff)
            if not rest[0] and rest[1] >= 0:
                return True
            for (gg, _) in facts:
                r2 = sub(rest, gg)
                if not r2[0] and r2[1] >= 0:
                    return True
        return False
    rets = [e for e in split_alternatives(fx.deep_events(q)) if e.kind == 'return' and not e.ctx]
    n = 0
    for e in rets:
        v = e.value
        if tag(v) != 'tuple' or len(v[1]) != 2:
            ctx.violation(rule, q, e.node, e.loc(), f'minrange2minmax returns {T.show(v, maxlen=100)}: not a (min, max) pair',
                          instance='minrange2minmax: returns a pair')
            continue
        # a value selected on the way (`if min_range <= 0: min_range = 1`) is looked at alternative by alternative
        phis = []
        for x in T.walk(v):
            if tag(x) == 'phi' and x not in phis:
                phis.append(x)
        if len(phis) > 3:
            raise AnalysisError(rule, 'too many selections in the value returned by minrange2minmax')
        from itertools import product as _product
        for choice in _product(*[ph[1] for ph in phis]):
            mapping = {ph: alt[1] for ph, alt in zip(phis, choice)}
            vv = T.subst(v, mapping) if mapping else v
            if tag(vv) != 'tuple' or len(vv[1]) != 2:
                continue
            l_, h = vv[1]
            if True:
                g = T.mk_and([e.guard] + [alt[0] for alt in choice])
                if g == T.FALSE:
                    continue
                for alt in (T.dnf(g) or [g]):
                    n += 1
                    d = sub(lin(h), lin(l_))
                    ctx.check(positive(d, facts_of(alt)), rule, q, e.node, e.loc(),
                              f'under {T.show(alt, maxlen=160)} minrange2minmax returns ({T.show(l_, maxlen=60)}, '
                              f'{T.show(h, maxlen=60)}): nothing makes max_val - min_val positive there - for identical values '
                              'and a minimum range of 0 the span is 0, the min-max scaling is 0 / 0, every height becomes NaN '
                              'and find_slices takes all hits for non-detections (an overcast deck reported as NCD)',
                              instance='minrange2minmax: the derived (min_val, max_val) span a positive range')
    ctx.floor(rule, 'return alternatives of minrange2minmax', n, 2)


def stateless(ctx, rule='C19-R9'):
    """A scaling is a function of its arguments: nothing computed in one call (edges, ranges, offsets) is kept in a
    module-level object, a memoising decorator or a default argument for the next call - `undo` with other
    parameters than the `do` before it would use the stale values."""
    from sa.rules.confinement import module_state
    fx = effects(ctx)
    entries = sorted(q for q, f in ctx.project.funcs.items()
                     if (f.module.name == MOD or q.rsplit('.', 1)[0] == MOD) and '<locals>' not in q)
    scope = fx.reachable([q for q in entries if q in fx.summ])
    ctx.floor(rule, 'scaling functions and what they call', len(scope), 5)
    module_state(ctx, rule, scope=scope)


def _solve(rows, rhs):
    """Unique solution of the (possibly over-determined) linear system rows . x = rhs, or None."""
    from fractions import Fraction as Fr
    n = len(rows[0]) if rows else 0
    m = [[Fr(v).limit_denominator(10 ** 9) for v in r] + [Fr(b).limit_denominator(10 ** 9)] for r, b in zip(rows, rhs)]
    piv = 0
    for col in range(n):
        r = next((i for i in range(piv, len(m)) if m[i][col] != 0), None)
        if r is None:
            return None                         # a multiplier left free: not looked for
        m[piv], m[r] = m[r], m[piv]
        m[piv] = [v / m[piv][col] for v in m[piv]]
        for i in range(len(m)):
            if i != piv and m[i][col] != 0:
                m[i] = [a - m[i][col] * b for a, b in zip(m[i], m[piv])]
        piv += 1
    if any(r[-1] != 0 for r in m[piv:]):
        return None
    return [m[i][-1] for i in range(n)]


def _entails_nonneg(d, facts) -> bool:
    """Is d >= 0 a non-negative combination of at most three of the facts (each a linear form known to be >= 0 or > 0)
    plus a non-negative constant (a Farkas certificate, found by solving for the multipliers)?  Also true when the
    facts contradict each other (the alternative cannot happen)."""
    from itertools import combinations

    def certificate(target, need_strict_for_zero):
        names = sorted({k for k in target[0]} | {k for f, _ in facts for k in f[0]}, key=str)
        for size in (0, 1, 2, 3):
            for sub_ in combinations(range(len(facts)), size):
                fs = [facts[i] for i in sub_]
                if size == 0:
                    if not target[0] and (target[1] > 0 or (target[1] >= 0 and not need_strict_for_zero)):
                        return True
                    continue
                rows = [[f[0].get(k, 0) for f, _ in fs] for k in names]
                sol = _solve(rows, [target[0].get(k, 0) for k in names])
                if sol is None or any(x < 0 for x in sol):
                    continue
                const = target[1] - sum(float(x) * f[1] for x, (f, _) in zip(sol, fs))
                strict = any(x > 0 and st for x, (_, st) in zip(sol, fs))
                if const > 1e-12 or (abs(const) <= 1e-12 and (strict or not need_strict_for_zero)):
                    return True
        return False
    if certificate(d, False):
        return True
    # contradiction: 0 = (combination of facts) + positive constant, i.e. the target -tiny is reachable
    return certificate(({}, 0.0), True)


def interval_contains_data(ctx, rule='C19-R10'):
    """The pair (min_val, max_val) derived for the min-max scaling encloses the data on every path: nanmin - min_val and
    max_val - nanmax, as linear forms in nanmax, nanmin and min_range, are non-negative given the guard of the return.
    Otherwise "min-max" scaled values leave [0, 1] (data wider than the interval they are scaled into)."""
    fx = effects(ctx)
    p = ctx.project
    q = f'{MOD}.minrange2minmax'
    f = p.func(q, rule)
    ctx.saw(f)
    from itertools import product as _product
    rets = [e for e in split_alternatives(fx.deep_events(q)) if e.kind == 'return' and not e.ctx]
    n = 0
    for e in rets:
        v = e.value
        if tag(v) != 'tuple' or len(v[1]) != 2:
            continue            # reported by the positive-span rule
        phis = []
        for x in T.walk(v):
            if tag(x) == 'phi' and x not in phis:
                phis.append(x)
        if len(phis) > 3:
            raise AnalysisError(rule, 'too many selections in the value returned by minrange2minmax')
        for choice in _product(*[ph[1] for ph in phis]):
            mapping = {ph: alt[1] for ph, alt in zip(phis, choice)}
            vv = T.subst(v, mapping) if mapping else v
            if tag(vv) != 'tuple' or len(vv[1]) != 2:
                continue
            lo, hi = vv[1]
            g = T.mk_and([e.guard] + [alt[0] for alt in choice])
            if g == T.FALSE:
                continue
            for alt in (T.dnf(g) or [g]):
                n += 1
                facts = _facts_of(alt)
                below = _sub(({_NMIN: 1}, 0), _lin(lo))
                above = _sub(_lin(hi), ({_NMAX: 1}, 0))
                ok = _entails_nonneg(below, facts) and _entails_nonneg(above, facts)
                ctx.check(ok, rule, q, e.node, e.loc(),
                          f'under {T.show(alt, maxlen=160)} minrange2minmax returns ({T.show(lo, maxlen=60)}, '
                          f'{T.show(hi, maxlen=60)}): nothing there makes this interval enclose [nanmin, nanmax] - data wider '
                          'than the interval are scaled outside [0, 1]',
                          instance='minrange2minmax: the derived (min_val, max_val) enclose the data')
    ctx.floor(rule, 'return alternatives of minrange2minmax', n, 2)


def forward_and_backward_sets_distinct(ctx, rule='C19-R11'):
    """plots.tools.get_scaling_kwargs hands back the parameters of the scaling and those of its inverse: two dictionaries.
    The second is a copy of the first with mode 'undo' - built from the first *without* a copy it is the same object, both
    say 'undo', and the parameters derived from the original data un-scale instead of scaling."""
    fx = effects(ctx)
    p = ctx.project
    q = 'ampycloud.plots.tools.get_scaling_kwargs'
    f = p.func(q, rule)
    ctx.saw(f)
    rets = [e for e in fx.deep_events(q) if e.kind == 'return' and not e.ctx]
    n = 0
    for e in rets:
        v = e.value
        if tag(v) != 'tuple' or len(v[1]) != 2:
            ctx.violation(rule, q, e.node, e.loc(), f'get_scaling_kwargs returns {T.show(v, maxlen=100)}: not a pair',
                          instance='get_scaling_kwargs: returns (scale_kwargs, descale_kwargs)')
            continue
        n += 1
        a, b = v[1]
        base = b
        while tag(base) == 'upd':
            base = base[1]
        base_a = a
        while tag(base_a) == 'upd':
            base_a = base_a[1]
        copied = tag(base) == 'call' and tag(base[1]) == 'g' and base[1][1] in ('copy.deepcopy', 'copy.copy', 'builtins.dict') \
            or tag(base) == 'dict' or (tag(base) == 'mcall' and base[2] == 'copy')
        ctx.check(base != base_a or copied, rule, q, e.node, e.loc(),
                  'the backward parameter set is the forward one under another name (no copy in between): setting its mode to '
                  "'undo' sets the mode of both", instance='get_scaling_kwargs: the two parameter sets are two objects')
        ctx.check(_mode_of(a) in (C('do'), None) and _mode_of(b) == C('undo'), rule, q, e.node, e.loc(),
                  f"the pair carries modes {T.show(_mode_of(a)) if _mode_of(a) is not None else None} / "
                  f"{T.show(_mode_of(b)) if _mode_of(b) is not None else None}: expected 'do' (or none) for the first and 'undo' for the second",
                  instance="get_scaling_kwargs: modes 'do' / 'undo'")
    ctx.floor(rule, 'returns of get_scaling_kwargs', n, 1)


def _upd_items(t):
    out = []
    while tag(t) == 'upd':
        tgt = t[2]
        key = tgt[2] if tag(tgt) in ('sub', 'col') and len(tgt) > 2 else tgt
        out.append((key if tag(key) == 'c' else C(key) if isinstance(key, str) else key, t[3]))
        t = t[1]
    return out


def _mode_of(t):
    for k, v in _upd_items(t):
        if k == C('mode'):
            return v
    while tag(t) == 'upd':
        t = t[1]
    if tag(t) == 'dict':                      # {**scale_kwargs, 'mode': 'undo'}
        for k, v in reversed(t[1]):
            if k == C('mode'):
                return v
    return None


def rescaling_passes_parameters_on(ctx, rule='C19-R12'):
    """CeiloChunk.data_rescaled hands the scaling parameters it was given to apply_scaling as they are: which parameters
    are derived from the data, and from which data (the whole column, non-detections skipped by nanmax), is decided in one
    place - scaler.convert_kwargs, which plots.tools.get_scaling_kwargs uses as well to undo the scaling. A parameter
    derived here in another way (shift = latest *valid* hit) makes the scaled values disagree with the parameters every
    other user derives, and the undo no longer restores the data."""
    fx = effects(ctx)
    p = ctx.project
    q = 'ampycloud.data.CeiloChunk.data_rescaled'
    f = p.func(q, rule)
    ctx.saw(f)
    calls = [e for e in fx.deep_events(q) if e.kind == 'call' and call_head(e) == f'{MOD}.apply_scaling']
    ctx.floor(rule, 'apply_scaling calls in data_rescaled', len(calls), 1)
    for e in calls:
        extra = [v for k, v in e.call[3] if k is None or k not in ('fct',)]
        derived = [v for v in extra if T.contains(v, lambda x: tag(x) in ('col', 'mask', 'rows') or
                                                   (tag(x) == 'attr' and x[2] == '_data'))]
        ctx.check(not derived, rule, q, e.node, e.loc(),
                  f'apply_scaling is given parameters computed from the chunk data here ({T.show(derived[0], maxlen=140) if derived else ""}): '
                  'data-derived scaling parameters come from scaler.convert_kwargs alone',
                  instance='data_rescaled: scaling parameters passed on as given')
