"""C19: scalings - NaN-safe reductions, do/undo mutually inverse, order-preserving coefficient."""
from __future__ import annotations

from sa import terms as T
from sa.core import AnalysisError
from sa.rules.common import effects, call_head, guard_literals, kwarg
from sa.symalg import Poly, to_poly, denominators
from sa.terms import tag, C

MOD = 'ampycloud.scaler'
V = ('p', 'vals')
MODE_DO = ('cmp', 'eq', C('do'), ('p', 'mode'))
MODE_UNDO = ('cmp', 'eq', C('undo'), ('p', 'mode'))
UNSAFE = {'numpy.max', 'numpy.min', 'numpy.amax', 'numpy.amin', 'numpy.mean', 'numpy.median', 'numpy.ptp',
          'numpy.std', 'numpy.sum', 'builtins.max', 'builtins.min', 'builtins.sum', 'numpy.average', 'numpy.percentile'}
UNSAFE_METHODS = {'max', 'min', 'mean', 'sum', 'ptp', 'std'}


def nan_safe(ctx, rule='C19-R1'):
    fx = effects(ctx)
    p = ctx.project
    n = 0
    for q, f in sorted(p.funcs.items()):
        if f.module.name != MOD or '<locals>' in q:
            continue
        ctx.saw(f)
        for e in fx.own_events(q):
            if e.kind != 'call':
                continue
            head = call_head(e) or ''
            c = e.call
            arg = c[2][0] if tag(c) == 'call' and c[2] else (c[1] if tag(c) == 'mcall' else None)
            if arg is None or T.root(T.peel(arg)) != V:
                continue
            # selections that remove NaNs first are fine: vals[~isnan(vals)]
            cleaned = any(tag(x) == 'mask' and T.contains(x[2], lambda y: tag(y) == 'call' and y[1] == ('g', 'numpy.isnan'))
                          for x in T.walk(arg))
            if head in UNSAFE or (tag(c) == 'mcall' and c[2] in UNSAFE_METHODS and T.root(T.peel(c[1])) == V):
                n += 1
                ctx.check(cleaned, rule, q, e.node, e.loc(),
                          f'{head} over the data is not NaN-safe: a single non-detection (NaN) turns the scaling '
                          'parameters, and with them every scaled value, into NaN',
                          instance=f'{q.split(".")[-1]}: {head} NaN-safe')
            elif head.startswith('numpy.nan'):
                n += 1
                ctx.ok(rule, f'{q.split(".")[-1]}: {head} (NaN-safe reduction)', e.loc())
    ctx.floor(rule, 'reductions over the data in scaler.py', n, 6)
    # all-NaN early return dominates the derivation of the parameters
    q = f'{MOD}.apply_scaling'
    f = p.func(q, rule)
    evs = fx.deep_events(q)
    conv = [e for e in evs if e.kind == 'call' and call_head(e) == f'{MOD}.convert_kwargs']
    allnan = ('call', ('g', 'numpy.all'), (('call', ('g', 'numpy.isnan'), (V,), ()),), ())
    ok = bool(conv) and all(T.mk_not(allnan) in guard_literals(e.guard) for e in conv)
    rets = [e for e in evs if e.kind == 'return' and allnan in guard_literals(e.guard) and e.value == V]
    ctx.check(ok and bool(rets), rule, q, f.node.name, f.loc(),
              'an all-NaN input is not passed through before the scaling parameters are derived from the data '
              '(nanmax of nothing)', instance='apply_scaling: all-NaN passthrough dominates convert_kwargs')
    # step_scale starts from an all-NaN output
    sq = f'{MOD}.step_scale'
    sf = p.func(sq, rule)
    init = [e for e in fx.own_events(sq) if e.kind == 'call' and call_head(e) in ('numpy.full_like', 'numpy.full')]
    ok = any(len(e.call[2]) >= 2 and e.call[2][1] in (('g', 'numpy.nan'),) for e in init)
    ctx.check(ok, rule, sq, sf.node.name, sf.loc(), 'step_scale output is not initialised with NaN',
              instance='step_scale: output starts as NaN (NaN in -> NaN out)')


def _exprs(fx, q, rule):
    """(do expression, undo expression, events) for a scaling routine."""
    evs = fx.deep_events(q)
    do = [e for e in evs if e.kind in ('return', 'store') and MODE_DO in guard_literals(e.guard)
          and not T.is_const(e.value)]
    undo = [e for e in evs if e.kind in ('return', 'store') and MODE_UNDO in guard_literals(e.guard)
            and not T.is_const(e.value)]
    if len(do) != 1 or len(undo) != 1:
        raise AnalysisError(rule, f'{q}: {len(do)} do / {len(undo)} undo expressions found')
    return do[0], undo[0]


def inverse_pairs(ctx, rule='C19-R2'):
    fx = effects(ctx)
    p = ctx.project
    for name in ('shift_and_scale', 'minmax_scale', 'step_scale'):
        q = f'{MOD}.{name}'
        f = p.func(q, rule)
        ctx.saw(f)
        de, ue = _exprs(fx, q, rule)
        atomised = frozenset(denominators(de.value) | denominators(ue.value))
        try:
            dp = to_poly(de.value, V, atomised)
            up = to_poly(ue.value, V, atomised)
            a, b = dp.coef_of(V)           # do(v) = a*v + b
            c, d = up.coef_of(V)           # undo(w) = c*w + d
        except AnalysisError as err:
            ctx.violation(rule, q, de.node, de.loc(), f'{name}: scaling expression is not affine in the data ({err.why})',
                          instance=f'{name}: do/undo affine')
            continue
        comp_lin = c * a
        comp_const = c * b + d
        ok = comp_lin == Poly.const(1) and comp_const == Poly()
        ctx.check(ok, rule, q, ue.node, ue.loc(),
                  f'{name}: undo(do(v)) = ({comp_lin.show()})*v + ({comp_const.show()}): not the identity; do = '
                  f'({a.show()})*v + ({b.show()}), undo = ({c.show()})*w + ({d.show()})',
                  facts={'do': T.show(de.value, maxlen=300), 'undo': T.show(ue.value, maxlen=300)},
                  instance=f'{name}: undo(do(v)) == v')
        ctx.sample({f'{name}': {'do': f'({a.show()})*v + ({b.show()})', 'undo': f'({c.show()})*w + ({d.show()})'}})
        # R3: the coefficient of the forward map is 1 / (one positive quantity)
        mono = a.is_monomial() and list(a.d.values()) == [1] and len(list(a.d)[0]) == 1 and list(a.d)[0][0][1] == -1
        ctx.check(mono, 'C19-R3', q, de.node, de.loc(),
                  f'{name}: forward coefficient is {a.show()}: expected 1 / scale (a single positive quantity), which '
                  'makes the scaling order-preserving', instance=f'{name}: do(v) increasing (coefficient 1/positive)')
        # masks of store-based scalings: the values read and the cells written use the same condition
        for e in (de, ue):
            if e.kind == 'store':
                tm = e.target[2] if tag(e.target) == 'mask' else None
                vm = [x[2] for x in T.walk(e.value) if tag(x) == 'mask' and x[1] == V]
                ctx.check(tm is not None and vm and all(m == tm for m in vm), rule, q, e.node, e.loc(),
                          f'{name}: values are read under another condition than the one they are written under',
                          instance=f'{name}: same step mask on both sides')


def continuity_offset_guard(ctx, rule='C19-R5'):
    """The continuity correction of step scaling is dropped (set to 0) only when there is no step at all."""
    fx = effects(ctx)
    p = ctx.project
    q = f'{MOD}.step_scale'
    f = p.func(q, rule)
    de, ue = _exprs(fx, q, rule)
    steps = ('p', 'steps')
    n = ('call', ('g', 'builtins.len'), (steps,), ())
    none_forms = {('cmp', 'eq', C(0), n), ('cmp', 'le', n, C(0)), ('cmp', 'lt', n, C(1)), T.mk_not(steps),
                  T.mk_not(('cmp', 'lt', C(0), n))}
    found = 0
    for e in (de, ue):
        for ph in [x for x in T.walk(e.value) if tag(x) == 'phi' and any(v == C(0) for _, v in x[1])]:
            found += 1
            zero_guards = [g for g, v in ph[1] if v == C(0)]
            ok = all(g in none_forms for g in zero_guards)
            ctx.check(ok, rule, q, e.node, e.loc(),
                      f'the continuity offset is dropped under {T.show(zero_guards[0], maxlen=80)}: with one step edge '
                      'the second segment then restarts at 0 - a jump and an order reversal at the edge',
                      instance='step_scale: continuity offset omitted only when there are no steps')
    ctx.floor(rule, 'continuity-offset selections in step_scale', found, 2)


def minrange(ctx, rule='C19-R4'):
    fx = effects(ctx)
    p = ctx.project
    q = f'{MOD}.minrange2minmax'
    f = p.func(q, rule)
    ctx.saw(f)
    evs = fx.deep_events(q)
    rets = [e for e in evs if e.kind == 'return' and not e.ctx]
    mn = ('call', ('g', 'numpy.nanmin'), (V,), ())
    mx = ('call', ('g', 'numpy.nanmax'), (V,), ())
    mr = ('p', 'min_range')
    span_ok = T.lin_cmp(('cmp', 'le', mr, ('bin', '-', mx, mn)))
    found = {'wide': False, 'narrow': False}
    for e in rets:
        v = e.value
        if tag(v) != 'tuple' or len(v[1]) != 2:
            continue
        lits = [T.lin_cmp(l) for l in guard_literals(e.guard)]
        lo, hi = v[1]
        if span_ok in lits:
            found['wide'] = True
            ctx.check((lo, hi) == (mn, mx), rule, q, e.node, e.loc(),
                      f'with a span of at least min_range the interval is ({T.show(lo)}, {T.show(hi)}): expected '
                      '(nanmin, nanmax)', instance='minrange2minmax: span >= min_range -> (nanmin, nanmax)')
        elif T.lin_cmp(T.mk_not(('cmp', 'le', mr, ('bin', '-', mx, mn)))) in lits:
            found['narrow'] = True
            pl, ph = to_poly(lo, V), to_poly(hi, V)
            width = ph - pl
            centre = ph + pl
            ok = width == Poly.atom(mr) and centre == Poly.atom(mx) + Poly.atom(mn)
            ctx.check(ok, rule, q, e.node, e.loc(),
                      f'below min_range the interval has width {width.show()} and twice-centre {centre.show()}: expected '
                      'width min_range, centred on (nanmax + nanmin) / 2',
                      instance='minrange2minmax: span < min_range -> symmetric interval of width min_range')
    ctx.check(all(found.values()), rule, q, f.node.name, f.loc(),
              f'minrange2minmax branches found: {found}', instance='minrange2minmax: both branches present')
    # convert_kwargs derives min/max through it, and the shift with nanmax
    cq = f'{MOD}.convert_kwargs'
    cf = p.func(cq, rule)
    calls = [e for e in fx.own_events(cq) if e.kind == 'call' and call_head(e) == q]
    ok = bool(calls) and all(e.call[2][:1] == (V,) for e in calls)
    ctx.check(ok, rule, cq, cf.node.name, cf.loc(), 'min-max parameters are not derived by minrange2minmax(vals, min_range)',
              instance='convert_kwargs: (min_val, max_val) = minrange2minmax(vals, min_range)')
    shifts = [e for e in fx.own_events(cq) if e.kind == 'store' and T.contains(e.target, lambda x: x == 'shift' or
              (tag(x) == 'col' and x[2] == 'shift'))]
    ok = bool(shifts) and all(e.value == mx for e in shifts)
    ctx.check(ok, rule, cq, cf.node.name, cf.loc(), 'the default shift is not nanmax(vals)',
              instance='convert_kwargs: shift = nanmax(vals)')
