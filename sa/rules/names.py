"""C16: ceilometer names are labels only - they may be compared for equality, tested for membership in
the exclusion list, de-duplicated and counted; never ordered, sliced, parsed, or used positionally."""
from __future__ import annotations

from sa.anchors import is_helper
from sa import terms as T
from sa.core import AnalysisError
from sa.rules.common import effects, processing_path, call_head
from sa.terms import tag, C

EXCL = ('prm', ('EXCLUDE_FOR_BASE_HEIGHT_CALC',))
NAME_PRESERVING_CALLS = {'numpy.unique', 'builtins.list', 'builtins.tuple', 'builtins.set', 'builtins.sorted',
                         'numpy.array', 'numpy.asarray', 'builtins.frozenset', 'numpy.sort', 'builtins.reversed',
                         'builtins.str', 'pandas.unique'}
NAME_PRESERVING_METHODS = {'unique', 'astype', 'copy', 'tolist', 'to_list', 'to_numpy', 'dropna', 'drop_duplicates',
                           'reset_index', 'sort_values', 'str', 'strip', 'lower', 'upper', 'keys'}
ALLOWED_METHODS = {'unique', 'astype', 'copy', 'apply', 'map', 'isin', 'eq', 'ne', 'nunique', 'notna', 'isna',
                   'duplicated', 'drop_duplicates', 'equals', 'isdisjoint', 'tolist', 'to_list', 'to_numpy',
                   'value_counts', 'keys', 'items'}
ORDER_CALLS = {'builtins.sorted', 'builtins.min', 'builtins.max', 'numpy.sort', 'numpy.argsort', 'numpy.min',
               'numpy.max', 'numpy.argmin', 'numpy.argmax', 'numpy.searchsorted', 'numpy.lexsort',
               'builtins.int', 'builtins.float', 'builtins.hash', 'builtins.ord', 'builtins.id', 'builtins.reversed',
               'numpy.nanmin', 'numpy.nanmax', 'builtins.next', 'builtins.iter'}
UNORDERED_REDUCTIONS = {'numpy.sum', 'builtins.sum', 'builtins.len', 'builtins.set', 'builtins.any', 'builtins.all',
                        'numpy.nansum', 'builtins.frozenset', 'numpy.any', 'numpy.all', 'numpy.count_nonzero'}


class Scanner:
    def __init__(self, fx, ctx, rule):
        self.fx, self.ctx, self.rule = fx, ctx, rule
        self.found = []      # (kind, term)
        self.allowed = 0
        self.loops = fx.ex.loops     # loop table of the executor whose terms are scanned

    def namey(self, t, tv) -> bool:
        tg = tag(t)
        if t in tv or t == EXCL:
            return True
        if tg == 'col':
            return t[2] == 'ceilo' or (t[2] != 'ceilo' and False)
        if tg in ('mask', 'vals', 'rows'):
            return self.namey(t[1], tv)
        if tg == 'sub':
            return self.namey(t[1], tv)
        if tg == 'call' and tag(t[1]) == 'g' and t[1][1] in NAME_PRESERVING_CALLS and t[2]:
            return self.namey(t[2][0], tv)
        if tg == 'mcall' and t[2] in NAME_PRESERVING_METHODS:
            return self.namey(t[1], tv)
        if tg == 'attr' and t[2] == 'str':
            return self.namey(t[1], tv)
        if tg == 'phi':
            return any(self.namey(v, tv) for _, v in t[1])
        if tg == 'lv':
            loop = self.loops.get(t[1])
            return loop is not None and loop.iter is not None and t[2].startswith('elem') and self.namey(loop.iter, tv)
        if tg in ('list', 'tuple', 'set'):
            return any(self.namey(x, tv) for x in t[1])
        if tg == 'lc':
            return self.namey(t[2], tv | self._lc_vars(t, tv))
        return False

    def _lc_vars(self, lc, tv):
        out = set()
        # comprehension variables are ('cv', depth, 'gi' | 'gi.k'); find the depth used in this lc
        depths = {x[1] for x in T.walk(lc[2]) if tag(x) == 'cv'}
        for gi, (it, conds) in enumerate(lc[3]):
            if self.namey(it, tv):
                for d in depths or {1}:
                    out.add(('cv', d, f'{gi}'))
                    out.add(('cv', d, f'{gi}.elem'))
        return out

    def bad(self, kind, t):
        self.found.append((kind, t))

    def scan(self, t, tv=frozenset()):
        tg = tag(t)
        if tg is None:
            return
        if tg == 'cmp':
            a, b = t[2], t[3]
            na, nb = self.namey(a, tv), self.namey(b, tv)
            if t[1] in ('lt', 'le') and (na or nb):
                self.bad('ceilometer names are compared by order', t)
            elif t[1] in ('eq', 'ne') and (na or nb):
                self.allowed += 1
            elif t[1] == 'in' and na:
                if b == EXCL or (self.namey(b, tv) and not (tag(b) == 'mcall' and b[2] == 'join')):
                    self.allowed += 1
                else:
                    self.bad('a ceilometer name is tested for membership in something that is not the exclusion '
                             'list / a list of names (substring search on a string)', t)
            elif t[1] == 'in' and nb and (T.is_const(a) and isinstance(a[1], str) and len(a[1]) <= 2):
                self.bad('ceilometer names are searched character-wise', t)
        elif tg == 'bin':
            if t[1] != '&' and (self.namey(t[2], tv) or self.namey(t[3], tv)):
                self.bad(f'arithmetic / concatenation ({t[1]}) on ceilometer names', t)
        elif tg == 'sub':
            if self.namey(t[1], tv) and tag(t[1]) != 'mask' and (T.is_const(t[2]) or tag(t[2]) == 'slice'
                                                                    or tag(t[2]) in ('lv', 'cv', 'bin')):
                self.bad('the list of ceilometer names is used positionally', t)
        elif tg == 'call' and tag(t[1]) == 'g':
            q = t[1][1]
            if q in ORDER_CALLS and t[2] and self.namey(t[2][0], tv):
                self.bad(f'{q}() of ceilometer names (depends on their spelling / sort order)', t)
        elif tg == 'mcall':
            if self.namey(t[1], tv) and t[2] not in ALLOWED_METHODS and t[2] not in ('values',):
                self.bad(f'method .{t[2]}() applied to ceilometer names', t)
            if t[2] in ('sort_values', 'set_index', 'sort_index', 'groupby', 'rank') and any(
                    a == C('ceilo') or (tag(a) in ('list', 'tuple') and C('ceilo') in a[1])
                    for a in list(t[3]) + [v for _, v in t[4]]):
                if t[2] != 'groupby':
                    self.bad(f'.{t[2]}() keyed by the ceilometer name', t)
            if t[2] in ('apply', 'map') and self.namey(t[1], tv) and t[3] and tag(t[3][0]) == 'lam':
                self.scan(t[3][0][2], tv | {('lamv', 0)})
                for a in t[3][1:]:
                    self.scan(a, tv)
                self.scan(t[1], tv)
                return
        elif tg == 'attr' and t[2] == 'str' and self.namey(t[1], tv):
            self.bad('string accessor on ceilometer names', t)
        elif tg == 'lc':
            inner = tv | self._lc_vars(t, tv)
            self.scan(t[2], inner)
            for it, conds in t[3]:
                self.scan(it, tv)
                for c in conds:
                    self.scan(c, inner)
            return
        # recurse
        for x in t[1:]:
            self._rec(x, tv)

    def _rec(self, x, tv):
        if isinstance(x, tuple):
            if x and isinstance(x[0], str):
                self.scan(x, tv)
            else:
                for y in x:
                    self._rec(y, tv)


def labels_only(ctx, rule='C16-R1'):
    fx = effects(ctx)
    p = ctx.project
    reach = processing_path(fx)
    reach = {q for q in reach if not p.funcs[q].module.name.startswith('ampycloud.plots')
             and p.funcs[q].module.name != 'ampycloud.utils.mocker'}
    total_allowed = 0
    for q in sorted(reach):
        f = p.funcs[q]
        sc = Scanner(fx, ctx, rule)
        # a private helper all of whose callers live in its own module is judged in the context of those callers
        # (expanded at the call site, its parameters bound to what is passed): extracting one changes nothing
        callers = fx.callers.get(q, set())
        if (is_helper(p, q) or (f.name.startswith('_') and not f.name.startswith('__'))) and callers and \
                not f.is_property and all(c in p.funcs and c in reach for c in callers):
            continue
        sc.loops = fx.deep_loops(q)
        for e in fx.deep_events(q):
            if e.kind in ('assign', 'propget', 'cond'):
                continue
            before = len(sc.found)
            if e.kind in ('store', 'aug', 'mutcall', 'del') and e.base is not None and tag(T.root(e.base)) == 'g':
                # something that outlives the chunk (a module- or class-level object) is filled per ceilometer name:
                # what one data set stored under 'A' is found by the next one under the same spelling
                terms = [x for nm, v in fx.terms_of(e) if nm not in ('guard', 'base') for x in T.walk(v)]
                if any(sc.namey(x, frozenset()) for x in terms if tag(x) in ('lv', 'cv', 'col', 'call', 'mcall')):
                    sc.bad(f'{T.show(T.root(e.base))} is kept between chunks and keyed by / filled with ceilometer names',
                           e.target if e.target is not None else e.base)
            is_log = e.kind == 'call' and ('.logger.' in (call_head(e) or '') or call_head(e) == 'warnings.warn')
            for nm, v in fx.terms_of(e):
                if nm in ('guard', 'base'):
                    continue
                if is_log:
                    continue
                sc.scan(v)
            for kind, t in sc.found[before:]:
                ctx.violation(rule, q, e.node, e.loc(),
                              f'{kind}: {T.show(t, maxlen=160)} - renaming the ceilometers one-to-one would change '
                              'the outcome', facts={'term': T.show(t, maxlen=400)}, instance=f'{q}: {kind}')
        total_allowed += sc.allowed
        if sc.allowed:
            ctx.ok(rule, f'{q}: {sc.allowed} uses of ceilometer names, all equality / membership tests', f.loc())
    ctx.floor(rule, 'equality / membership uses of ceilometer names on the processing path', total_allowed, 5)


def _lc_occurrences(t, pred, parent=None, out=None):
    """[(comprehension term, its parent term)] for every occurrence in t."""
    if out is None:
        out = []
    if not isinstance(t, tuple):
        return out
    if t and isinstance(t[0], str):
        if tag(t) == 'lc' and pred(t):
            out.append((t, parent))
        for x in t[1:]:
            _lc_occurrences_rec(x, pred, t, out)
    return out


def _lc_occurrences_rec(x, pred, parent, out):
    if isinstance(x, tuple):
        if x and isinstance(x[0], str):
            _lc_occurrences(x, pred, parent, out)
        else:
            for y in x:
                _lc_occurrences_rec(y, pred, parent, out)


def order_insensitive_reductions(ctx, rule='C16-R2'):
    """Per-ceilometer results are only combined by order-insensitive reductions of exact integers."""
    fx = effects(ctx)
    p = ctx.project
    reach = {q for q in processing_path(fx) if not p.funcs[q].module.name.startswith('ampycloud.plots')
             and p.funcs[q].module.name != 'ampycloud.utils.mocker'}
    sc = Scanner(fx, ctx, rule)
    n = 0
    for q in sorted(reach):
        seen = set()
        f = p.funcs[q]
        callers = fx.callers.get(q, set())
        if (is_helper(p, q) or (f.name.startswith('_') and not f.name.startswith('__'))) and callers and \
                not f.is_property and all(c in reach for c in callers):
            continue        # a helper is judged where it is used, with its parameters bound (see labels_only)
        sc.loops = fx.deep_loops(q)
        events_q = fx.deep_events(q)
        for e in events_q:
            for nm, v in fx.terms_of(e):
                if nm in ('guard', 'base'):
                    continue
                occ = _lc_occurrences(v, lambda x: any(sc.namey(it, frozenset()) for it, _ in x[3]))
                for lc, parent in occ:
                    if parent is None and (e.kind == 'assign' or (e.kind == 'return' and e.ctx) or
                                           (e.kind == 'call' and e.call == lc)):
                        # bound to a local / handed back by a helper / the value of a call that was read as a
                        # comprehension (`masks.values()` of a dict comprehension): judged where it is consumed
                        continue
                    key = (lc, parent)
                    if key in seen:
                        continue
                    seen.add(key)
                    n += 1
                    ok = lc[1] == 'set' or (parent is not None and tag(parent) == 'call' and tag(parent[1]) == 'g'
                                            and parent[1][1] in UNORDERED_REDUCTIONS and parent[2][:1] == (lc,))
                    ints = tag(lc[2]) == 'call' and lc[2][1] == ('g', 'builtins.len')
                    ctx.check(ok, rule, q, e.node, e.loc(),
                              'a per-ceilometer list (ordered by the sorted ceilometer names) is consumed by '
                              f'{T.show(parent, maxlen=120) if parent is not None else "<statement>"}: not an '
                              'order-insensitive reduction (sum / len / any / set)',
                              instance=f'{q}: per-ceilometer values reduced by sum/len/any')
                    if ok and parent is not None and parent[1][1] in ('numpy.sum', 'builtins.sum', 'numpy.nansum'):
                        ctx.check(ints, rule, q, e.node, e.loc(),
                                  'the per-ceilometer quantities that are summed are not exact integer counts '
                                  "(floating-point summation order would depend on the names' sort order)",
                                  instance=f'{q}: summed quantities are integer counts')
        # explicit loops over the names
        for lid, loop in sc.loops.items():
            if loop.iter is None or not sc.namey(loop.iter, frozenset()):
                continue
            n += 1
            s = fx.deep(q)[1]
            ok = True
            used_terms = [v for e in events_q for _, v in fx.terms_of(e)] + [s.ret]
            for nm, (init_v, body) in loop.carried.items():
                val = ('loopres', lid, nm, init_v, body)
                if nm not in loop.as_lc and body != ('lphi', lid, nm):
                    lphi = ('lphi', lid, nm)
                    acc = tag(body) == 'bin' and body[1] == '+' and lphi in (body[2], body[3])
                    # a per-iteration temporary (recomputed from the loop variable, never read after the loop) is no state
                    temp = not T.contains(body, lambda x: tag(x) == 'lphi' and x[1] == lid) and \
                        not any(t is not None and T.contains(t, lambda x, val=val: x == val) for t in used_terms)
                    ok = ok and (acc or body == lphi or temp)
            ctx.check(ok, rule, q, loop.node, loop.func.loc(loop.node),
                      'a loop over the ceilometer names carries state other than a running sum: its result can '
                      'depend on the order (= spelling) of the names', instance=f'{q}: loop over names only accumulates')
    ctx.floor(rule, 'per-ceilometer comprehensions / loops', n, 1)
