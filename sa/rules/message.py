"""C01 / C02: assembly of the METAR-like message in CeiloChunk.metar_msg."""
from __future__ import annotations

from itertools import product

from sa.anchors import is_helper
from sa import terms as T
from sa.core import AnalysisError
from sa.symexec import Executor
from sa.terms import tag, C

CHUNK = 'ampycloud.data.CeiloChunk'
SELF = ('p', 'self')
MSA = ('prm', ('MSA',))
MSA_IS_NONE = ('cmp', 'is', MSA, T.NONE)
FLAG = ('attr', SELF, '_clouds_above_msa_buffer')
WHICH = ('slices', 'groups', 'layers')
INF_TERMS = {('g', 'numpy.inf'), ('g', 'math.inf'), ('g', 'numpy.Inf'), ('g', 'numpy.infty'),
             ('call', ('g', 'builtins.float'), (C('inf'),), ())}


def run_msg(ctx, which, rule):
    p = ctx.project
    k = p.klass(CHUNK, rule)
    m = p.find_method(k, 'metar_msg')
    if m is None:
        raise AnalysisError(rule, 'anchor method vanished: CeiloChunk.metar_msg')
    ctx.saw(m)
    ex = Executor(p, inline=lambda q, d: q.startswith('ampycloud.data.') or is_helper(p, q), max_depth=6)
    s = ex.run(m, {'which': C(which)})
    return m, ex, s


def specialise(t, msa_none: bool):
    """The term under the assumption that the chunk MSA is (not) None."""
    return T.subst(t, {MSA_IS_NONE: C(msa_none)})


def _join_parts(v):
    """(separator, selection term) if v is  sep.join(<selection>)."""
    if tag(v) == 'mcall' and v[2] == 'join' and len(v[3]) == 1 and T.is_const(v[1]):
        return v[1][1], T.peel(v[3][0])
    return None


def _expected_report(tbl, msa_none):
    sig = ('col', tbl, 'significant')
    base = ('col', tbl, 'height_base')
    if msa_none:
        return [sig] + [T.mk_and([sig, ('cmp', 'lt', base, inf)]) for inf in INF_TERMS]
    return [T.mk_and([sig, ('cmp', 'lt', base, MSA)])]


def _expected_buffer(tbl, msa_none):
    sig = ('col', tbl, 'significant')
    base = ('col', tbl, 'height_base')
    if msa_none:
        return [T.mk_and([sig, ('cmp', 'le', inf, base)]) for inf in INF_TERMS] + [T.FALSE]
    return [T.mk_and([sig, ('cmp', 'le', MSA, base)])]


class MsgFacts:
    """What metar_msg(which) computes, extracted from its exits."""

    @staticmethod
    def _split(e):
        from dataclasses import replace
        alts = _split_alternatives(e.value, e.guard)
        out = []
        for g, v in alts:
            # a guard with disjunctions (flags set on several paths, single-exit restructurings) is one exit per
            # disjunct: the decision tables read conjunctions of literals
            for conj in (T.dnf(g) or [g]):
                if conj != T.FALSE:
                    out.append(replace(e, value=v, guard=conj))
        return out

    def __init__(self, ctx, which, rule):
        self.which = which
        self.m, self.ex, self.s = run_msg(ctx, which, rule)
        self.tbl = ('attr', SELF, '_' + which)
        self.returns = []
        for e in self.s.events:
            if e.kind == 'return' and not e.ctx and e.guard != T.FALSE:
                self.returns.extend(self._split(e))
        self.raises = [e for e in self.s.events if e.kind == 'raise' and e.guard != T.FALSE]
        self.join = None
        for e in self.returns:
            pass
        for e in self.returns:
            if _join_parts(e.value):
                self.join = e
        # atoms
        self.n_term = None


def _split_alternatives(v, guard):
    # a conditional expression / helper with early returns: one exit per alternative, except the
    # NCD-or-NSC selection by the high-cloud flag, which is kept as one value
    if tag(v) == 'phi' and not ({g for g, _ in v[1]} <= {FLAG, T.mk_not(FLAG)}):
        out = []
        for g, alt in v[1]:
            out.extend(_split_alternatives(alt, T.mk_and([guard, g])))
        return out
    return [(guard, v)]


def well_formed_exits(ctx, rule='C01-R1'):
    for which in WHICH:
        mf = MsgFacts(ctx, which, rule)
        m = mf.m
        ctx.check(len(mf.returns) >= 3, rule, m.qname, m.node.name, m.loc(),
                  f"metar_msg('{which}') has {len(mf.returns)} exits", instance=f"metar_msg('{which}'): exits found")
        for e in mf.returns:
            v = e.value
            ok = v in (C('NSC'), C('NCD'))
            kind = 'constant'
            if tag(v) == 'phi':
                alts = {x[1] for x in v[1]}
                guards = {x[0] for x in v[1]}
                ok = alts <= {C('NSC'), C('NCD')} and guards <= {FLAG, T.mk_not(FLAG)}
                kind = 'NCD/NSC by the high-cloud flag'
            jp = _join_parts(v)
            if jp:
                kind = 'joined codes'
                ok = True
                ctx.check(jp[0] == ' ', rule, m.qname, e.node, e.loc(),
                          f'groups are joined with {jp[0]!r} instead of a single blank',
                          instance=f"metar_msg('{which}'): separator is one blank")
                ne = _nonempty_literals(v, jp[1])
                lits = set(e.guard[1]) if tag(e.guard) == 'and' else {e.guard}
                ctx.check(bool(lits & ne), rule, m.qname, e.node, e.loc(),
                          'the joined string can be returned empty (no dominating non-emptiness test): '
                          "the message would be '' instead of NCD / NSC",
                          instance=f"metar_msg('{which}'): joined message returned only when non-empty")
            ctx.check(ok, rule, m.qname, e.node, e.loc(),
                      f"metar_msg('{which}') can return {T.show(v, maxlen=120)}: not 'NCD', 'NSC' or the joined "
                      'codes', instance=f"metar_msg('{which}'): exit {e.loc().split(':')[-1]} returns {kind}")
        ctx.check(mf.join is not None, rule, m.qname, m.node.name, m.loc(),
                  f"metar_msg('{which}') never returns a joined message", instance=f"metar_msg('{which}'): has a join exit")


def _nonempty_literals(join_term, sel):
    ln = ('call', ('g', 'builtins.len'), (join_term,), ())
    out = {('cmp', 'ne', C(0), ln), ('cmp', 'lt', C(0), ln), ('cmp', 'le', C(1), ln), join_term,
           ('cmp', 'ne', C(''), join_term), T.mk_cmp('!=', join_term, C(''))}
    # non-emptiness of the selection itself
    masks = [x for x in T.walk(sel) if tag(x) == 'mask']
    for mk in masks[:1]:
        out.add(('mcall', mk[2], 'any', (), ()))
        out.add(('call', ('g', 'numpy.any'), (mk[2],), ()))
        for inner in (sel, ('vals', sel), mk):
            l2 = ('call', ('g', 'builtins.len'), (inner,), ())
            out |= {('cmp', 'ne', C(0), l2), ('cmp', 'lt', C(0), l2), ('cmp', 'le', C(1), l2)}
    return out


def report_predicate(ctx, rule='C01-R2'):
    """The reported rows are exactly: significant AND base < MSA (MSA = +inf when none is set)."""
    for which in WHICH:
        mf = MsgFacts(ctx, which, rule)
        m = mf.m
        if mf.join is None:
            ctx.violation(rule, m.qname, m.node.name, m.loc(), 'no join exit', instance=f"metar_msg('{which}')")
            continue
        sep, sel = _join_parts(mf.join.value)
        e = mf.join
        for msa_none in (True, False):
            s2 = specialise(sel, msa_none)
            tag_s = 'no MSA' if msa_none else 'MSA set'
            ok = tag(s2) == 'col' and s2[2] == 'code' and tag(s2[1]) == 'mask' and s2[1][1] == mf.tbl
            if not ok and msa_none and s2 == ('col', mf.tbl, 'code'):
                ctx.violation(rule, m.qname, e.node, e.loc(), 'without MSA every layer is reported, significant or '
                              'not', instance=f"metar_msg('{which}') [{tag_s}]: reported rows")
                continue
            ctx.check(ok, rule, m.qname, e.node, e.loc(),
                      f"the joined values are {T.show(s2, maxlen=160)}: not the 'code' column of the {which} table "
                      'under a row mask', instance=f"metar_msg('{which}') [{tag_s}]: joins table['code'][mask]")
            if not ok:
                continue
            mask = s2[1][2]
            want = _expected_report(mf.tbl, msa_none)
            ctx.check(mask in want, rule, m.qname, e.node, e.loc(),
                      f'[{tag_s}] reported rows are selected by {T.show(mask, maxlen=200)}; the rule is '
                      f'{T.show(want[-1], maxlen=200)} (strictly below the MSA; the MSA test is an identity '
                      'test against None, so that MSA = 0 is honoured)',
                      facts={'mask': T.show(mask, maxlen=400)},
                      instance=f"metar_msg('{which}') [{tag_s}]: significant & base < MSA")
        # the None test is an identity test
        conds = [x for x in T.walk(mf.s.ret) if tag(x) == 'phi' and any(v == MSA for _, v in x[1])]
        ctx.check(bool(conds), rule, m.qname, mf.join.node, mf.join.loc(),
                  'no "MSA or +infinity" selection found: with no MSA set the comparison against None fails',
                  instance=f"metar_msg('{which}'): MSA defaults to +inf when None")
        for ph in conds:
            for g, _ in ph[1]:
                ctx.check(g in (MSA_IS_NONE, T.mk_not(MSA_IS_NONE)), rule, m.qname, mf.join.node, mf.join.loc(),
                          f'the MSA is tested by {T.show(g, maxlen=80)}: a truthiness test treats MSA = 0 as "no MSA"',
                          instance=f"metar_msg('{which}'): MSA tested with `is None`")


def decision_table(ctx, rule='C02-R2'):
    """Truth table of the exits of metar_msg over the atoms
       A (no sets at all), B (some row reported), C (some significant row at/above the MSA), F (flag)."""
    for which in WHICH:
        mf = MsgFacts(ctx, which, rule)
        m = mf.m
        if mf.join is None:
            continue
        join_term = mf.join.value
        sep, sel = _join_parts(join_term)
        idcol = which[:-1] + '_id'
        data = ('attr', SELF, '_data')
        # classify the literals that appear in exit guards
        atoms = {}

        def classify(lit):
            base = lit[1] if tag(lit) == 'not' else lit
            pol = tag(lit) != 'not'
            if base == FLAG:
                return 'F', pol
            if base in _nonempty_literals(join_term, sel):
                return 'B', pol
            if tag(base) == 'cmp' and base[1] in ('eq', 'ne', 'lt', 'le'):
                neg = mk_neg_class(base, join_term, sel)
                if neg:
                    return neg[0], neg[1] if pol else not neg[1]
            if tag(base) == 'mcall' and base[2] == 'any' and not base[3]:
                return ('C', base[1]), pol
            if tag(base) == 'call' and base[1] == ('g', 'numpy.any') and len(base[2]) == 1 and not base[3]:
                return ('C', base[2][0]), pol
            if tag(base) == 'cmp' and base[1] == 'is' and base[2] == mf.tbl and base[3] == T.NONE:
                return 'PRE', pol
            if tag(base) == 'cmp' and base[1] == 'in' and base[2] == C(idcol):
                return 'PRE2', pol
            return ('?', base), pol

        def mk_neg_class(base, join_term, sel):
            # A: 0 == n_<which>   /  B via len(msg) == 0
            ln = ('call', ('g', 'builtins.len'), (join_term,), ())
            if base in (('cmp', 'eq', C(0), ln), ('cmp', 'le', ln, C(0)), ('cmp', 'lt', ln, C(1))):
                return 'B', False
            if base in (('cmp', 'eq', C(''), join_term), T.mk_cmp('==', join_term, C(''))):
                return 'B', False
            other = base[3] if base[2] == C(0) else (base[2] if base[3] == C(0) else None)
            if other is not None and T.contains(other, lambda y: tag(y) == 'col' and y[2] == idcol):
                if base[1] == 'eq':
                    return 'A', True
                if base[1] == 'ne':
                    return 'A', False
                if base[1] == 'lt' and base[2] == C(0):
                    return 'A', False
                if base[1] == 'le' and base[3] == C(0):
                    return 'A', True
            if other is not None and T.contains(other, lambda y: y == mf.tbl) and base[1] in ('eq', 'ne') \
                    and tag(other) == 'call' and other[1] == ('g', 'builtins.len'):
                return 'A', base[1] == 'eq'
            return None
        rows = []
        unknown = []
        for e in mf.returns:
            lits = list(e.guard[1]) if tag(e.guard) == 'and' else ([] if e.guard == T.TRUE else [e.guard])
            cl = {}
            for lit in lits:
                k, pol = classify(lit)
                if isinstance(k, tuple) and k[0] == '?':
                    unknown.append((e, lit))
                    continue
                if isinstance(k, tuple) and k[0] == 'C':
                    atoms['C'] = k[1]
                    k = 'C'
                cl[k] = pol
            rows.append((e, cl))
        for e, lit in unknown:
            ctx.violation(rule, m.qname, e.node, e.loc(),
                          f"metar_msg('{which}'): exit guarded by a condition outside the specification: "
                          f'{T.show(lit, maxlen=160)}', instance=f"metar_msg('{which}'): guard literal understood")
        # C atom: significant & base >= MSA
        if 'C' in atoms:
            for msa_none in (True, False):
                got = specialise(atoms['C'], msa_none)
                want = _expected_buffer(mf.tbl, msa_none)
                ctx.check(got in want, rule, m.qname, mf.join.node, mf.join.loc(),
                          f"[{'no MSA' if msa_none else 'MSA set'}] NSC-for-cloud-at/above-the-MSA is decided by "
                          f'any({T.show(got, maxlen=160)}); the rule is any({T.show(want[0], maxlen=160)})',
                          instance=f"metar_msg('{which}') [{'no MSA' if msa_none else 'MSA set'}]: "
                                   'significant & base >= MSA')
        else:
            ctx.violation(rule, m.qname, m.node.name, m.loc(), 'no test for significant layers at/above the MSA',
                          instance=f"metar_msg('{which}'): in-buffer test present")

        def spec(a, b, c, f):
            if a:
                return 'NSC' if f else 'NCD'
            if b:
                return 'MSG'
            if c:
                return 'NSC'
            return 'NSC' if f else 'NCD'
        table = {}
        for a, b, c, f in product((True, False), repeat=4):
            assign = {'A': a, 'B': b, 'C': c, 'F': f, 'PRE': False, 'PRE2': True}
            hits = []
            for e, cl in rows:
                if all(assign.get(k, None) == pol for k, pol in cl.items()):
                    hits.append(e)
            vals = set()
            for e in hits:
                v = e.value
                if _join_parts(v):
                    vals.add('MSG')
                elif tag(v) == 'phi':
                    for g, x in v[1]:
                        if (g == FLAG) == f:
                            vals.add(x[1])
                elif T.is_const(v):
                    vals.add(v[1])
            # with A true the later atoms are irrelevant; first exit wins
            if len(hits) > 1:
                first = min(hits, key=lambda x: x.seq)
                v = first.value
                vals = {'MSG'} if _join_parts(v) else (
                    {x[1] for g, x in v[1] if (g == FLAG) == f} if tag(v) == 'phi' else {v[1]})
            want = spec(a, b, c, f)
            table[f'A={int(a)} B={int(b)} C={int(c)} F={int(f)}'] = sorted(vals)
            if a and not b and False:
                pass
            ctx.check(vals == {want}, rule, m.qname, mf.join.node, m.loc(),
                      f"metar_msg('{which}') with no-sets={a}, some-row-reported={b}, "
                      f'significant-row-at/above-MSA={c}, high-cloud-flag={f} returns {sorted(vals)}; '
                      f'the specification says {want}',
                      instance=f"metar_msg('{which}'): A={int(a)} B={int(b)} C={int(c)} F={int(f)} -> {want}")
        ctx.tables[f'metar_msg_{which}_decision_table'] = table
        if which == 'layers':
            ctx.sample({'decision table of metar_msg(layers) over atoms A=no sets, B=some row reported, '
                        'C=significant row at/above MSA, F=high-cloud flag': table})
        # count test and table belong to the same `which`
        ctx.check(any('A' in cl for _, cl in rows), rule, m.qname, m.node.name, m.loc(),
                  'the zero-sets case is not tested', instance=f"metar_msg('{which}'): zero-sets test on {idcol}")
