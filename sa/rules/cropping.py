"""C07: cropping of hits above MSA + MSA_HIT_BUFFER in AbstractChunk._cleanup_pdf."""
from __future__ import annotations

from sa import terms as T
from sa.core import AnalysisError
from sa.rules.common import effects, call_head
from sa.rules.flag import partition_above_limit, strip_updates, MSA_NOT_NONE, Q, _sel_parts
from sa.rules.tablemodel import flatten
from sa.terms import tag, C

NAN_TERMS = {('g', 'numpy.nan'), ('g', 'numpy.NaN'), ('g', 'math.nan'), ('call', ('g', 'builtins.float'), (C('nan'),), ())}
ORDER_NEUTRAL = {'reset_index', 'copy', 'astype'}
SCREEN = 'ampycloud.utils.utils.check_data_consistency'


def crop_effects(ctx, rule='C07-R2', rule1=None):
    fx = effects(ctx)
    p = ctx.project
    f = p.func(Q, rule)
    ctx.saw(f)
    s = fx.deep(Q)[1]
    ops = flatten(s.ret)
    base = [o for o in ops if o.kind == 'base']
    ok_base = base and all(tag(o.state) == 'call' and o.state[1] == ('g', SCREEN) for o in base)
    ctx.check(bool(ok_base), rule, Q, f.node.name, f.loc(),
              'the frame returned by _cleanup_pdf does not derive from the screened copy '
              f'({T.show(base[0].state, maxlen=100) if base else None})', instance='result derives from the screened copy')
    sets = [o for o in ops if o.kind == 'set']
    calls = [o for o in ops if o.kind == 'call' and o.name not in ORDER_NEUTRAL]
    # every modification sits under `msa is not None` and nothing else
    for o in sets + calls:
        ctx.check(o.guard == MSA_NOT_NONE, rule, Q, f.node.name, f.loc(),
                  f'{o.name or o.col} is applied under {T.show(o.guard, maxlen=120)}: hits may only be touched when an '
                  'MSA is set (identity test against None, so that MSA = 0 crops and None does not)',
                  instance=f'{o.name or "set " + str(o.col)}: guarded by msa is not None only')
    types = [o for o in sets if o.col == 'type']
    heights = [o for o in sets if o.col == 'height']
    other = [o for o in sets if o.col not in ('type', 'height')]
    drops = [o for o in calls if o.name in ('drop', 'filter')]
    rest = [o for o in calls if o.name not in ('drop', 'filter')]
    ctx.check(len(types) == 1 and len(heights) == 1 and not other and len(drops) == 1 and not rest, rule, Q,
              f.node.name, f.loc(),
              f'cropping block performs type x{len(types)}, height x{len(heights)}, other columns '
              f'{[o.col for o in other]}, drop x{len(drops)}, other calls {[o.name for o in rest]}: expected exactly '
              'type := 0 and height := NaN on the first selection and a row drop of the second',
              instance='effects: two cell blankings and one row drop, nothing else')
    if not (len(types) == 1 and len(heights) == 1 and len(drops) == 1):
        return None
    t, h, d = types[0], heights[0], drops[0]

    def absrow(o):
        # the row selector with the op's own pre-state substituted for the rebased placeholder
        return T.subst(o.row, {('it',): o.state}) if o.row is not None else None
    t_row, h_row = absrow(t), absrow(h)
    ctx.check(t.value == C(0), rule, Q, f.node.name, f.loc(), f'blanked hits get type {T.show(t.value)} instead of 0',
              instance='type := 0')
    ctx.check(h.value in NAN_TERMS, rule, Q, f.node.name, f.loc(),
              f'blanked hits get height {T.show(h.value)} instead of NaN', instance='height := NaN')
    ctx.check(t_row is not None and h_row is not None and strip_updates(t_row) == strip_updates(h_row)
              and t_row[0] in ('rows', 'mask'), rule, Q,
              f.node.name, f.loc(),
              'type and height are not blanked on the same row selection', instance='type and height blanked on the same rows')
    axis = dict(d.kws).get('axis', C(0))
    labels = d.args[0] if d.args else dict(d.kws).get('index', dict(d.kws).get('labels'))
    ctx.check(axis in (C(0), C('index')) and labels is not None, rule, Q, f.node.name, f.loc(),
              f'the drop does not remove rows (axis {T.show(axis)})', instance='second selection: rows dropped')
    if t_row is None or labels is None or t_row[0] not in ('rows', 'mask'):
        return None
    # a selection is either index(frame[cond]) used as labels, or the boolean condition itself
    sel1 = _sel_parts(t_row[2]) if t_row[0] == 'rows' else (t.state, t_row[1])
    if d.name == 'filter':
        sel2 = (d.state, T.mk_not(labels))      # rows kept = not (rows removed)
    else:
        sel2 = _sel_parts(labels)
    ok = sel1 is not None and sel2 is not None
    ctx.check(ok, (rule1 or ('C07-R1' if rule.startswith('C07') else rule)), Q, f.node.name, f.loc(),
              'row selections are not index(frame[condition]) terms: '
              f'{T.show(t_row[-1], maxlen=100)} / {T.show(labels, maxlen=100)}', instance='selections are frame[cond].index')
    if not ok:
        return None
    # selections are taken from the frame being modified
    f1, f2 = strip_updates(sel1[0]), strip_updates(sel2[0])
    ctx.check(f1 == f2 == strip_updates(t.state), (rule1 or ('C07-R1' if rule.startswith('C07') else rule)), Q, f.node.name, f.loc(),
              'the selections are computed on a different frame than the one that is modified',
              instance='selections computed on the frame being cropped')
    ctx.sample({'cropping selections': [T.show(strip_updates(sel1[1]), maxlen=200), T.show(strip_updates(sel2[1]), maxlen=200)]})
    good, why = partition_above_limit([sel1[1], sel2[1]])
    ctx.check(good, (rule1 or ('C07-R1' if rule.startswith('C07') else rule)), Q, f.node.name, f.loc(), f'cropping selections: {why}',
              facts={'first': T.show(strip_updates(sel1[1]), maxlen=300), 'second': T.show(strip_updates(sel2[1]), maxlen=300)},
              instance='selections partition {height > MSA + buffer} into type <= 1 and type > 1 (strict >)')
    # first selection is the type<=1 one
    c1 = strip_updates(sel1[1])
    is_low = any(tag(l) == 'cmp' and l[1] == 'le' and l[3] == C(1) for l in (c1[1] if tag(c1) == 'and' else (c1,)))
    ctx.check(is_low, (rule1 or ('C07-R1' if rule.startswith('C07') else rule)), Q, f.node.name, f.loc(),
              'the blanked selection is not the type <= 1 one (first / VV hits must become non-detections, '
              'higher hit types must be dropped)', instance='type <= 1 blanked, type > 1 dropped')
    return True


def no_escape(ctx, rule='C07-R4'):
    """The uncropped frame does not survive in the chunk."""
    fx = effects(ctx)
    p = ctx.project
    n = 0
    for cq in ('ampycloud.data.AbstractChunk', 'ampycloud.data.CeiloChunk'):
        k = p.klass(cq, rule)
        for nm, m in k.methods.items():
            for e in fx.own_events(m.qname):
                if e.kind == 'store' and tag(e.target) == 'attr' and e.target[1] == ('p', 'self'):
                    if e.target[2] == '_data':
                        n += 1
                        v = e.value
                        ok = tag(v) == 'call' and v[1] == ('g', Q)
                        ctx.check(ok and nm == '__init__', rule, m.qname, e.node, e.loc(),
                                  f'self._data is assigned {T.show(v, maxlen=120)} in {nm}: the chunk data must be '
                                  'the result of _cleanup_pdf (screened and cropped), set once at construction',
                                  instance=f'{m.qname}: self._data = _cleanup_pdf(...)')
                    elif T.contains(e.value, lambda x: x == ('p', 'data')):
                        ctx.violation(rule, m.qname, e.node, e.loc(),
                                      f'the raw input frame is kept in self.{e.target[2]}: hits above the limit '
                                      'remain reachable from the chunk', instance=f'{m.qname}: raw data stored')
    ctx.floor(rule, 'assignments to self._data', n, 1)
