"""C11 / C13-R2: ownership - nothing borrowed from the caller (frames, parameter dictionaries) and
nothing global is modified; the chunk owns deep copies."""
from __future__ import annotations

from sa.anchors import is_helper
from sa import terms as T
from sa.effects import PRMS_GLOBAL
from sa.rules.common import effects
from sa.terms import tag

EXCEPTIONS = {
    ('ampycloud.utils.utils.adjust_nested_dict', 'ref_dict'):
        'documented contract: updates the given dictionary and returns it (callers must own it)',
    ('ampycloud.utils.utils.adjust_nested_dict', 'lvls'):
        'internal recursion accumulator (None at the public call)',
    ('ampycloud.scaler.convert_kwargs', '**kwargs'):
        "the function's own keyword dictionary, fresh at every call",
}
ENTRY_MODULES = ('ampycloud.core', 'ampycloud.data', 'ampycloud.utils.utils')
HELPER_MODULES = ('ampycloud.layer', 'ampycloud.scaler', 'ampycloud.cluster', 'ampycloud.fluffer',
                  'ampycloud.wmo', 'ampycloud.icao', 'ampycloud.utils.utils')
PLOT_MODULES = ('ampycloud.plots.core', 'ampycloud.plots.diagnostics', 'ampycloud.plots.tools',
                'ampycloud.plots.secondary')
ALLOWED_PRMS_WRITERS = {'ampycloud.core.set_prms', 'ampycloud.core.reset_prms'}


def _public(f) -> bool:
    if '<locals>' in f.qname:
        return False
    return not f.name.startswith('_') or f.name == '__init__'


def _chain(fx, q, key) -> str:
    steps = fx.explain(q, key)
    return ' -> '.join(f'{sq.split(".")[-1]}@{e.loc()}' for sq, e in steps)


def no_borrowed_mutation(ctx, rule: str, modules, floor: int) -> None:
    fx = effects(ctx)
    p = ctx.project
    n = 0
    for q, f in sorted(p.funcs.items()):
        # (a function is counted under the module it is reachable from: one moved to a private module and imported back
        # keeps the name the rules know)
        if not (f.module.name in modules or q.rsplit('.', 1)[0] in modules) or not _public(f):
            continue
        if is_helper(p, q):
            # not a documented entry point: an internal helper may well work in place on what it is handed; its
            # effect is attributed to its callers (mutation summaries), where the rule applies to what THEY were given
            continue
        n += 1
        ctx.saw(f)
        bad = False
        for (key, deep), (e, via) in sorted(fx.mutations(q).items(), key=lambda kv: str(kv[0])):
            if key[0] != 'param' or key[1] == 'self':
                continue
            if (q, key[1]) in EXCEPTIONS:
                continue
            bad = True
            steps = fx.explain(q, (key, deep))
            last_q, last_e = steps[-1] if steps else (q, e)
            ctx.violation(rule, last_q, last_e.node, last_e.loc(),
                          f'argument {key[1]!r} of public function {q} is modified '
                          f'({"below its top level" if deep else "in place"}): {_chain(fx, q, (key, deep))}',
                          facts={'entry': q, 'param': key[1], 'deep': deep},
                          instance=f'{q}({key[1]})')
        if not bad:
            params = [a for a in f.params if a != 'self']
            ctx.ok(rule, f'{q}: arguments {params} are never written', f.loc())
    ctx.floor(rule, f'public functions in {",".join(m.split(".")[-1] for m in modules)}', n, floor)


def entry_points(ctx, rule='C11-R1'):
    no_borrowed_mutation(ctx, rule, ENTRY_MODULES, 20)


def helpers_pure(ctx, rule='C13-R2'):
    no_borrowed_mutation(ctx, rule, HELPER_MODULES, 20)


def plot_functions(ctx, rule):
    no_borrowed_mutation(ctx, rule, PLOT_MODULES, 15)


def global_prms_writers(ctx, rule='C11-R2'):
    fx = effects(ctx)
    writers = set()
    for q in fx.summ:
        if is_helper(ctx.project, q):
            continue        # a helper that rebinds / edits the dictionary is judged through the functions that call it
        for (key, deep), (e, via) in fx.mutations(q).items():
            if key == ('global', PRMS_GLOBAL):
                writers.add(q)
                if q in ALLOWED_PRMS_WRITERS:
                    continue
                steps = fx.explain(q, (key, deep))
                last_q, last_e = steps[-1] if steps else (q, e)
                ctx.violation(rule, last_q, last_e.node, last_e.loc(),
                              f'{q} modifies the global parameter dictionary '
                              f'({"nested entry" if deep else "top level"}): '
                              f'{_chain(fx, q, (key, deep))}',
                              facts={'function': q, 'deep': deep}, instance=f'writer {q}')
    for q in sorted(ALLOWED_PRMS_WRITERS):
        ctx.project.func(q, rule)
        ctx.ok(rule, f'{q}: documented writer of dynamic.AMPYCLOUD_PRMS', ctx.project.funcs[q].loc())
    ctx.tables['writers_of_AMPYCLOUD_PRMS'] = sorted(writers)
    ctx.sample({'mutation summaries (function -> roots it may write)': {q: sorted(f'{k[0]}:{k[1]}' + ('*' if d else '') for (k, d) in fx.mutations(q)) for q in sorted(fx.summ) if fx.mutations(q)}})
    ctx.floor(rule, 'writers of the global parameter dictionary', len(writers & ALLOWED_PRMS_WRITERS), 2)


def snapshot_never_mutated(ctx, rule='C11-R3'):
    """Nothing reachable from self._prms is written after construction."""
    fx = effects(ctx)
    n = 0
    for q in sorted(fx.summ):
        for (key, deep), (e, via) in fx.mutations(q).items():
            if key == ('self', '_prms'):
                steps = fx.explain(q, (key, deep))
                last_q, last_e = steps[-1] if steps else (q, e)
                ctx.violation(rule, last_q, last_e.node, last_e.loc(),
                              f'{q} modifies the chunk parameter snapshot: {_chain(fx, q, (key, deep))}',
                              instance=f'{q} writes self.prms')
        n += 1
    # reads of the snapshot exist (floor)
    reads = 0
    for q, e in fx.all_events():
        for nm, v in fx.terms_of(e):
            if nm != 'guard' and T.contains(v, lambda x: tag(x) == 'prm'):
                reads += 1
                break
    ctx.floor(rule, 'events reading the parameter snapshot', reads, 30)
    ctx.ok(rule, f'{n} functions: none writes through self.prms / self._prms', '')


def owned_fields(ctx, rule='C11-R4'):
    """self._data and self._prms are assigned only objects the chunk owns outright (deep)."""
    fx = effects(ctx)
    p = ctx.project
    found = {'_data': 0, '_prms': 0}
    for q, e in fx.all_events():
        if e.kind != 'store' or tag(e.target) != 'attr' or e.target[2] not in found:
            continue
        if not (tag(e.target[1]) == 'p' and e.target[1][1] == 'self'):
            continue
        f = p.funcs[q]
        if f.cls is None or f.cls.qname not in ('ampycloud.data.AbstractChunk',
                                                'ampycloud.data.CeiloChunk'):
            continue
        found[e.target[2]] += 1
        org = fx.origin(e.value, True, f)
        shared = sorted(T.show(r) for r, _ in org)
        ctx.check(not org, rule, q, e.node, e.loc(),
                  f'self.{e.target[2]} may share storage with {shared}: the chunk must own a deep copy',
                  facts={'value': T.show(e.value, maxlen=300), 'shares': shared},
                  instance=f'{q}: self.{e.target[2]} := {T.show(e.value, maxlen=80)}')
    for k, n in found.items():
        ctx.floor(rule, f'assignments to self.{k}', n, 1)


def chunk_methods_confined(ctx, rule='C13-R2'):
    fx = effects(ctx)
    p = ctx.project
    n = 0
    for cq in ('ampycloud.data.AbstractChunk', 'ampycloud.data.CeiloChunk'):
        k = p.klass(cq, rule)
        for nm, m in sorted(k.methods.items()):
            n += 1
            keys = sorted({key for (key, deep) in fx.mutations(m.qname)}, key=str)
            foreign = [key for key in keys if key[0] in ('global', 'free') or
                       (key[0] == 'param' and key[1] != 'self' and not nm.startswith('_'))]
            for key in foreign:
                for deep in (False, True):
                    if (key, deep) in fx.mutations(m.qname):
                        e, via = fx.mutations(m.qname)[(key, deep)]
                        ctx.violation(rule, m.qname, e.node, e.loc(),
                                      f'chunk method writes {key[0]} {key[1]} (outside its instance)',
                                      instance=f'{m.qname}: {key}')
            if not foreign:
                ctx.ok(rule, f'{m.qname}: stores confined to self / fresh locals '
                             f'({", ".join(k2[1] for k2 in keys) or "none"})', m.loc())
    ctx.floor(rule, 'chunk methods', n, 25)
