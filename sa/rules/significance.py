"""Lemmas on the transducer extracted from icao.significant_cloud (C01-R6, C02-R1)."""
from __future__ import annotations

from sa.fold import explore
from sa.props.c17 import extract


def _run(ctx, rule, init, step, what, alphabet=range(0, 10)):
    f, fold = extract(ctx, rule)
    states, trans, cex, samples = explore(fold, list(alphabet), init, step)
    ctx.check(cex is None, rule, f.qname, f.node.name, f.loc(),
              f'{what}: counter-example {cex}', facts=cex or {},
              instance=f'{what} ({states} product states, {trans} transitions, all okta sequences)')
    return states, trans


def selection_lemmas(ctx, rule='C01-R6'):
    """flagged => okta >= 1;  the k-th flagged layer has okta >= 2k-1;  at most three flags."""
    def step(k, sym, outs):
        flag = bool(outs and outs[0] is True)
        if len(outs) != 1:
            return k, 'not exactly one flag per layer'
        if flag:
            if k >= 3:
                return k + 1, f'a fourth layer is flagged (okta {sym})'
            if sym < 2 * (k + 1) - 1:
                return k + 1, f'flag number {k + 1} goes to a layer of only {sym} okta(s)'
            return k + 1, None
        return k, None
    _run(ctx, rule, 0, step, 'every flagged layer has okta >= 1, 3, 5 for the 1st, 2nd, 3rd flag; no 4th flag')


def never_suppressed(ctx, rule='C02-R1'):
    """The first layer with okta >= 1 is flagged; the first layer with okta >= 5 is flagged."""
    def step(obs, sym, outs):
        seen1, seen5 = obs
        flag = bool(outs and outs[0] is True)
        if not seen1 and sym >= 1 and not flag:
            return (True, seen5), f'the lowest layer with cloud (okta {sym}) is not flagged'
        if not seen5 and sym >= 5 and not flag:
            return (True, True), f'the lowest layer of 5 oktas or more (okta {sym}, the ceiling) is not flagged'
        return (seen1 or sym >= 1, seen5 or sym >= 5), None
    _run(ctx, rule, (False, False), step, 'lowest cloud layer and ceiling are always flagged')
