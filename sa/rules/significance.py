"""Lemmas on the transducer extracted from icao.significant_cloud (C01-R6, C02-R1)."""
from __future__ import annotations

from sa import terms as T
from sa.fold import explore
from sa.props.c17 import extract


def _run(ctx, rule, init, step, what, alphabet=range(0, 10)):
    f, fold = extract(ctx, rule)
    states, trans, cex, samples = explore(fold, list(alphabet), init, step)
    ctx.check(cex is None, rule, f.qname, f.node.name, f.loc(),
              f'{what}: counter-example {cex}', facts=cex or {},
              instance=f'{what} ({states} product states, {trans} transitions, all okta sequences)')
    return states, trans


def selection_lemmas(ctx, rule='C01-R6'):
    """flagged => okta >= 1;  the k-th flagged layer has okta >= 2k-1;  at most three flags."""
    def step(k, sym, outs):
        flag = bool(outs and outs[0] is True)
        if len(outs) != 1:
            return k, 'not exactly one flag per layer'
        if flag:
            if k >= 3:
                return k + 1, f'a fourth layer is flagged (okta {sym})'
            if sym < 2 * (k + 1) - 1:
                return k + 1, f'flag number {k + 1} goes to a layer of only {sym} okta(s)'
            return k + 1, None
        return k, None
    _run(ctx, rule, 0, step, 'every flagged layer has okta >= 1, 3, 5 for the 1st, 2nd, 3rd flag; no 4th flag')


def never_suppressed(ctx, rule='C02-R1'):
    """The first layer with okta >= 1 is flagged; the first layer with okta >= 5 is flagged."""
    def step(obs, sym, outs):
        seen1, seen5 = obs
        flag = bool(outs and outs[0] is True)
        if not seen1 and sym >= 1 and not flag:
            return (True, seen5), f'the lowest layer with cloud (okta {sym}) is not flagged'
        if not seen5 and sym >= 5 and not flag:
            return (True, True), f'the lowest layer of 5 oktas or more (okta {sym}, the ceiling) is not flagged'
        return (seen1 or sym >= 1, seen5 or sym >= 5), None
    _run(ctx, rule, (False, False), step, 'lowest cloud layer and ceiling are always flagged')


def only_metarize_writes_flags(ctx, rule='C17-R4'):
    """The `significant` column of the three tables is written by metarize() and by nothing else in the package: a
    consumer that gets the table through the chunk's property gets the chunk's own frame, so a store through it
    (plot code re-flagging layers above the MSA) rewrites the published flags."""
    from sa.rules.common import effects
    fx = effects(ctx)
    p = ctx.project
    n = 0
    from sa.anchors import is_helper

    def events():
        # helpers are judged where they are used (a cast of the column in a table helper called by metarize is metarize's)
        for q0 in sorted(p.funcs):
            if is_helper(p, q0) or q0 not in fx.summ or '<locals>' in q0:
                continue
            seen = set()
            for e0 in fx.deep_events(q0):
                key = (id(e0.node), e0.kind)
                if key in seen:
                    continue
                seen.add(key)
                yield q0, e0
    for q, e in events():
        if e.kind not in ('store', 'aug') or e.target is None:
            continue
        # the column(s) written: those named along the chain target -> base (not those read inside a selection)
        cols, t = set(), e.target
        while isinstance(t, tuple) and T.tag(t) in ('col', 'cell', 'cols', 'mask', 'rows', 'sub', 'upd'):
            if T.tag(t) == 'col':
                cols.add(t[2])
            elif T.tag(t) == 'cell':
                cols.add(t[3])
            elif T.tag(t) == 'cols':
                cols.update(t[2])
            t = t[1]
        if 'significant' not in cols:
            continue
        n += 1
        f = p.funcs[q]
        own = f.cls is not None and f.cls.qname.endswith('.CeiloChunk') and f.name in ('metarize', '_setup_sligrolay_pdf') \
            or f.module.name == 'ampycloud.data' and f.name.startswith('_') and f.cls is not None
        ctx.check(own, rule, q, e.node, e.loc(),
                  f"{q} writes the 'significant' column ({T.show(e.target, maxlen=100)}): the flags published in the tables are "
                  'those metarize() computed with significant_cloud(); anything else that writes them changes the answer '
                  'after the fact', instance=f"'significant' written by metarize only ({q.split('.')[-1]})")
    ctx.floor(rule, "stores to a 'significant' column in the package", n, 1)
