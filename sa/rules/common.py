"""Shared helpers for the property checks."""
from __future__ import annotations

import ast

from sa import terms as T
from sa.core import AnalysisError
from sa.effects import Effects, PRMS_GLOBAL
from sa.terms import tag, C

_CACHE = {}


def effects(ctx) -> Effects:
    key = id(ctx.project)
    if key not in _CACHE:
        _CACHE[key] = Effects(ctx.project)
        _CACHE[key].compute_mutations()
    fx = _CACHE[key]
    ctx.analysed['events'] = sum(len(s.events) for s in fx.summ.values())
    ctx.analysed['call_sites'] = fx.ex.n_calls
    return fx


def call_head(e):
    """Qualified name of the callee of a call event ('?.name' for a method on an untyped value)."""
    c = e.call
    if tag(c) == 'call' and tag(c[1]) == 'g':
        return c[1][1]
    if tag(c) == 'mcall':
        return f'?.{c[2]}'
    return None


def calls_in(fx: Effects, q: str, pred):
    return [e for e in fx.own_events(q) if e.kind in ('call', 'propget') and pred(call_head(e) or '')]


def kwarg(call, name, pos=None):
    """Term bound to keyword `name` (or positional index pos) of a ('call'|'mcall') term."""
    args, kws = (call[2], call[3]) if tag(call) == 'call' else (call[3], call[4])
    for k, v in kws:
        if k == name:
            return v
    if pos is not None and len(args) > pos:
        return args[pos]
    return None


def is_logger_call(head: str) -> bool:
    return '.logger.' in head or head.startswith('logging.')


def guard_literals(g) -> list:
    if g == T.TRUE:
        return []
    if tag(g) == 'and':
        return list(g[1])
    return [g]


def processing_path(fx: Effects) -> set:
    return fx.reachable(fx.processing_entries())


def param_default(func, name):
    a = func.node.args
    allargs = a.posonlyargs + a.args
    defaults = [None] * (len(allargs) - len(a.defaults)) + list(a.defaults)
    for x, d in list(zip(allargs, defaults)) + list(zip(a.kwonlyargs, a.kw_defaults)):
        if x.arg == name:
            return d
    return None


def param_default_term(project, func, name):
    """The default of parameter `name` as a term (named constants resolved), or None."""
    from sa import consts
    from sa.symexec import _record_fields
    d = param_default(func, name)
    if d is None:
        return None
    return consts.const_eval(project, func.module, d, func.cls, 0, _record_fields)


def split_alternatives(events) -> list:
    """Return / store events whose value is a selection between alternatives (a conditional expression, an
    if/elif chain assigning a local that is returned once, a helper with early returns) are split into one event
    per alternative, the alternative's condition joined to the guard - a single-exit restructuring then looks
    like the early-return form."""
    from dataclasses import replace
    out = []

    def alts(v, g):
        if tag(v) == 'phi':
            res = []
            for c, x in v[1]:
                res.extend(alts(x, T.mk_and([g, c])))
            return res
        return [(g, v)]
    for e in events:
        if e.kind in ('return', 'store') and e.value is not None and tag(e.value) == 'phi':
            for g, v in alts(e.value, e.guard):
                if g != T.FALSE:
                    out.append(replace(e, value=v, guard=g))
        else:
            out.append(e)
    return out


def implied_by(lit, guard) -> bool:
    """Does the literal alone make the guard true?  (guard == lit, a disjunction with such a member, a conjunction of
    such members)"""
    if guard == lit or guard == T.TRUE:
        return True
    if tag(guard) == 'or':
        return any(implied_by(lit, x) for x in guard[1])
    if tag(guard) == 'and':
        return all(implied_by(lit, x) for x in guard[1])
    return False


def nonempty_arg(cond):
    """x when cond says "x is not empty": 0 < len(x), len(x) != 0, 1 <= len(x), not x.empty; else None."""
    c = cond
    LEN = ('g', 'builtins.len')
    if tag(c) == 'cmp':
        op, a, b = c[1], c[2], c[3]
        def ln(t):
            return t[2][0] if tag(t) == 'call' and t[1] == LEN and t[2] else None
        if op == 'lt' and a == C(0) and ln(b) is not None:
            return ln(b)
        if op == 'le' and a == C(1) and ln(b) is not None:
            return ln(b)
        if op == 'ne' and C(0) in (a, b):
            other = b if a == C(0) else a
            return ln(other)
    if tag(c) == 'not' and tag(c[1]) == 'attr' and c[1][2] == 'empty':
        return c[1][1]
    if tag(c) == 'call' and c[1] == ('g', 'numpy.any') and len(c[2]) == 1 and not c[3]:
        return ('mask', ('unk', 'the rows the mask is about'), c[2][0])      # mask.any(): the selection by mask is not empty
    return None
