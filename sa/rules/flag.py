"""C02-R3 / C07: MSA cropping and the high-cloud flag in AbstractChunk._cleanup_pdf."""
from __future__ import annotations

from sa import terms as T
from sa.core import AnalysisError
from sa.rules.common import effects, guard_literals
from sa.terms import tag, C

Q = 'ampycloud.data.AbstractChunk._cleanup_pdf'
SELF = ('p', 'self')
FLAG = ('attr', SELF, '_clouds_above_msa_buffer')
MSA = ('prm', ('MSA',))
BUF = ('prm', ('MSA_HIT_BUFFER',))
OKTA0 = ('prm', ('MAX_HITS_OKTA0',))
MSA_NOT_NONE = ('not', ('cmp', 'is', MSA, T.NONE))
LIMS = [('bin', '+', MSA, BUF), ('bin', '+', BUF, MSA)]


def _sel_parts(idx_term):
    """index(mask(frame, cond)) -> (frame, cond)."""
    t = idx_term
    if tag(t) == 'index' and tag(t[1]) == 'mask':
        return t[1][1], t[1][2]
    return None


def crop_selections(fx, ctx, rule):
    """The two row selections of the cropping block: (frame term, condition) for type<=1 and type>1."""
    f = ctx.project.func(Q, rule)
    ctx.saw(f)
    evs = fx.deep_events(Q)
    stores = [e for e in evs if e.kind == 'store' and tag(e.target) == 'col' and e.target[2] in ('type', 'height')]
    drops = [e for e in evs if e.kind == 'call' and tag(e.call) == 'mcall' and e.call[2] == 'drop']
    return f, evs, stores, drops


def flag_definition(ctx, rule='C02-R3'):
    fx = effects(ctx)
    p = ctx.project
    f, evs, stores, drops = crop_selections(fx, ctx, rule)
    # single writer
    writers = {q for q, e in fx.all_events() if e.kind in ('store', 'aug') and e.target == FLAG}
    ctx.check(writers == {Q}, rule, Q, f.node.name, f.loc(),
              f'the high-cloud flag is written by {sorted(writers)}; only _cleanup_pdf may',
              instance='flag has a single writer')
    fl = [e for e in evs if e.kind == 'store' and e.target == FLAG]
    ctx.floor(rule, 'stores to the high-cloud flag', len(fl), 2)
    inits = [e for e in fl if e.value == T.FALSE and e.guard == T.TRUE or
             (e.value == T.FALSE and not T.contains(e.guard, lambda x: x == MSA))]
    ctx.check(bool(inits), rule, Q, f.node.name, f.loc(),
              'the flag is not initialised to False on every path (with no MSA it would be undefined)',
              instance='flag initialised False before the MSA branch')
    sets = [e for e in fl if e.value == T.TRUE]
    ctx.check(len(sets) == 1, rule, Q, f.node.name, f.loc(), f'{len(sets)} places raise the flag',
              instance='flag raised in one place')
    for e in sets:
        if inits:
            ctx.check(inits[0].seq < e.seq, rule, Q, e.node, e.loc(), 'flag raised before its initialisation',
                      instance='initialisation precedes the raise of the flag')
        lits = guard_literals(e.guard)
        ctx.check(MSA_NOT_NONE in lits, rule, Q, e.node, e.loc(),
                  'the flag can be raised without an MSA (or the MSA test is not an identity test against None)',
                  instance='flag only with an MSA (is not None)')
        cnt = [l for l in lits if tag(l) == 'cmp' and l[1] in ('lt', 'le') and (OKTA0 in (l[2], l[3]))]
        ok = False
        why = 'no comparison with MAX_HITS_OKTA0'
        for l in cnt:
            if l[1] == 'lt' and l[2] == OKTA0:
                count = l[3]
                ok, why = _count_is_cropped(count, evs)
            else:
                why = f'comparison is {T.show(l, maxlen=120)}: the flag must be raised exactly when the number ' \
                      'of cropped hits exceeds MAX_HITS_OKTA0 (strictly)'
        ctx.check(ok, rule, Q, e.node, e.loc(), f'flag condition: {why}',
                  facts={'guard': T.show(e.guard, maxlen=400)}, instance='flag iff |cropped| > MAX_HITS_OKTA0')
    # _ncd_or_nsc reads only the flag
    nq = 'ampycloud.data.CeiloChunk._ncd_or_nsc'
    if nq not in p.funcs:
        # no separate helper (inlined into metar_msg): the NCD / NSC selection by the flag is judged on the exits of
        # metar_msg itself (truth table, C02-R2)
        ctx.ok(rule, 'NCD / NSC selection by the flag: no separate helper, judged on the exits of metar_msg (C02-R2)')
        return
    nf = p.func(nq, rule)
    ret = fx.deep(nq)[1].ret
    want = ('phi', ((FLAG, C('NSC')), (T.mk_not(FLAG), C('NCD'))))
    ok = tag(ret) == 'phi' and dict(ret[1]) == dict(want[1])
    ctx.check(ok, rule, nq, nf.node.name, nf.loc(),
              f'_ncd_or_nsc returns {T.show(ret, maxlen=160)}: expected NSC when the flag is set, else NCD',
              instance='_ncd_or_nsc: flag -> NSC, else NCD')


def _counted_condition(atom):
    """The row condition whose number of true rows `atom` denotes, or None."""
    while tag(atom) == 'call' and atom[1] in (('g', 'builtins.int'),) and atom[2]:
        atom = atom[2][0]
    if tag(atom) == 'call' and atom[1] == ('g', 'builtins.len') and atom[2]:
        x = atom[2][0]
        sp = _sel_parts(x)
        if sp is not None:
            return sp[1]
        x = T.peel(x)
        if tag(x) == 'mask':
            return x[2]
        if tag(x) in ('col', 'cols') and tag(x[1]) == 'mask':
            return x[1][2]
    return T.count_cond(atom)        # mask.sum(), np.sum(mask), np.count_nonzero(mask), len(x[mask]) ... (array wrappers stripped)


def _count_is_cropped(count, evs):
    """count == len(idx type<=1 above limit) + len(idx type>1 above limit)."""
    lin, c0 = T.linear(count)
    if c0 != 0 or len(lin) != 2 or set(lin.values()) != {1}:
        return False, f'the counted quantity is {T.show(count, maxlen=160)}: not the sum of the two cropped selections'
    conds = []
    for atom in lin:
        c = _counted_condition(atom)
        if c is None:
            return False, f'counted term {T.show(atom, maxlen=100)} is not the size of a row selection'
        conds.append(c)
    ok, why = partition_above_limit(conds)
    return ok, why


def strip_updates(t):
    """The frame as it was before in-place cell updates (the update chain is dropped).  Sound for the
    cropping block because the updates only blank rows of the first selection (type := 0, height := NaN,
    checked by C07-R2): on those rows both `type > 1` and `height > limit` are false before and after."""
    mapping = {}
    for x in T.walk(t):
        if tag(x) == 'upd':
            base = x
            while tag(base) == 'upd':
                base = base[1]
            mapping[x] = base
    return T.subst(t, mapping) if mapping else t


def partition_above_limit(conds):
    """conds: the two selection predicates. They must be  height > lim & type <= 1  and
    height > lim & type > 1  for the same frame (disjoint, covering height > lim)."""
    conds = [strip_updates(c) for c in conds]
    parts = []
    for c in conds:
        lits = set(c[1]) if tag(c) == 'and' else {c}
        h = [l for l in lits if tag(l) == 'cmp' and l[1] in ('lt', 'le') and tag(l[3]) == 'col'
             and l[3][2] == 'height' and l[2] in LIMS]
        ty = [l for l in lits if tag(l) == 'cmp' and T.contains(l, lambda x: tag(x) == 'col' and x[2] == 'type')]
        if len(h) != 1 or len(ty) != 1 or len(lits) != 2:
            return False, f'selection {T.show(c, maxlen=160)} is not (height > MSA + MSA_HIT_BUFFER) & (type test)'
        if h[0][1] != 'lt':
            return False, 'hits exactly at MSA + MSA_HIT_BUFFER are cropped (the limit itself must be kept: strict >)'
        parts.append((h[0], ty[0]))
    frames = {p[0][3][1] for p in parts} | {[x for x in T.walk(p[1]) if tag(x) == 'col'][0][1] for p in parts}
    if len(frames) != 1:
        return False, 'the two selections are not taken from the same frame'
    t1, t2 = parts[0][1], parts[1][1]
    if T.mk_not(t1) != t2:
        return False, (f'type tests {T.show(t1)} and {T.show(t2)} are not complementary: some hits above the limit '
                       'are neither blanked nor dropped (or both)')
    low = [t for t in (t1, t2) if t[1] == 'le' and t[3] == C(1)]
    if len(low) != 1:
        return False, f'type tests {T.show(t1)} / {T.show(t2)}: expected type <= 1 and type > 1'
    return True, ''
