"""C09: reproducibility and the global random state."""
from __future__ import annotations

import ast

from sa import terms as T
from sa.core import AnalysisError
from sa.rules.common import effects, call_head, kwarg, processing_path, is_logger_call, param_default, \
    param_default_term
from sa.terms import tag

# third-party estimators / routines that draw random numbers unless given an explicit random_state
RANDOM_STATE_TAKERS_PREFIX = ('sklearn.',)
RANDOM_STATE_TAKERS = {
    'sklearn.mixture.GaussianMixture', 'sklearn.mixture.BayesianGaussianMixture',
    'sklearn.cluster.KMeans', 'sklearn.cluster.MiniBatchKMeans', 'sklearn.cluster.SpectralClustering',
    'sklearn.cluster.BisectingKMeans', 'sklearn.cluster.kmeans_plusplus',
    'sklearn.utils.resample', 'sklearn.utils.shuffle', 'sklearn.model_selection.train_test_split',
    'sklearn.decomposition.PCA',
}
DETERMINISTIC_SKLEARN = {'sklearn.cluster.AgglomerativeClustering', 'sklearn.cluster.DBSCAN'}
# functions of the global NumPy generator (consumers) and its re-seeders
NP_RANDOM_SAFE = {'numpy.random.default_rng', 'numpy.random.Generator', 'numpy.random.RandomState',
                  'numpy.random.SeedSequence', 'numpy.random.PCG64', 'numpy.random.MT19937',
                  'numpy.random.get_state', 'numpy.random.BitGenerator'}
NP_RESEEDERS = {'numpy.random.seed', 'numpy.random.set_state'}
SAMPLING_METHODS = {'sample', 'shuffle'}
NONDET_SOURCES = ('datetime.datetime.now', 'datetime.datetime.utcnow', 'datetime.datetime.today',
                  'datetime.date.today', 'time.time', 'time.time_ns', 'time.perf_counter',
                  'time.monotonic', 'time.process_time', 'os.getpid', 'os.urandom', 'os.getenv',
                  'os.environ', 'uuid.uuid1', 'uuid.uuid4', 'secrets.', 'random.', 'builtins.id',
                  'builtins.hash', 'socket.gethostname', 'platform.', 'os.times', 'os.getcwd',
                  'threading.get_ident', 'tempfile.')
TMP_SEED = 'ampycloud.utils.utils.tmp_seed'
MOCKER = 'ampycloud.utils.mocker'


def _is_global_rng_consumer(head: str) -> bool:
    if head.startswith('numpy.random.') and head not in NP_RANDOM_SAFE and head not in NP_RESEEDERS:
        return True
    if head.startswith('random.') and head not in ('random.Random', 'random.SystemRandom'):
        return True
    return False


def _seed_ok(t) -> bool:
    return T.is_const(t) and isinstance(t[1], int) and not isinstance(t[1], bool)


def _seed_term_ok(fx, p, t, f, depth):
    """Is term t, evaluated in function f, a fixed integer on every call path?  Parameters are followed to
    their default and through every package call site (bounded)."""
    if _seed_ok(t):
        return True, f'constant {t[1]}'
    if tag(t) == 'p' and depth < 4:
        name = t[1]
        d = param_default(f, name)
        has_default = d is not None
        if has_default and not _seed_ok(param_default_term(p, f, name)):      # named constants resolved
            return False, f'parameter {name!r} defaults to {ast.unparse(d)}'
        sites = fx.sites.get(f.qname, [])
        if not has_default and not sites:
            return False, f'parameter {name!r} has no default and no package caller fixes it'
        for caller, ce in sites:
            cargs = ce.call[2]
            if f.name == '__init__' and f.cls is not None and len(cargs) + len(ce.call[3]) < len(f.params) + len(f.node.args.kwonlyargs):
                cargs = (('unk', 'self'),) + tuple(cargs)       # K(a, b) calls K.__init__(self, a, b)
            bound = fx._bind(f, cargs, ce.call[3])
            v = bound.get(name)
            if v is None:
                if not has_default:
                    return False, f'{caller} does not pass {name!r}'
                continue
            ok, why = _seed_term_ok(fx, p, v, p.funcs[caller], depth + 1)
            if not ok:
                return False, f'{caller} passes {T.show(v, maxlen=40)} for {name!r} ({why})'
        return True, f'parameter {name!r}' + (f' default {ast.unparse(d)}' if has_default else ' fixed by its callers')
    return False, f'{T.show(t, maxlen=60)} is not an integer constant'


def explicit_random_state(ctx, rule='C09-R1'):
    fx = effects(ctx)
    p = ctx.project
    n = 0
    for q, e in fx.all_events():
        if e.kind != 'call':
            continue
        head = call_head(e) or ''
        is_taker = head in RANDOM_STATE_TAKERS or (
            head.startswith('sklearn.') and head not in DETERMINISTIC_SKLEARN
            and head.split('.')[-1][:1].isupper())
        if not is_taker:
            continue
        n += 1
        f = p.funcs[q]
        ctx.saw(f)
        rs = kwarg(e.call, 'random_state')
        if rs is None:
            ctx.violation(rule, q, e.node, e.loc(),
                          f'{head} is built without an explicit random_state: it draws from the global '
                          'NumPy generator, results depend on what ran before',
                          instance=f'{head} in {q}')
            continue
        ok, why = _seed_term_ok(fx, p, rs, f, 0)
        ctx.check(ok, rule, q, e.node, e.loc(),
                  f'random_state of {head} is {T.show(rs)} ({why}): not a fixed integer on every call path',
                  instance=f'{head}(random_state={T.show(rs)}) in {q}', detail=why)
    ctx.floor(rule, 'estimator constructions taking a random_state', n, 1)


def _only_called_from(fx, q, root, _seen=None) -> bool:
    """q is a helper of `root`: it has callers, and every one of them is root or such a helper."""
    _seen = _seen or set()
    if q in _seen:
        return True
    _seen.add(q)
    callers = {c for c in fx.callers.get(q, set()) if c in fx.summ}
    return bool(callers) and all(c == root or _only_called_from(fx, c, root, _seen) for c in callers)


def rng_confinement(ctx, rule='C09-R2'):
    """Consumers / re-seeders of the global generator are confined to the mock-data generators and
    tmp_seed; every path from outside mocker to a consumer lies inside `with tmp_seed(<int>)`."""
    fx = effects(ctx)
    p = ctx.project
    p.func(TMP_SEED, rule)
    direct = {}   # q -> [events]
    for q, e in fx.all_events():
        if e.kind != 'call':
            continue
        head = call_head(e) or ''
        c = e.call
        consumer = _is_global_rng_consumer(head)
        if tag(c) == 'mcall' and c[2] in SAMPLING_METHODS and kwarg(c, 'random_state') is None:
            consumer = True
        if head in NP_RESEEDERS:
            ctx.check(q == TMP_SEED or _only_called_from(fx, q, TMP_SEED), rule, q, e.node, e.loc(),
                      f'{head} re-seeds / overwrites the global NumPy generator outside tmp_seed',
                      instance=f'{head} in {q}')
            continue
        if consumer:
            direct.setdefault(q, []).append(e)
    n_direct = sum(len(v) for v in direct.values())
    ctx.floor(rule, 'call sites drawing from the global generator (mock data)', n_direct, 3)

    def protected(e) -> bool:
        for w in e.withs:
            if tag(w) == 'call' and w[1] == ('g', TMP_SEED):
                seed = w[2][0] if w[2] else dict(w[3]).get('seed')
                if seed is not None and (_seed_ok(seed) or _seed_term_ok(fx, p, seed, e.func, 0)[0]):
                    return True         # a fixed integer, possibly handed down by every caller
        return False
    # unprotected consumers, propagated up the call graph
    unprot = {}
    for q, evs in direct.items():
        bad = [e for e in evs if not protected(e)]
        if bad:
            unprot[q] = (bad[0], None)
    changed = True
    while changed:
        changed = False
        for q in fx.summ:
            if q in unprot:
                continue
            for e in fx.own_events(q):
                if e.kind not in ('call', 'propget'):
                    continue
                head = call_head(e)
                if head in unprot and not protected(e):
                    unprot[q] = (e, head)
                    changed = True
                    break
    for q, (e, via) in sorted(unprot.items()):
        mod = p.funcs[q].module.name
        ctx.check(mod == MOCKER, rule, q, e.node, e.loc(),
                  'draws from the global NumPy generator' + (f' through {via}' if via else '') +
                  ' outside a `with tmp_seed(<int>)` block, outside the mock-data generators: '
                  'consumes or depends on the caller\'s random state',
                  instance=f'{q}: unprotected consumer' + (f' via {via}' if via else ''))
    reach = processing_path(fx)
    ctx.check(TMP_SEED not in reach, rule, TMP_SEED, 'processing path', '',
              'tmp_seed() - which re-seeds and later overwrites the process-wide NumPy generator - is reachable from '
              'the processing path: two chunks processed concurrently re-seed / restore each other\'s generator',
              instance='tmp_seed not reachable from run()/CeiloChunk')
    hit = sorted(set(unprot) & reach)
    ctx.check(not hit, rule, hit[0] if hit else 'ampycloud.core.run', 'processing path', '',
              f'global-generator consumers reachable from the processing path: {hit}',
              instance='no consumer reachable from run()/CeiloChunk')
    demo = p.func('ampycloud.utils.mocker.canonical_demo_data', rule)
    ctx.check(demo.qname not in unprot, rule, demo.qname, demo.node.name, demo.loc(),
              'canonical_demo_data consumes the global generator outside tmp_seed',
              instance='canonical_demo_data is protected by tmp_seed')
    prot_sites = [e for q, e in fx.all_events() if e.kind == 'call' and protected(e)
                  and (call_head(e) in unprot or _is_global_rng_consumer(call_head(e) or ''))]
    ctx.floor(rule, 'consumer call sites inside with tmp_seed', len(prot_sites), 1)


def tmp_seed_typestate(ctx, rule='C09-R3'):
    fx = effects(ctx)
    p = ctx.project
    f = p.func(TMP_SEED, rule)
    ctx.saw(f)
    evs = fx.deep_events(TMP_SEED)
    ctx.check('contextlib.contextmanager' in f.decorators, rule, TMP_SEED, f.node.name, f.loc(),
              'tmp_seed is not a contextlib.contextmanager generator', instance='is a context manager')
    gets = [e for e in evs if e.kind == 'call' and call_head(e) == 'numpy.random.get_state']
    seeds = [e for e in evs if e.kind == 'call' and call_head(e) == 'numpy.random.seed']
    sets = [e for e in evs if e.kind == 'call' and call_head(e) == 'numpy.random.set_state']
    yields = [e for e in evs if e.kind == 'yield']
    # the other way of saying "finally": the restoration registered on an ExitStack whose `with` encloses the yield
    STACK = ('call', ('g', 'contextlib.ExitStack'), (), ())
    regs = [e for e in evs if e.kind == 'call' and tag(e.call) == 'mcall' and e.call[2] == 'callback'
            and tag(e.call[1]) == 'withval' and e.call[1][1] == STACK and e.call[3]
            and e.call[3][0] == ('g', 'numpy.random.set_state')]
    if gets and seeds and yields and regs and not sets:
        g, s, y, r = gets[0], seeds[0], yields[0], regs[0]
        ctx.check(g.seq < s.seq, rule, TMP_SEED, s.node, s.loc(),
                  'the generator is re-seeded before its state is saved: the saved state is the temporary one',
                  instance='state saved before seeding')
        ctx.check(s.seq < y.seq, rule, TMP_SEED, y.node, y.loc(), 'body runs before the temporary seed is set',
                  instance='seeded before the body')
        a0 = s.call[2][0] if s.call[2] else dict(s.call[3]).get('seed')
        ctx.check(a0 == ('p', f.params[0]), rule, TMP_SEED, s.node, s.loc(),
                  f'np.random.seed is called with {T.show(a0)}, not the requested seed', instance='seeded with the argument')
        ok_reg = len(r.call[3]) == 2 and r.call[3][1] == g.call and not r.call[4] and STACK in y.withs and STACK in r.withs \
            and r.seq < y.seq and not [l for l in T.find(r.guard, lambda x: tag(x) == 'cmp')]
        ctx.check(ok_reg, rule, TMP_SEED, y.node, y.loc(),
                  'the saved state is not restored on every way out of the body (no finally block enclosing the yield, no '
                  'unconditional ExitStack.callback(np.random.set_state, saved) registered before it inside the enclosing '
                  'with): an exception in the body leaves the global generator re-seeded',
                  instance='yield inside try / finally: set_state(saved)')
        between = [e for e in evs if s.seq < e.seq < r.seq and e.kind in ('call', 'raise', 'assert')]
        ctx.check(not between, rule, TMP_SEED, (between[0].node if between else s.node), s.loc(),
                  'a statement that can raise sits between np.random.seed() and the registration of the restoration',
                  instance='no raising statement between seed() and try')
        return
    if not (gets and seeds and sets and yields):
        ctx.violation(rule, TMP_SEED, f.node.name, f.loc(),
                      f'save/seed/yield/restore sequence incomplete: get_state x{len(gets)}, '
                      f'seed x{len(seeds)}, yield x{len(yields)}, set_state x{len(sets)}',
                      instance='get_state -> seed -> yield -> set_state')
        return
    g, s, y = gets[0], seeds[0], yields[0]

    def arg0(call, name):
        return call[2][0] if call[2] else dict(call[3]).get(name)
    ctx.check(g.seq < s.seq, rule, TMP_SEED, s.node, s.loc(),
              'the generator is re-seeded before its state is saved: the saved state is the temporary one',
              instance='state saved before seeding')
    ctx.check(s.seq < y.seq, rule, TMP_SEED, y.node, y.loc(), 'body runs before the temporary seed is set',
              instance='seeded before the body')
    ctx.check(arg0(s.call, 'seed') == ('p', f.params[0]), rule, TMP_SEED, s.node, s.loc(),
              f'np.random.seed is called with {T.show(arg0(s.call, "seed"))}, not the '
              'requested seed', instance='seeded with the argument')
    # the yield is inside a try whose finally restores the saved state, unconditionally
    tnodes = [t for t, part in y.tries if part == 'body' and t.finalbody]
    ok_final = False
    for tnode in tnodes:
        for e in sets:
            if (tnode, 'final') in e.tries and arg0(e.call, 'state') == g.call \
                    and not [l for l in T.find(e.guard, lambda x: tag(x) == 'cmp')]:
                ok_final = True
    ctx.check(ok_final, rule, TMP_SEED, y.node, y.loc(),
              'the saved state is not restored in a finally block enclosing the yield: an exception in '
              'the body leaves the global generator re-seeded',
              instance='yield inside try / finally: set_state(saved)')
    # nothing that can raise between seeding and entering the try
    if tnodes:
        first_in_try = min((e.seq for e in evs if any(t is tnodes[0] for t, _ in e.tries)), default=y.seq)
        def cm_creation(e):
            # calling a @contextmanager function only creates the manager: nothing of its body runs yet
            h = call_head(e) if e.kind == 'call' else None
            return h in p.funcs and any(d.endswith('contextmanager') for d in p.funcs[h].decorators)
        between = [e for e in evs if s.seq < e.seq < first_in_try and e.kind in ('call', 'raise', 'assert')
                   and not cm_creation(e)]
        ctx.check(not between, rule, TMP_SEED, (between[0].node if between else s.node), s.loc(),
                  'a statement that can raise sits between np.random.seed() and the try block',
                  instance='no raising statement between seed() and try')
    # set_state is not called anywhere else with something else
    for e in sets:
        ctx.check(arg0(e.call, 'state') == g.call, rule, TMP_SEED, e.node, e.loc(),
                  f'set_state restores {T.show(arg0(e.call, "state"))}, not the saved state',
                  instance='set_state(saved state)')


def _settyped(t) -> bool:
    t = T.peel(t) if tag(t) != 'call' else t
    tg = tag(t)
    if tg == 'set':
        return True
    if tg == 'lc' and t[1] == 'set':
        return True
    if tg == 'call' and t[1] in (('g', 'builtins.set'), ('g', 'builtins.frozenset')):
        return True
    if tg == 'mcall' and t[2] in ('union', 'intersection', 'difference', 'symmetric_difference') \
            and _settyped(t[1]):
        return True
    if tg == 'bin' and t[1] in ('|', '&', '-', '^') and (_settyped(t[2]) or _settyped(t[3])):
        return True
    return False


ORDER_CONSUMERS = {'builtins.list', 'builtins.tuple', 'builtins.enumerate', 'builtins.iter',
                   'builtins.next', 'numpy.array', 'numpy.asarray', 'builtins.zip', 'builtins.map',
                   'numpy.fromiter', 'pandas.Series', 'pandas.Index', 'pandas.DataFrame'}


def no_hash_order(ctx, rule='C09-R4'):
    fx = effects(ctx)
    reach = processing_path(fx)
    n_loops = 0
    for lid, loop in fx.ex.loops.items():
        if loop.func.qname not in reach:
            continue
        n_loops += 1
        if loop.iter is not None and _settyped(loop.iter):
            ctx.violation(rule, loop.func.qname, loop.node.iter if hasattr(loop.node, 'iter') else loop.node,
                          loop.func.loc(loop.node),
                          'iterates over a set: the order depends on hashing (PYTHONHASHSEED for strings)',
                          instance=f'loop over {T.show(loop.iter, maxlen=60)}')
    for q in sorted(reach):
        for e in fx.own_events(q):
            for nm, v in fx.terms_of(e):
                if nm == 'guard':
                    continue
                for t in T.find(v, lambda x: tag(x) == 'lc'):
                    for it, conds in t[3]:
                        if _settyped(it) and t[1] != 'set':
                            ctx.violation(rule, q, e.node, e.loc(), 'comprehension iterates over a set',
                                          instance=f'comprehension over {T.show(it, maxlen=60)}')
                for t in T.find(v, lambda x: tag(x) == 'call' and tag(x[1]) == 'g'
                                and x[1][1] in ORDER_CONSUMERS and x[2] and _settyped(x[2][0])):
                    ctx.violation(rule, q, e.node, e.loc(),
                                  f'{t[1][1]} materialises a set in hash order',
                                  instance=f'{t[1][1]}(set)')
                for t in T.find(v, lambda x: tag(x) == 'mcall' and x[2] in ('pop', 'join')
                                and (_settyped(x[1]) or (x[3] and _settyped(x[3][0])))):
                    ctx.violation(rule, q, e.node, e.loc(), 'takes elements of a set in hash order',
                                  instance='set.pop / join(set)')
                for t in T.find(v, lambda x: tag(x) == 'call' and x[1] in (('g', 'builtins.hash'),
                                                                           ('g', 'builtins.id'))):
                    ctx.violation(rule, q, e.node, e.loc(), f'{t[1][1]}() value used on the processing path',
                                  instance=t[1][1])
    ctx.ok(rule, f'{n_loops} loops and all comprehensions on the processing path: none ordered by hashing', '')
    ctx.floor(rule, 'loops on the processing path', n_loops, 15)


def nondeterminism_taint(ctx, rule='C09-R5'):
    """Clock / pid / environment values flow only into logging calls and the ref_dt metadata."""
    fx = effects(ctx)
    p = ctx.project
    reach = processing_path(fx) | {'ampycloud.core.demo'}
    n_src = 0

    def is_src(x):
        if tag(x) == 'call' and tag(x[1]) == 'g':
            return any(x[1][1] == s or (s.endswith('.') and x[1][1].startswith(s)) for s in NONDET_SOURCES)
        if tag(x) == 'g':
            return x[1] in ('os.environ',) or x[1].startswith('os.environ.')
        return False
    def sanitize(v):
        """Blank the ref_dt / geoloc metadata arguments of package calls inside v."""
        mapping = {}
        for c in T.find(v, lambda x: tag(x) == 'call' and tag(x[1]) == 'g'
                        and (x[1][1] in p.funcs or x[1][1] in p.classes)):
            head = c[1][1]
            cf = p.funcs.get(head) or p.find_method(p.classes[head], '__init__')
            if cf is None:
                continue
            names = [a.arg for a in cf.node.args.posonlyargs + cf.node.args.args]
            if head in p.classes:
                names = names[1:]
            args = tuple(('meta',) if i < len(names) and names[i] in ('ref_dt', 'geoloc') else a
                         for i, a in enumerate(c[2]))
            kws = tuple((k, ('meta',) if k in ('ref_dt', 'geoloc') else val) for k, val in c[3])
            if (args, kws) != (c[2], c[3]):
                mapping[c] = ('call', c[1], args, kws)
        return T.subst(v, mapping) if mapping else v
    for q in sorted(reach):
        f = p.funcs[q]
        for e in fx.own_events(q):
            is_pkg_call = e.kind == 'call' and (call_head(e) in p.funcs or call_head(e) in p.classes)
            tainted = [nm for nm, v in fx.terms_of(e) if nm != 'guard' and
                       T.contains(v if (is_pkg_call and nm == 'call') else sanitize(v), is_src)]
            gt = T.contains(sanitize(e.guard), is_src)
            if not tainted and not gt:
                continue
            n_src += 1
            ok = False
            head = call_head(e) if e.kind == 'call' else None
            if e.kind == 'assign':
                ok = True          # binding a local; its uses are checked where they happen
            elif e.kind == 'call' and head and (is_logger_call(head) or is_src(e.call)):
                ok = True
            elif e.kind == 'call' and head in ('builtins.str', 'builtins.repr', 'builtins.float',
                                                'builtins.format'):
                ok = True
            elif e.kind == 'call' and tag(e.call) == 'mcall' and e.call[2] in ('total_seconds', 'isoformat',
                                                                                'strftime'):
                ok = True
            elif e.kind == 'call' and head and (head in p.funcs or head in p.classes):
                # allowed only as the ref_dt / geoloc metadata argument
                cf = p.funcs.get(head) or p.find_method(p.classes[head], '__init__')
                binding = fx._bind(cf, (('p', 'self'),) + tuple(e.call[2]) if head in p.classes else e.call[2],
                                   e.call[3])
                bad = [k for k, v in binding.items() if T.contains(v, is_src) and k not in ('ref_dt', 'geoloc')]
                ok = not bad
            if gt:
                ok = False
            ctx.check(ok, rule, q, e.node, e.loc(),
                      'a clock / process / environment dependent value reaches something other than a '
                      'log call or the ref_dt metadata', instance=f'{q}: {e.text()[:70]}')
    # ref_dt / geoloc never reach the computation: on the processing path they are only stored and returned
    for q in sorted(processing_path(fx)):
        for e in fx.own_events(q):
            for nm, v in fx.terms_of(e):
                if nm == 'guard' and T.contains(v, lambda x: x in (('attr', ('p', 'self'), '_ref_dt'),
                                                                   ('attr', ('p', 'self'), '_geoloc'))):
                    ctx.violation(rule, q, e.node, e.loc(), 'ref_dt / geoloc metadata steers the computation',
                                  instance=f'{q}: branch on metadata')
    ctx.floor(rule, 'events carrying clock values (run / demo)', n_src, 3)


def no_uninitialised_memory(ctx, rule='C09-R7'):
    """np.empty / np.empty_like hand out memory as the allocator left it: whatever is not overwritten afterwards holds the
    content of the buffer released last - values that depend on what was processed before in the same process.  None is
    allocated on the processing path (an output buffer is np.full / np.zeros / np.full_like with an explicit fill)."""
    fx = effects(ctx)
    p = ctx.project
    funcs = fx.reachable(fx.processing_entries())
    UNINIT = {'numpy.empty', 'numpy.empty_like', 'numpy.ndarray', 'numpy.ma.empty', 'numpy.ma.empty_like',
              'numpy.lib.stride_tricks.as_strided'}
    n = 0
    for q in sorted(funcs):
        for e in fx.own_events(q):
            if e.kind != 'call':
                continue
            n += 1
            head = call_head(e) or ''
            ctx.check(head not in UNINIT, rule, q, e.node, e.loc(),
                      f'{head} allocates without initialising: the elements nothing writes afterwards (rows no mask selects, '
                      'NaN inputs that fail every comparison) keep what the last freed buffer of that size held - the result '
                      'depends on what ran before', instance=f'{q}: no uninitialised buffer ({head})') if head in UNINIT else None
    ctx.floor(rule, 'calls on the processing path scanned for uninitialised allocations', n, 200)
