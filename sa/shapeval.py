"""E7b - shape-instantiated evaluation of extracted terms.

The provenance term of an expression over *lists of unknown numbers* (the step edges and scales of
``scaler.step_scale``) is evaluated in the checker's own semantics for one concrete list length at a
time: the elements stay opaque atoms (s0, s1, ..., c0, c1, ...), every value is an exact Laurent
polynomial over them (sa.symalg.Poly), list / array operations (concatenation, slicing, np.diff,
element-wise arithmetic with NumPy's length rule, prefix sums, comprehensions over range(len(.)))
act on Python lists of such polynomials.  Nothing of the analysed package is imported or run; what is
interpreted is the term the abstract executor extracted from the source, over a polynomial domain.

An operation outside the subset is an AnalysisError (fail closed), a length mismatch NumPy would refuse
(or silently broadcast) is reported as ShapeError.
"""
from __future__ import annotations

from fractions import Fraction as F

from . import terms as T
from .core import AnalysisError
from .symalg import Poly
from .terms import tag


class ShapeError(Exception):
    """The evaluated expression is ill-formed for this list length (NumPy would raise or broadcast)."""


class Seq:
    __slots__ = ('kind', 'items')

    def __init__(self, kind, items):
        self.kind = kind            # 'L' python list / tuple, 'A' ndarray
        self.items = list(items)

    def __len__(self):
        return len(self.items)


def atom(name: str) -> Poly:
    return Poly({((name, 1),): F(1)})


INF = atom('inf')


def as_int(v):
    if isinstance(v, bool):
        return int(v)
    if isinstance(v, int):
        return v
    if isinstance(v, Poly):
        if not v.d:
            return 0
        if set(v.d) == {()} and v.d[()].denominator == 1:
            return int(v.d[()])
    return None


class ShapeEval:
    def __init__(self, rule: str, env: dict, loopvars: dict | None = None, var=None):
        """env: term -> value for parameters; loopvars: ('lv', lid, name) -> value; var: the data
        variable term, read element-wise as the atom 'v'."""
        self.rule, self.env, self.loopvars, self.var = rule, env, loopvars or {}, var
        self.cv = {}

    def bad(self, t, why='outside the sequence subset'):
        raise AnalysisError(self.rule, f'{why}: {T.show(t, maxlen=160)}')

    # ------------------------------------------------------------------ helpers
    def _arith(self, op, a, b, t):
        if isinstance(a, Seq) or isinstance(b, Seq):
            if op == '+' and isinstance(a, Seq) and isinstance(b, Seq) and a.kind == 'L' and b.kind == 'L':
                return Seq('L', a.items + b.items)
            if op == '*' and isinstance(a, Seq) and a.kind == 'L' and as_int(b) is not None:
                return Seq('L', a.items * as_int(b))
            la = len(a) if isinstance(a, Seq) else None
            lb = len(b) if isinstance(b, Seq) else None
            if la is not None and lb is not None and la != lb:
                if la == 1:
                    a = Seq('A', a.items * lb)
                elif lb == 1:
                    b = Seq('A', b.items * la)
                else:
                    raise ShapeError(f'operands of lengths {la} and {lb} in {T.show(t, maxlen=100)}')
            n = la if la is not None else lb
            if la is not None and lb is not None:
                n = max(len(a), len(b))
            ai = a.items if isinstance(a, Seq) else [a] * n
            bi = b.items if isinstance(b, Seq) else [b] * n
            return Seq('A', [self._arith(op, x, y, t) for x, y in zip(ai, bi)])
        a, b = self._poly(a, t), self._poly(b, t)
        if op == '+':
            return a + b
        if op == '-':
            return a - b
        if op == '*':
            return a * b
        if op == '/':
            if not b.d:
                raise ShapeError(f'division by zero in {T.show(t, maxlen=100)}')
            return a * b.inv()
        self.bad(t, f'operator {op}')

    def _poly(self, v, t):
        if isinstance(v, Poly):
            return v
        if isinstance(v, bool):
            return Poly.const(int(v))
        if isinstance(v, (int, float)):
            return Poly.const(F(v))
        self.bad(t, f'not a number ({type(v).__name__})')

    def _seq(self, v, t) -> Seq:
        if isinstance(v, Seq):
            return v
        self.bad(t, 'not a sequence')

    def _slice(self, s: Seq, sl, t) -> Seq:
        lo, hi, st = (self.ev(x) for x in sl[1:4])
        vals = []
        for x in (lo, hi, st):
            if x is None:
                vals.append(None)
            else:
                i = as_int(x)
                if i is None:
                    self.bad(t, 'slice bound is not a concrete integer')
                vals.append(i)
        return Seq(s.kind, s.items[slice(*vals)])

    # ------------------------------------------------------------------ evaluation
    def ev(self, t):
        if t in self.env:
            return self.env[t]
        if t in self.loopvars:
            return self.loopvars[t]
        if self.var is not None and t == self.var:
            return atom('v')
        tg = tag(t)
        if tg == 'c':
            v = t[1]
            if v is None or isinstance(v, (bool, str)):
                return v
            if isinstance(v, (int, float)):
                return Poly.const(F(v))
            self.bad(t, 'constant')
        if tg == 'g':
            if t[1] in ('numpy.inf', 'math.inf', 'numpy.Inf', 'numpy.infty'):
                return INF
            self.bad(t, 'global')
        if tg == 'cv':
            if t in self.cv:
                return self.cv[t]
            self.bad(t, 'unbound comprehension variable')
        if tg == 'mask':
            if self.var is not None and t[1] == self.var:
                return atom('v')                      # element-wise reading of vals[cond]
            self.bad(t, 'boolean selection')
        if tg in ('list', 'tuple'):
            return Seq('L', [self.ev(x) for x in t[1]])
        if tg == 'un' and t[1] == '-':
            return self._arith('-', Poly.const(0), self.ev(t[2]), t)
        if tg == 'un' and t[1] == '+':
            return self.ev(t[2])
        if tg == 'bin':
            return self._arith(t[1], self.ev(t[2]), self.ev(t[3]), t)
        if tg == 'sub':
            base = self._seq(self.ev(t[1]), t)
            if tag(t[2]) == 'slice':
                return self._slice(base, t[2], t)
            i = as_int(self.ev(t[2]))
            if i is None:
                self.bad(t, 'index is not a concrete integer')
            if not -len(base) <= i < len(base):
                raise ShapeError(f'index {i} out of range for a sequence of length {len(base)} in '
                                 f'{T.show(t, maxlen=100)}')
            return base.items[i]
        if tg == 'phi':
            hit = [v for g, v in t[1] if self.truth(g) is True]
            if len(hit) != 1:
                self.bad(t, 'alternatives not decided by the list lengths')
            return self.ev(hit[0])
        if tg == 'ifexp':
            return self.ev(t[2] if self.truth(t[1]) else t[3])
        if tg == 'lc':
            return self._lc(t)
        if tg == 'call':
            return self._call(t)
        if tg == 'mcall':
            return self._mcall(t)
        if tg in ('cmp', 'and', 'or', 'not'):
            return self.truth(t)
        self.bad(t)

    def truth(self, g):
        tg = tag(g)
        if g == T.TRUE:
            return True
        if tg == 'cmp':
            a, b = self.ev(g[2]), self.ev(g[3])
            ia, ib = as_int(a), as_int(b)
            if ia is None or ib is None:
                self.bad(g, 'comparison not decided by the list lengths')
            return {'lt': ia < ib, 'le': ia <= ib, 'eq': ia == ib, 'ne': ia != ib}[g[1]]
        if tg == 'and':
            return all(self.truth(x) for x in g[1])
        if tg == 'or':
            return any(self.truth(x) for x in g[1])
        if tg == 'not':
            return not self.truth(g[1])
        v = self.ev(g)
        if isinstance(v, Seq):
            if v.kind == 'A' and len(v) != 1:
                self.bad(g, 'truth value of an array')
            if v.kind == 'L':
                return len(v) > 0
            v = v.items[0]
        i = as_int(v)
        if i is None:
            self.bad(g, 'truth value not decided by the list lengths')
        return bool(i)

    def _lc(self, t):
        _, kind, elt, gens = t
        if kind not in ('list', 'gen', 'tuple') or len(gens) != 1:
            self.bad(t, 'comprehension')
        it, conds = gens[0]
        # which comprehension variables does the element use?
        cvs = sorted({x for x in T.walk(elt) if tag(x) == 'cv'} | {x for c in conds for x in T.walk(c) if tag(x) == 'cv'},
                     key=repr)
        depth = {x[1] for x in cvs}
        if len(depth) > 1:
            self.bad(t, 'nested comprehension')
        enum = tag(it) == 'call' and it[1] == ('g', 'builtins.enumerate')
        src = self._seq(self.ev(it[2][0] if enum else it), t)
        out = []
        saved = dict(self.cv)
        try:
            for i, x in enumerate(src.items):
                for c in cvs:
                    nm = c[2]
                    if nm.endswith('.idx'):
                        self.cv[c] = Poly.const(i)
                    elif nm.endswith('.elem'):
                        self.cv[c] = x
                    elif '.' in nm:
                        k = int(nm.split('.')[1])
                        self.cv[c] = self._seq(x, t).items[k]
                    else:
                        self.cv[c] = x
                if all(self.truth(c) for c in conds):
                    out.append(self.ev(elt))
        finally:
            self.cv = saved
        return Seq('L', out)

    def _call(self, t):
        head = t[1][1] if tag(t[1]) == 'g' else None
        if head is None:
            self.bad(t, 'call')
        args = t[2]
        kws = dict(t[3]) if len(t) > 3 else {}
        if head == 'builtins.len':
            return Poly.const(len(self._seq(self.ev(args[0]), t)))
        if head == 'builtins.range':
            vals = [as_int(self.ev(a)) for a in args]
            if any(v is None for v in vals):
                self.bad(t, 'range bound is not a concrete integer')
            return Seq('L', [Poly.const(i) for i in range(*vals)])
        if head in ('builtins.list', 'builtins.tuple'):
            return Seq('L', self._seq(self.ev(args[0]), t).items) if args else Seq('L', [])
        if head in ('numpy.array', 'numpy.asarray', 'numpy.atleast_1d', 'numpy.asanyarray'):
            v = self.ev(args[0])
            return Seq('A', v.items if isinstance(v, Seq) else [v])
        if head in ('builtins.float', 'builtins.int') and len(args) == 1:
            v = self.ev(args[0])
            if head.endswith('int') and as_int(v) is None:
                self.bad(t, 'int() of a symbolic value')
            return v
        if head in ('numpy.sum', 'builtins.sum', 'numpy.nansum'):
            if kws:
                self.bad(t, 'keyword arguments of a sum')
            tot = Poly.const(0) if len(args) < 2 else self._poly(self.ev(args[1]), t)
            for x in self._seq(self.ev(args[0]), t).items:
                tot = tot + self._poly(x, t)
            return tot
        if head == 'numpy.cumsum':
            tot, out = Poly.const(0), []
            for x in self._seq(self.ev(args[0]), t).items:
                tot = tot + self._poly(x, t)
                out.append(tot)
            return Seq('A', out)
        if head in ('numpy.diff', 'numpy.ediff1d'):
            if len(args) != 1 or kws:
                self.bad(t, 'np.diff with extra arguments')
            s = self._seq(self.ev(args[0]), t).items
            return Seq('A', [self._arith('-', b, a, t) for a, b in zip(s, s[1:])])
        if head in ('numpy.concatenate', 'numpy.hstack'):
            parts = self._seq(self.ev(args[0]), t).items
            out = []
            for p in parts:
                p = self._seq(p, t) if isinstance(p, Seq) else self.bad(t, 'zero-dimensional array in np.concatenate')
                out += p.items
            return Seq('A', out)
        if head == 'numpy.append' and len(args) == 2:
            a, b = self.ev(args[0]), self.ev(args[1])
            return Seq('A', (a.items if isinstance(a, Seq) else [a]) + (b.items if isinstance(b, Seq) else [b]))
        if head == 'numpy.insert' and len(args) == 3:
            a = self._seq(self.ev(args[0]), t).items
            i = as_int(self.ev(args[1]))
            v = self.ev(args[2])
            if i is None:
                self.bad(t, 'np.insert position')
            i = i if i >= 0 else len(a) + i
            return Seq('A', a[:i] + (v.items if isinstance(v, Seq) else [v]) + a[i:])
        if head in ('numpy.zeros', 'numpy.ones') and len(args) == 1:
            n = as_int(self.ev(args[0]))
            if n is None:
                self.bad(t, 'array length')
            return Seq('A', [Poly.const(0 if head.endswith('zeros') else 1)] * n)
        if head == 'numpy.arange':
            vals = [as_int(self.ev(a)) for a in args]
            if any(v is None for v in vals):
                self.bad(t, 'arange bound')
            return Seq('A', [Poly.const(i) for i in range(*vals)])
        if head in ('numpy.negative',):
            return self._arith('-', Poly.const(0), self.ev(args[0]), t)
        if head in ('numpy.divide', 'numpy.true_divide', 'numpy.multiply', 'numpy.add', 'numpy.subtract') and len(args) == 2:
            op = {'divide': '/', 'true_divide': '/', 'multiply': '*', 'add': '+', 'subtract': '-'}[head.split('.')[1]]
            a, b = self.ev(args[0]), self.ev(args[1])
            if isinstance(a, Seq):
                a = Seq('A', a.items)
            if isinstance(b, Seq):
                b = Seq('A', b.items)
            return self._arith(op, a, b, t)
        if head in ('builtins.min', 'builtins.max', 'numpy.minimum', 'numpy.maximum') and len(args) >= 2 and not kws:
            vals = [as_int(self.ev(a)) for a in args]
            if any(v is None for v in vals):
                self.bad(t, 'min / max of symbolic values')
            return Poly.const(min(vals) if head.endswith(('min', 'minimum')) else max(vals))
        if head == 'builtins.zip':
            seqs = [self._seq(self.ev(a), t).items for a in args]
            return Seq('L', [Seq('L', list(x)) for x in zip(*seqs)])
        if head == 'builtins.enumerate':
            s = self._seq(self.ev(args[0]), t).items
            return Seq('L', [Seq('L', [Poly.const(i), x]) for i, x in enumerate(s)])
        self.bad(t, f'call of {head}')

    def _mcall(self, t):
        recv, name, args = t[1], t[2], t[3]
        if name in ('copy', 'tolist', 'flatten', 'ravel') and not args:
            v = self._seq(self.ev(recv), t)
            return Seq('L' if name == 'tolist' else v.kind, v.items)
        if name == 'sum' and not args:
            tot = Poly.const(0)
            for x in self._seq(self.ev(recv), t).items:
                tot = tot + self._poly(x, t)
            return tot
        if name == 'cumsum' and not args:
            tot, out = Poly.const(0), []
            for x in self._seq(self.ev(recv), t).items:
                tot = tot + self._poly(x, t)
                out.append(tot)
            return Seq('A', out)
        if name == 'astype':
            return self.ev(recv)
        self.bad(t, f'method {name}')
