"""Confirms a seeded change and records it under /verif/seeded/<name>/.

    python tools/seed_verify.py <PROP> <name> <patch.diff> <demo.py> [notes.md]

Steps (all in a scratch worktree of /repo's HEAD under /tmp, removed afterwards; /repo is never touched):
  1. demo on the unchanged tree            -> must exit 0
  2. git apply patch; full test suite      -> must pass (76 tests)
  3. demo on the changed tree              -> must exit 1
  4. every registered quick check against the changed tree (VERIF_REPO) -> which ones report it
"""
import json
import os
import shutil
import subprocess
import sys
from pathlib import Path

VERIF = Path(__file__).resolve().parent.parent
PY = '/venv/bin/python'


def run(cmd, cwd, env=None, timeout=900):
    e = dict(os.environ)
    e.update(env or {})
    r = subprocess.run(cmd, cwd=cwd, env=e, capture_output=True, text=True, timeout=timeout)
    return r.returncode, (r.stdout + r.stderr)


def main():
    prop, name, patch, demo = sys.argv[1:5]
    notes = sys.argv[5] if len(sys.argv) > 5 else None
    wt = Path(f'/tmp/sv_{name}')
    out = Path(f'/tmp/sv_out_{name}')
    subprocess.run(['git', '-C', '/repo', 'worktree', 'remove', '--force', str(wt)], capture_output=True)
    subprocess.check_call(['git', '-C', '/repo', 'worktree', 'add', '-q', str(wt), 'HEAD'])
    meta = {'property': prop, 'name': name}
    try:
        env = {'PYTHONPATH': str(wt / 'src'), 'MPLBACKEND': 'Agg'}
        shutil.copy(demo, wt / 'seed_demo.py')
        rc0, o0 = run([PY, 'seed_demo.py'], wt, env, 300)
        meta['demo_exit_unchanged'] = rc0
        rc, o = run(['git', 'apply', str(Path(patch).resolve())], wt)
        if rc != 0:
            meta['error'] = 'patch does not apply: ' + o[-300:]
            print(json.dumps(meta, indent=1))
            return 2
        rcs, os_ = run([PY, '-m', 'pytest', '-q', '-p', 'no:cacheprovider', '-x', '-n', '8', '--timeout=900'], wt, env)
        meta['suite_passes_with_change'] = rcs == 0
        meta['suite_tail'] = os_.strip().splitlines()[-1] if os_.strip() else ''
        rc1, o1 = run([PY, 'seed_demo.py'], wt, env, 300)
        meta['demo_exit_changed'] = rc1
        meta['demo_output_changed'] = o1.strip()[-600:]
        caught = {}
        for i in range(1, 21):
            pid = f'C{i:02d}'
            rcq, oq = run([PY, 'sa/check.py', pid, '--tier', 'quick'], VERIF,
                          {'VERIF_REPO': str(wt), 'VERIF_OUT': str(out)}, 300)
            if rcq != 0:
                lines = [l.strip() for l in oq.splitlines() if l.strip().startswith(pid + '-') or 'ANALYSIS-ERROR' in l]
                caught[pid] = {'exit': rcq, 'reports': lines[:4]}
        meta['checks_reporting'] = caught
        meta['caught_by_own_property_check'] = prop in caught and caught[prop]['exit'] == 1
        meta['confirmed'] = rc0 == 0 and rcs == 0 and rc1 == 1
    finally:
        subprocess.run(['git', '-C', '/repo', 'worktree', 'remove', '--force', str(wt)], capture_output=True)
        shutil.rmtree(out, ignore_errors=True)
    if meta.get('confirmed'):
        dest = VERIF / 'seeded' / name
        dest.mkdir(parents=True, exist_ok=True)
        shutil.copy(patch, dest / 'patch.diff')
        shutil.copy(demo, dest / 'demo.py')
        if notes and Path(notes).exists():
            shutil.copy(notes, dest / 'notes.md')
            meta['needs_to_manifest'] = Path(notes).read_text()[:1500]
        meta['what_was_run'] = ('scratch worktree of /repo HEAD: demo (exit 0), git apply, pytest -n 8 (76 passed), demo '
                                '(exit 1), then every quick check with VERIF_REPO pointing at the changed worktree')
        (dest / 'meta.json').write_text(json.dumps(meta, indent=1))
    print(json.dumps({k: v for k, v in meta.items() if k not in ('needs_to_manifest',)}, indent=1))
    return 0 if meta.get('confirmed') else 1


if __name__ == '__main__':
    sys.exit(main())
