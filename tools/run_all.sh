#!/bin/sh
# Runs every registered check (quick or thorough) and validates the evidence files against the schema.
TIER=${1:-quick}
cd "$(dirname "$0")/.."
rc=0
for i in 01 02 03 04 05 06 07 08 09 10 11 12 13 14 15 16 17 18 19 20; do
  /venv/bin/python sa/check.py C$i --tier $TIER | tail -1 || rc=1
done
python3-vt - <<'PY'
import json, jsonschema, glob
sch = json.load(open('/root/.vp/EVIDENCE.schema.json'))
for f in sorted(glob.glob('evidence/C*.json')):
    jsonschema.validate(json.load(open(f)), sch)
jsonschema.validate(json.load(open('MANIFEST.json')), json.load(open('/root/.vp/MANIFEST.schema.json')))
print('evidence and manifest validate')
PY
exit $rc
