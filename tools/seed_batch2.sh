#!/bin/sh
# tools/seed_batch2.sh C04 [C05 ...]: verify second-round mutants delivered in /tmp/wt2_<ID>/mutants.
# Results are stored under the next free names (<ID>_m3, <ID>_m4, ...), never over an existing seeded change.
for P in "$@"; do
  for d in ${WT_PREFIX:-/tmp/wt2_}$P/mutants/m*.diff; do
    [ -f "$d" ] || continue
    n=$(basename $d .diff)
    k=1; while [ -d seeded/${P}_m$k ]; do k=$((k+1)); done
    /venv/bin/python tools/seed_verify.py $P ${P}_m$k $d ${WT_PREFIX:-/tmp/wt2_}$P/mutants/${n}_demo.py ${WT_PREFIX:-/tmp/wt2_}$P/mutants/${n}_notes.md 2>/dev/null | python3 -c "
import sys,json
d=json.load(sys.stdin)
print(d['name'], '(from $n)', 'confirmed' if d.get('confirmed') else 'NOT-CONFIRMED', 'suite', d.get('suite_passes_with_change'), 'demo', d.get('demo_exit_unchanged'), d.get('demo_exit_changed'), 'OWN-CHECK', d.get('caught_by_own_property_check'))
for k,v in d.get('checks_reporting',{}).items(): print('     ',k, 'exit',v['exit'], (v['reports'][:1] or [''])[0][:230])
if d.get('error'): print('   error', d['error'])
"
  done
done
