#!/bin/sh
# tools/refactor_batch3.sh C04 [C05 ...]: verify the structural refactorings delivered in /tmp/rf3_<ID>/refactors.
# Results are stored under the next free names (<ID>_r4, <ID>_r5, ...), never over an existing one.
for P in "$@"; do
  for d in ${RF_PREFIX:-/tmp/rf3_}$P/refactors/r*.diff; do
    [ -f "$d" ] || continue
    n=$(basename $d .diff)
    k=1; while [ -d seeded_equiv/${P}_r$k ]; do k=$((k+1)); done
    /venv/bin/python tools/refactor_verify.py $P ${P}_r$k $d ${RF_PREFIX:-/tmp/rf3_}$P/refactors/${n}_demo.py ${RF_PREFIX:-/tmp/rf3_}$P/refactors/${n}_notes.md 2>/dev/null | python3 -c "
import sys,json
d=json.load(sys.stdin)
print(d['name'], '(from $n)', 'suite', d.get('suite_passes'), 'same-output', d.get('demo_output_identical'), 'SILENT' if d.get('silent') else 'ALARMS')
for k,v in d.get('alarms',{}).items(): print('     ',k, 'exit',v['exit'], (v['reports'][:1] or [''])[0][:260])
if d.get('error'): print('   error', d['error'])
"
  done
done
