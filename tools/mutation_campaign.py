"""Systematic mutation campaign against the static checks (complements the sub-agent campaign).

Generates first-order AST mutants of the package (comparison / boolean / arithmetic operator swaps, constant
perturbations, min<->max style name swaps, keyword flag flips, slice end swaps, statement deletions), and classifies
each one:

  phase 1  every registered quick check on the mutated tree          -> FLAGGED (exit 1) / ANALYSIS-ERROR (exit 2) / quiet
  phase 2  (quiet ones) behaviour digests = the demo programs the refactoring sub-agents wrote (they print a
           deterministic digest of the public behaviour), compared with the digest of the unmodified tree
                                                                      -> SAME (probably an equivalent mutant) / CHANGED
  phase 3  (quiet + CHANGED) the project's test suite                 -> SURVIVES the tests (a realistic breakage the
           checks miss: to be triaged by hand) / killed by the tests

Nothing here is a check: it *runs* ampycloud, and is only used to find out where the static rules are blind.

    python tools/mutation_campaign.py gen                 # writes /tmp/mut/mutants.json
    python tools/mutation_campaign.py phase1 [N]          # run the checks on (a sample of N) mutants
    python tools/mutation_campaign.py phase2              # digests for the quiet ones
    python tools/mutation_campaign.py phase3              # suite for quiet + changed
    python tools/mutation_campaign.py report
"""
import ast
import copy
import hashlib
import json
import os
import random
import shutil
import subprocess
import sys
from concurrent.futures import ProcessPoolExecutor
from pathlib import Path

VERIF = Path(__file__).resolve().parent.parent
PY = '/venv/bin/python'
WORK = Path('/tmp/mut')
SRC = Path('/repo/src/ampycloud')
FILES = ['data.py', 'core.py', 'wmo.py', 'icao.py', 'scaler.py', 'cluster.py', 'layer.py', 'fluffer.py', 'utils/utils.py',
         'plots/core.py', 'plots/tools.py', 'plots/diagnostics.py', 'plots/secondary.py', 'dynamic.py']
DIGESTS = ['C01_r1', 'C05_r1', 'C07_r1', 'C10_r1', 'C12_r1', 'C14_r1', 'C15_r1', 'C16_r1', 'C19_r1', 'C18_r1', 'C06_r1', 'C04_r1', 'C20_r1']

DIGESTS_BY_FILE = {
    'data.py': ['C01_r1', 'C05_r1', 'C07_r1', 'C14_r1', 'C06_r1', 'C16_r1'],
    'layer.py': ['C06_r1', 'C05_r1', 'C01_r1'],
    'fluffer.py': ['C04_r1', 'C01_r1'],
    'scaler.py': ['C19_r1', 'C05_r1'],
    'utils/utils.py': ['C15_r1', 'C10_r1', 'C12_r1', 'C04_r1'],
    'wmo.py': ['C18_r1', 'C01_r1'], 'icao.py': ['C01_r1'], 'core.py': ['C01_r1', 'C12_r1'], 'cluster.py': ['C05_r1'],
    'dynamic.py': ['C12_r1'],
    'plots/core.py': ['C20_r1'], 'plots/tools.py': ['C20_r1'], 'plots/diagnostics.py': ['C20_r1'],
    'plots/secondary.py': ['C20_r1'],
}
CMP_SWAP = {ast.Lt: ast.LtE, ast.LtE: ast.Lt, ast.Gt: ast.GtE, ast.GtE: ast.Gt, ast.Eq: ast.NotEq, ast.NotEq: ast.Eq,
            ast.Is: ast.IsNot, ast.IsNot: ast.Is, ast.In: ast.NotIn, ast.NotIn: ast.In}
BIN_SWAP = {ast.Add: ast.Sub, ast.Sub: ast.Add, ast.Mult: ast.Div, ast.Div: ast.Mult, ast.BitAnd: ast.BitOr,
            ast.BitOr: ast.BitAnd}
NAME_SWAP = {'min': 'max', 'max': 'min', 'nanmin': 'nanmax', 'nanmax': 'nanmin', 'floor': 'ceil', 'ceil': 'floor',
             'any': 'all', 'all': 'any', 'notna': 'isna', 'isna': 'notna', 'argmin': 'argmax', 'argmax': 'argmin',
             'sum': 'mean', 'nanmean': 'nanmedian', 'deepcopy': 'copy', 'idxmin': 'idxmax'}
STR_SWAP = {'height_base': 'height_min', 'height_min': 'height_base', 'slice_id': 'group_id', 'group_id': 'layer_id',
            'layer_id': 'group_id', 'dt': 'height', 'significant': 'isolated', 'left': 'right', 'do': 'undo', 'undo': 'do',
            'MAX_HITS_OKTA0': 'MAX_HOLES_OKTA8', 'MAX_HOLES_OKTA8': 'MAX_HITS_OKTA0', 'BASE_LVL_HEIGHT_PERC':
            'BASE_LVL_LOOKBACK_PERC', 'BASE_LVL_LOOKBACK_PERC': 'BASE_LVL_HEIGHT_PERC', 'MSA': 'MSA_HIT_BUFFER', 'inner': 'outer'}


def _in_docstring_or_log(node, parents):
    for p in parents:
        if isinstance(p, ast.Call):
            f = p.func
            if isinstance(f, ast.Attribute) and isinstance(f.value, ast.Name) and f.value.id in ('logger', 'warnings'):
                return True
            if isinstance(f, ast.Name) and f.id in ('AmpycloudError', 'print'):
                return True
        if isinstance(p, ast.Raise):
            return True
    return False


def mutants_of(path: Path, rel: str):
    src = path.read_text()
    tree = ast.parse(src)
    out = []
    sites = []

    def walk(node, parents):
        for child in ast.iter_child_nodes(node):
            sites.append((child, parents + [node]))
            walk(child, parents + [node])
    walk(tree, [])
    funcs = {}
    for node, parents in sites:
        f = next((p.name for p in reversed(parents + [node]) if isinstance(p, (ast.FunctionDef, ast.AsyncFunctionDef))), None)
        funcs[id(node)] = f

    def emit(kind, node, mutate, detail):
        t2 = copy.deepcopy(tree)
        # locate the same node in the copy by position walk
        idx = next(i for i, (n, _) in enumerate(sites) if n is node)
        sites2 = []

        def walk2(n):
            for c in ast.iter_child_nodes(n):
                sites2.append(c)
                walk2(c)
        walk2(t2)
        target = sites2[idx]
        if not mutate(target, t2):
            return
        try:
            new_src = ast.unparse(ast.fix_missing_locations(t2))
            compile(new_src, rel, 'exec')
        except Exception:  # pylint: disable=broad-except
            return
        out.append({'file': rel, 'line': getattr(node, 'lineno', 0), 'func': funcs.get(id(node)), 'kind': kind,
                    'detail': detail, 'source': new_src})

    for node, parents in sites:
        if funcs.get(id(node)) is None:
            continue
        if _in_docstring_or_log(node, parents):
            continue
        if isinstance(node, ast.Compare):
            for i, op in enumerate(node.ops):
                if type(op) in CMP_SWAP:
                    def m(t, _t2, i=i):
                        t.ops[i] = CMP_SWAP[type(t.ops[i])]()
                        return True
                    emit('cmp', node, m, f'{type(op).__name__}->{CMP_SWAP[type(op)].__name__}')
        elif isinstance(node, ast.BoolOp):
            def m(t, _t2):
                t.op = ast.Or() if isinstance(t.op, ast.And) else ast.And()
                return True
            emit('boolop', node, m, type(node.op).__name__)
        elif isinstance(node, ast.BinOp) and type(node.op) in BIN_SWAP:
            def m(t, _t2):
                t.op = BIN_SWAP[type(t.op)]()
                return True
            emit('binop', node, m, f'{type(node.op).__name__}->{BIN_SWAP[type(node.op)].__name__}')
        elif isinstance(node, ast.UnaryOp) and isinstance(node.op, (ast.Not, ast.Invert)):
            def m(t, t2):
                t.__class__ = ast.Expr          # placeholder, replaced below
                return False
            # removal of a negation: replace node by its operand in the parent
            par = parents[-1]
            for field, val in ast.iter_fields(par):
                if val is node or (isinstance(val, list) and any(v is node for v in val)):
                    def m2(t, t2, field=field):
                        # find parent of t in t2
                        for pp in ast.walk(t2):
                            for fld, v in ast.iter_fields(pp):
                                if v is t:
                                    setattr(pp, fld, t.operand)
                                    return True
                                if isinstance(v, list):
                                    for k, x in enumerate(v):
                                        if x is t:
                                            v[k] = t.operand
                                            return True
                        return False
                    emit('unnegate', node, m2, type(node.op).__name__)
                    break
        elif isinstance(node, ast.Constant) and not isinstance(parents[-1], ast.Expr):
            v = node.value
            if isinstance(v, bool):
                def m(t, _t2):
                    t.value = not t.value
                    return True
                emit('const-bool', node, m, f'{v}->{not v}')
            elif isinstance(v, int) and -2 <= v <= 1000:
                for d in (1, -1):
                    def m(t, _t2, d=d):
                        t.value = t.value + d
                        return True
                    emit('const-int', node, m, f'{v}->{v + d}')
            elif isinstance(v, float):
                def m(t, _t2):
                    t.value = t.value * 2 if t.value else 1.0
                    return True
                emit('const-float', node, m, f'{v}->x2')
            elif isinstance(v, str) and v in STR_SWAP:
                def m(t, _t2):
                    t.value = STR_SWAP[t.value]
                    return True
                emit('const-str', node, m, f'{v}->{STR_SWAP[v]}')
        elif isinstance(node, ast.Attribute) and node.attr in NAME_SWAP and isinstance(parents[-1], ast.Call) \
                and parents[-1].func is node:
            def m(t, _t2):
                t.attr = NAME_SWAP[t.attr]
                return True
            emit('name-swap', node, m, f'{node.attr}->{NAME_SWAP[node.attr]}')
        elif isinstance(node, ast.Call) and len(node.args) == 2 and not any(isinstance(a, ast.Starred) for a in node.args):
            def m(t, _t2):
                t.args = [t.args[1], t.args[0]]
                return True
            emit('arg-swap', node, m, ast.unparse(node.func)[:40])
        elif isinstance(node, ast.Slice) and (node.lower is None) != (node.upper is None) and node.step is None:
            def m(t, _t2):
                t.lower, t.upper = t.upper, t.lower
                return True
            emit('slice-swap', node, m, ast.unparse(node)[:40])
        elif isinstance(node, (ast.Assign, ast.AugAssign, ast.Expr)) and not (
                isinstance(node, ast.Expr) and isinstance(node.value, ast.Constant)):
            if isinstance(node, ast.Expr) and isinstance(node.value, ast.Call):
                f = node.value.func
                if isinstance(f, ast.Attribute) and isinstance(f.value, ast.Name) and f.value.id in ('logger', 'warnings'):
                    continue
            par = parents[-1]

            def m(t, t2):
                for pp in ast.walk(t2):
                    for fld in ('body', 'orelse', 'finalbody'):
                        lst = getattr(pp, fld, None)
                        if isinstance(lst, list) and any(x is t for x in lst):
                            k = next(i for i, x in enumerate(lst) if x is t)
                            lst[k] = ast.Pass()
                            return True
                return False
            emit('stmt-del', node, m, ast.unparse(node)[:60])
    return out


def gen():
    WORK.mkdir(parents=True, exist_ok=True)
    allm = []
    for rel in FILES:
        ms = mutants_of(SRC / rel, rel)
        allm += ms
        print(rel, len(ms))
    # baseline through unparse: the unmutated tree unparsed must be silent too (formatting changes only)
    seen = set()
    uniq = []
    for m in allm:
        h = hashlib.sha1((m['file'] + m['source']).encode()).hexdigest()
        if h in seen:
            continue
        seen.add(h)
        m['id'] = h[:10]
        uniq.append(m)
    (WORK / 'mutants.json').write_text(json.dumps(uniq))
    print('total', len(uniq))


def _tree_for(m):
    wt = WORK / f'wt_{m["id"]}'
    shutil.rmtree(wt, ignore_errors=True)
    shutil.copytree('/repo', wt, ignore=shutil.ignore_patterns('.git', '__pycache__', '.pytest_cache', '*.egg-info', 'docs'))
    (wt / 'src/ampycloud' / m['file']).write_text(m['source'])
    return wt


def p1(m):
    wt = _tree_for(m)
    out = WORK / f'out_{m["id"]}'
    res = {}
    try:
        for i in range(1, 21):
            pid = f'C{i:02d}'
            e = dict(os.environ)
            e.update({'VERIF_REPO': str(wt), 'VERIF_OUT': str(out)})
            r = subprocess.run([PY, 'sa/check.py', pid, '--tier', 'quick'], cwd=VERIF, env=e, capture_output=True, text=True)
            if r.returncode != 0:
                o = r.stdout + r.stderr
                lines = [l.strip() for l in o.splitlines() if l.strip().startswith(pid + '-') or 'ANALYSIS-ERROR' in l]
                res[pid] = {'exit': r.returncode, 'report': (lines[:1] or [''])[0][:200]}
    finally:
        shutil.rmtree(wt, ignore_errors=True)
        shutil.rmtree(out, ignore_errors=True)
    return m['id'], res


def _digest(wt, name):
    demo = VERIF / 'seeded_equiv' / name / 'demo.py'
    e = dict(os.environ)
    e.update({'PYTHONPATH': str(Path(wt) / 'src'), 'MPLBACKEND': 'Agg', 'PYTHONHASHSEED': '0'})
    try:
        r = subprocess.run([PY, str(demo)], cwd=wt, env=e, capture_output=True, text=True, timeout=400)
        return hashlib.sha1((r.stdout + f'|rc={r.returncode}').encode()).hexdigest()
    except subprocess.TimeoutExpired:
        return 'timeout'


def p2(m):
    wt = _tree_for(m)
    try:
        changed = []
        base = json.loads((WORK / 'baseline_digests.json').read_text())
        for name in DIGESTS_BY_FILE.get(m['file'], DIGESTS):
            if _digest(wt, name) != base[name]:
                changed.append(name)
                break
    finally:
        shutil.rmtree(wt, ignore_errors=True)
    return m['id'], changed


def p3(m):
    wt = _tree_for(m)
    try:
        e = dict(os.environ)
        e.update({'PYTHONPATH': str(wt / 'src'), 'MPLBACKEND': 'Agg'})
        r = subprocess.run([PY, '-m', 'pytest', '-q', '-p', 'no:cacheprovider', '-x', '-n', '3', '--timeout=900'], cwd=wt, env=e,
                           capture_output=True, text=True)
        return m['id'], r.returncode == 0
    finally:
        shutil.rmtree(wt, ignore_errors=True)


def load():
    ms = json.loads((WORK / 'mutants.json').read_text())
    st = json.loads((WORK / 'state.json').read_text()) if (WORK / 'state.json').exists() else {}
    return ms, st


def save(st):
    (WORK / 'state.json').write_text(json.dumps(st))


def main():
    cmd = sys.argv[1]
    if cmd == 'gen':
        return gen()
    ms, st = load()
    byid = {m['id']: m for m in ms}
    if cmd == 'phase1':
        todo = [m for m in ms if m['id'] not in st]
        if len(sys.argv) > 2:
            random.Random(1).shuffle(todo)
            todo = todo[:int(sys.argv[2])]
        with ProcessPoolExecutor(max_workers=9) as pool:
            for k, (mid, res) in enumerate(pool.map(p1, todo)):
                st[mid] = {'checks': res}
                if k % 50 == 0:
                    save(st)
                    print(k, len(todo), flush=True)
        save(st)
    elif cmd == 'phase2':
        if not (WORK / 'baseline_digests.json').exists():
            base = {n: _digest('/repo', n) for n in DIGESTS}
            (WORK / 'baseline_digests.json').write_text(json.dumps(base))
            base2 = {n: _digest('/repo', n) for n in DIGESTS}
            unstable = [n for n in DIGESTS if base[n] != base2[n]]
            print('unstable digests:', unstable)
        todo = [byid[i] for i, s in st.items() if not s['checks'] and 'digest' not in s and i in byid]
        plots = [m for m in todo if m['file'].startswith('plots/')]
        random.Random(2).shuffle(plots)
        keep = {m['id'] for m in plots[:150]}
        todo = [m for m in todo if not m['file'].startswith('plots/') or m['id'] in keep]
        with ProcessPoolExecutor(max_workers=9) as pool:
            for k, (mid, changed) in enumerate(pool.map(p2, todo)):
                st[mid]['digest'] = changed
                if k % 20 == 0:
                    save(st)
                    print(k, len(todo), flush=True)
        save(st)
    elif cmd == 'phase3':
        todo = [byid[i] for i, s in st.items() if not s['checks'] and s.get('digest') and 'suite' not in s and i in byid]
        if '--no-plots' in sys.argv:
            todo = [m for m in todo if not m['file'].startswith('plots/')]
        with ProcessPoolExecutor(max_workers=5) as pool:
            for k, (mid, ok) in enumerate(pool.map(p3, todo)):
                st[mid]['suite'] = ok
                if k % 10 == 0:
                    save(st)
                    print(k, len(todo), flush=True)
        save(st)
    elif cmd == 'recheck':
        # re-run the checks (current checker) on mutants already classified: survivors by default, --quiet for every
        # mutant no check flagged, --all for everything; digest / suite results are kept
        if '--all' in sys.argv:
            todo = [byid[i] for i in st if i in byid]
        elif '--quiet' in sys.argv:
            todo = [byid[i] for i, s in st.items() if not any(v['exit'] == 1 for v in s['checks'].values()) and i in byid]
        else:
            todo = [byid[i] for i, s in st.items() if not s['checks'] and s.get('digest') and s.get('suite') and i in byid]
        with ProcessPoolExecutor(max_workers=12) as pool:
            for k, (mid, res) in enumerate(pool.map(p1, todo)):
                st[mid]['checks'] = res
                if k % 50 == 0:
                    save(st)
                    print(k, len(todo), flush=True)
        save(st)
    elif cmd == 'report':
        tot = len(st)
        flagged = sum(1 for s in st.values() if any(v['exit'] == 1 for v in s['checks'].values()))
        err = sum(1 for s in st.values() if s['checks'] and all(v['exit'] == 2 for v in s['checks'].values()))
        quiet = [i for i, s in st.items() if not s['checks']]
        same = [i for i in quiet if st[i].get('digest') == []]
        changed = [i for i in quiet if st[i].get('digest')]
        surv = [i for i in changed if st[i].get('suite')]
        print(f'mutants classified {tot}: flagged {flagged}, analysis-error only {err}, quiet {len(quiet)} '
              f'(digest same {len(same)}, changed {len(changed)}, of which survive the suite {len(surv)})')
        for i in surv:
            m = byid[i]
            print(f"  SURVIVOR {i} {m['file']}:{m['line']} {m['func']} {m['kind']} {m['detail']} digest={st[i]['digest']}")
        if '--errors' in sys.argv:
            for i, s in st.items():
                if s['checks'] and all(v['exit'] == 2 for v in s['checks'].values()):
                    m = byid[i]
                    print(f"  ERR {i} {m['file']}:{m['line']} {m['func']} {m['kind']} {m['detail']}: {list(s['checks'].values())[0]['report'][:150]}")


if __name__ == '__main__':
    main()
