"""Per-property manifest metadata (level, technique, trusted base)."""
A = ('Trusted base: the API summary tables of the checker (pandas / NumPy / scikit-learn / matplotlib behaviour, '
     'DESIGN.md A1), the Python semantics of the supported AST subset as encoded in sa/symexec.py (A3). '
     'Nothing of the package is imported or executed. ')
A2 = ('Numeric kernels are analysed in exact-real arithmetic; that binary64 agrees with it on the switching points of floor / ceil / '
      'round / int is decided separately from the shape of the expressions (rounding discipline, DESIGN 2.8 E7c). ')


def _o(technique, text, note):
    return {'level': 'other', 'technique': technique, 'text': text, 'note': A + note}


REGISTRY = {
    'C01': _o('provenance-term comparison of metar_msg / metarize with the specification (AST abstract executor), '
              'transducer lemmas, decision tables, piecewise-affine kernel analysis',
              'Static proof by decomposition: the exits of metar_msg, the report predicate (significant & base < MSA, '
              'identity test on the MSA), the code assembly, the sort-before-significance ordering of the table history, '
              'the 1-3-5 lemmas on the extracted transducer (all sequences) and the range/format of the WMO conversions '
              'are each decided as obligations on the source; together they imply the statement for every input.',
              A2 + 'Numeric values of okta and base are C03/C04.'),
    'C02': _o('decision-table extraction (truth table over guard atoms of the exits of metar_msg), transducer observer '
              'lemmas, guard/term comparison for the high-cloud flag',
              'The 16-row truth table of metar_msg over the atoms no-sets / some-row-reported / significant-row-at-or-'
              'above-MSA / flag is extracted from the guards of its exits and compared with the specification; that the '
              'lowest cloud layer and the ceiling are always flagged is checked on the product of the extracted '
              'transducer with an observer automaton (all okta sequences); the flag is raised iff more than '
              'MAX_HITS_OKTA0 hits were cropped; the MSA given per call (None included) is the one the chunk works with (the merge '
              'routine stores every value of a known key).',
              'The bridge from the atoms to the wording of the property uses the sortedness of the table (checked).'),
    'C03': _o('provenance-term comparison (distinct (ceilo, dt) counting), linear normal form of the okta guard chain, '
              'kernel monotonicity of perc2okta, rounding-discipline analysis of the percentage expression (exact on the '
              'switching points of the okta binning)',
              'n_hits, max_hits_per_layer, perc and the ordered 0 / 8 / binned okta chain are compared as terms with the '
              'specification (rows instead of distinct measurements, de-duplication across ceilometers, a swapped or '
              'strict buffer comparison all change the term); perc2okta is shown non-decreasing with range [0, 8]; the '
              'percentage is computed without an intermediate rounding error wherever perc2okta switches (n/max*100, not '
              'n*(100/max)).',
              A2 + 'Distinctness of measurements is NumPy float equality on dt.'),
    'C04': _o('argument-binding and selection terms at every call of calc_base_height (callers inlined), reducer table '
              'for the statistics columns, kernel analysis of height2code, rounding-discipline analysis of the look-back count',
              'Structural necessary conditions: look-back and percentile bound from the chunk snapshot at report and '
              'decision time, selection = members (minus excluded ceilometers when enough remain) of the time-sorted '
              'data, tail slice and percentile in the routine, mean/std/min/max/thickness/fluffiness of the members, '
              'code = floor (never round) of base/100, table sorted by ascending base, look-back count exact where int() '
              'switches. The numerical equality with the '
              'percentile is not claimed.',
              A2 + 'np.percentile of a non-empty selection lies between its min and max (A1).'),
    'C05': _o('id-space arithmetic on the generated layer ids (linear form, stride vs component cap, offset provably '
              'above the inherited ids), mask agreement of label write-backs, who-may-write on the hit columns, '
              'propositional cover of the per-group loop of find_layers by its ncomp stores',
              'Decides the structural part: generated and inherited layer ids are disjoint, every stage fills null ids '
              'from its parent stage, sentinel -1 handled consistently by counters and table builder, cluster labels are '
              'written to exactly the rows fed to the clustering, no stage modifies or drops hits, every path through the '
              'per-group loop of find_layers rewrites ncomp (repeated calls), and the sub-layer ids of a group are written exactly '
              'when its stored count exceeds one; a refused stage call is refused before any per-hit id or table is rewritten. That scikit-learn '
              'returns one label per row and that mixture components are populated is not claimed.',
              'One label per fed row from scikit-learn (A1).'),
    'C06': _o('provenance of the heights handed to calc_base_height (must derive from the time-sorted data), sibling '
              'agreement of decision-time and report-time selections, comparator strictness, lookup guard',
              'Necessary conditions of the separation guarantee: the bases that enter merge / re-merge decisions are '
              'computed by the same routine, on time-ordered heights, with the same exclusion logic and parameters as '
              'the bases finally reported; merging uses strict "<" in both siblings; the separation bin lookup is '
              'guarded; the merge is on every path to the completion of find_groups; every base-height site orders the hits by '
              'the same sort call; the look-up routine is found by what it does. The numerical separation itself is not claimed.', ''),
    'C07': _o('predicate normalisation of the two cropping selections (disjoint cover of height > MSA + buffer, strict), '
              'effect extraction from the functional update chain, index typestate',
              'Nothing above the limit survives into the chunk and everything else is untouched: the selections partition '
              '{height > limit} by hit type, the only effects are type := 0 / height := NaN and a row drop, all under an '
              'identity test on the MSA, on a frame with normalised index; the flag counts exactly the cropped hits.',
              'Equality of the tables of two related runs follows on paper from these facts and C09.'),
    'C08': _o('raise-site census (class of every raised exception, no handlers), dominating-guard rules in front of '
              'third-party calls with preconditions, decorator pass-through, validation-before-use ordering on the raw '
              'input, index typestate, definite-assignment dataflow (must-bound locals with branch facts) and '
              'name resolution over every function reachable from the processing entry points',
              'Decides the second sentence of the property and the guard discipline: every raise is AmpycloudError, no '
              'handler swallows, and each third-party precondition known to bite (>= 2 samples for agglomerative '
              'clustering, populated mixture models, non-empty percentile selection, single-point LOWESS, Python-int '
              'oktas) is established by a dominating guard at the wrapper or at every call site; the raw input is only '
              'passed along or deep-copied until its type has been tested; label-based selections run on a normalised '
              'index; no local name is read on a loop-free path that leaves it unbound and every name resolves in some '
              'scope (no UnboundLocalError / NameError); the scalings keep non-detections NaN (the rows clustered and the rows labelled '
              'are selected on either side of them); the selection handed to the base routine is never empty. Termination/totality of '
              'the third-party numerics is NOT claimed.', ''),
    'C09': _o('effect analysis (global-RNG consumers confined under tmp_seed), explicit random_state binding across call '
              'sites, try/finally typestate of tmp_seed, set-iteration and clock-taint scans, module-state confinement',
              'Reproducibility can only break through a finite list of constructs: an estimator without fixed seed, a '
              'draw from / re-seed of the global generator, hash-ordered iteration, clock/pid values, state kept between '
              'runs. Each is excluded package-wide or on the processing path; tmp_seed restores the saved state in a '
              'finally block enclosing the yield (or registers the restoration on an ExitStack enclosing it); no uninitialised '
              'buffer (np.empty) is allocated on the processing path.', 'Bitwise determinism inside the numerical libraries (A4).'),
    'C10': _o('index typestate (USER / UNIQUE / RANGE) along the derivation chain of the chunk data, scan for positional '
              'column access before normalisation, coercion table',
              'The private copy gets a fresh RangeIndex before any label-based row operation and no method de-normalises '
              'it; columns of the user frame are only addressed by name; every required column is cast to the tested '
              'dtype and every other column dropped; row positions and index labels are never mixed (a Series built from bare values '
              'is not combined label-wise with the chunk data); columns are never selected by a range of labels.', 'Label alignment semantics of pandas (A1).'),
    'C11': _o('inter-procedural mutation / ownership summaries (deep vs shallow copies, return aliases) over the whole '
              'package', 'No public entry point writes through an argument it borrowed, the global parameter dictionary '
              'has exactly two writers, nothing writes through the snapshot after construction, and the chunk fields are '
              'assigned objects it owns outright (deep copies); nothing on the processing path reads the live dictionary '
              '(later edits of the global parameters cannot reach an existing chunk).', 'Frames derived by pandas operations are new objects.'),
    'C12': _o('global-read census with alias substitution, guard analysis of the merge routine, fresh-object provenance '
              'of the defaults, YAML key agreement (minimal YAML reader), polarity analysis of the path tests that '
              'dominate the merge in set_prms (DNF of the guard), definite assignment / name resolution in the '
              'parameter routines',
              'The live global dictionary is read only as the argument of the deep copy that makes the snapshot (plus '
              'MPL_STYLE in plots and the two documented writers), both routes merge through the same routine which never '
              'stores on its unknown-key path, reset reads the packaged file afresh, no stale import-time binding exists, '
              'and every parameter path read from the snapshot exists in the packaged defaults; set_prms reaches the '
              'merge exactly through positive tests (is a Path, exists, is a file) made on the path after a str has '
              'been converted, so the YAML route is open to every file the caller can name; the user file and the packaged '
              'defaults are read by the same loader; everything is reset only when no selection is given (identity test).', ''),
    'C13': _o('confinement analysis: module/class/closure/memo state and argument mutation summaries over every function '
              'reachable from the processing path',
              'If all working state is reachable only from the chunk instance and helpers are pure, no schedule can make '
              'chunks interfere; both premises are decided for every reachable function, which covers all interleavings '
              'at once (no schedule is enumerated); no function on the processing path flips an interpreter- or library-wide '
              'switch (warning filters, NumPy / pandas / scikit-learn options, locale, environment, logger levels).', 'Thread-safety of third-party code on unshared objects (A4).'),
    'C14': _o('typestate analysis of the stage methods with callees inlined: ordered guarded events, presence guards, '
              'kill sets of later-stage facts, refusal-before-mutation',
              'Every dereference of a stage product is dominated by a presence guard raising AmpycloudError; a stage that '
              'overwrites a later stage\'s product refuses when it exists; no call-order refusal is reachable after a '
              'write to chunk state; each stage resets its own id column before reading it or the hit table as a whole. Holds for every call '
              'sequence because it is a property of each method in every abstract state. A stage writes the id column of its own level only and leaves it resettable. Everything else a caller can invoke on a chunk (metar_msg, the properties) writes nothing of it; a stage table is never used as a condition; a stage writes tables and id columns only (no other instance state).',
              'Equality of recomputed tables rests on determinism (C09).'),
    'C15': _o('census and classification of the refusal conditions of check_data_consistency (own condition of every '
              'raise), ordering of normalisation steps, trigger/repair agreement',
              'The raise sites are exactly the five documented conditions (duplicates over all columns, coincidence by '
              'inner merge on (dt, ceilo) for types 0 and -1), the sanity checks only warn with AmpycloudWarning, the '
              'working copy is a deep copy that is returned, casts and drops repair exactly what was tested, the only stores into the working copy are those casts, and chunk construction screens its input exactly once.',
              'Semantics of pandas duplicated()/merge (A1).'),
    'C16': _o('name-taint scan over provenance terms: ceilometer names may only meet ==, !=, membership in the exclusion '
              'list, unique, len; per-ceilometer results only order-insensitive integer reductions',
              'Renaming can only matter through ordering, string operations, positional use of the sorted name list or '
              'order-sensitive combination of per-ceilometer values, or through state kept between chunks under the names; each is excluded on the processing path.',
              'EXCLUDE_FOR_BASE_HEIGHT_CALC is a list (A5).'),
    'C17': {
        'level': 'model_checking',
        'technique': 'finite-state fold extraction from the AST + bisimulation with the 1-3-5 specification transducer '
                     '(product automaton, all sequences of all lengths)',
        'text': 'The loop of icao.significant_cloud is turned into a finite transducer by abstract interpretation of its '
                'body (scalars exact, append-only list abstracted by its count(True) observer); the product with the '
                'specification transducer is explored exhaustively over okta 0..8 (0..9 thorough), which decides the rule '
                'for every sequence of every length, where tests sample five sequences. Also decided: nothing but metarize writes the '
                'published flags, and the decorator of significant_cloud passes its arguments through untouched.',
        'note': A + 'The model is extracted from the source on every run (no hand-written model), so there are no traces '
                    'to validate against the implementation. Okta values are integers.'},
    'C18': _o('decision-table extraction for okta2code; piecewise-affine abstract interpretation (floor/ceil/round aware) '
              'of height2code and of the NumPy masked-assignment code of perc2okta; rounding-discipline analysis (lattice '
              'propagation from each discretisation to the leaves of its argument)',
              'okta2code is evaluated symbolically for integers -2..11 and non-integers; height2code and perc2okta are '
              'reduced to piecewise functions of one real variable, on which range, refusal domain, rounding direction, '
              'bin edges and monotonicity are decided for all reals in the domain at once; every operation in front of a '
              'floor / ceil / round / int is shown exact on the points where it switches.', A2),
    'C19': _o('NaN-safety census of reductions; exact Laurent-polynomial algebra showing undo(do(v)) == v and a forward '
              'coefficient 1/positive for each scaling mode; shape-instantiated polynomial evaluation of step scaling '
              '(0..5 symbolic step edges: tiling, continuity at every edge, inverse edges = images of the input edges)',
              'Claims only the structural clauses: reductions over the data are NaN-safe, all-NaN input is passed through '
              'before parameters are derived, each mode\'s undo is the algebraic inverse of its do with the same atoms, '
              'the forward map is increasing, the minimum range is honoured symmetrically, step scaling is continuous '
              'across its steps and its inverse switches segment at the images of the step edges (for 0..5 edges, '
              'symbolic edges and scales); convert_kwargs derives a parameter only when it is absent, only when scaling, '
              'and every result it returns for a scaling carries all the parameters that scaling needs (propositional '
              'entailment over the guards); every routine scales when called without a mode; the interval derived for the min-max scaling encloses the data on every path (Farkas certificates over the path conditions); no scaling routine keeps anything between calls (module-level objects, memoisation); every segment of step scaling is written whatever the data; the forward and backward parameter sets handed to the plots are two objects with modes do / undo; data_rescaled passes its scaling parameters on as given. That min-max scaling lands in [0, 1] numerically is not claimed.', A2 + 'scale > 0, max > min, step scales > 0 (A5).'),
    'C20': _o('effect analysis of plot code (rcParams writers, figure lifecycle under `not show`, file writes under '
              '`save_stem is not None`), chunk read-only summaries, modulo rule on style-cycle subscripts, '
              'no-state-between-plots rule (memoised results never modified, no module-level writes on the plotting path), '
              'definite assignment / name resolution in the plotting code',
              'No unscoped writer of matplotlib global configuration exists in the package and public figure-creating '
              'functions run inside plt.style.context; the figure is closed on every normal show=False path; files are '
              'written once per requested format only when a stem is given; plot code has no write effect on the chunk; '
              'style cycles are indexed modulo their length; nothing kept between two plots is altered; string literals stored into '
              'arrays of string literals fit their fixed width; at most one call creates a figure on any path of a plotting function; arguments that may be None enter concatenation / arithmetic only where the path condition excludes None and are replaced by their default only under an `is None` test; arrays built by the plot code are never indexed by index labels of the chunk data; no local is read '
              'unbound on a loop-free path. Totality of '
              'matplotlib is not claimed.', ''),
}
NOT_APPLICABLE = {}
