"""Per-property manifest metadata (level, technique, trusted base)."""
A = ('Trusted base: the API summary tables of the checker (pandas/NumPy/scikit-learn/matplotlib '
     'behaviour, DESIGN.md A1), exact-real arithmetic where numeric kernels are analysed (A2), the '
     'Python semantics of the supported AST subset as encoded in sa/symexec.py (A3). ')

REGISTRY = {
    'C17': {
        'level': 'model_checking',
        'technique': 'finite-state fold extraction from the AST + bisimulation with the 1-3-5 '
                     'specification transducer (product automaton, all sequences of all lengths)',
        'text': 'The loop of icao.significant_cloud is turned into a finite transducer by abstract '
                'interpretation of its body (scalars exact, append-only list abstracted by its '
                'count(True) observer); the product with the specification transducer is explored '
                'exhaustively over okta 0..8 (0..9 thorough), which decides the rule for every '
                'sequence of every length, where tests sample five sequences.',
        'note': A + 'The model is extracted from the source on every run (no hand-written model), so '
                'there are no traces to validate against the implementation. Okta values are integers.',
    },
}

NOT_APPLICABLE = {}
for _i in range(1, 21):
    _pid = f'C{_i:02d}'
    REGISTRY.setdefault(_pid, None)
REGISTRY = {k: v for k, v in REGISTRY.items() if v is not None} | \
    {k: {'level': 'other', 'technique': '', 'text': '', 'note': ''} for k, v in REGISTRY.items() if v is None}
