"""Syntax stress: behaviour-preserving edits that bring Python constructs the pinned tree does not use (while loops,
try/finally, match, walrus, closures, partial, generator expressions, starred targets, ...) into the functions the rules
anchor in.  Every registered quick check must stay silent (exit 0) on each of them: an ANALYSIS-ERROR on a legitimate
edit is as bad as a false violation.

    python tools/stress_equiv.py            # run every check on every edit (16 processes), print the alarms
    python tools/stress_equiv.py --suite    # additionally confirm each edit with the project's test suite
    python tools/stress_equiv.py --save     # store the silent + suite-confirmed ones under /verif/stress_equiv/<id>/

Hand-written (not by sub-agents); the edits are deliberately small so that equivalence is evident, and confirmed by the
unedited suite when --suite is given.
"""
import json
import os
import shutil
import subprocess
import sys
from concurrent.futures import ProcessPoolExecutor
from pathlib import Path

VERIF = Path(__file__).resolve().parent.parent
PY = '/venv/bin/python'
SRC = 'src/ampycloud/'

EDITS = [
    # ---- while loop instead of for
    {'id': 'while-loop-in-min-sep-lookup', 'what': 'explicit while loop instead of np.searchsorted is NOT attempted; a while loop that '
     'only counts is added to a logging branch', 'edits': [
        ('data.py', "        logger.info('Height: %.1f', height)\n",
         "        n_lims = 0\n        while n_lims < len(self.prms['MIN_SEP_LIMS']):\n            n_lims += 1\n"
         "        logger.debug('Number of separation bins: %i', n_lims + 1)\n        logger.info('Height: %.1f', height)\n")]},
    {'id': 'try-finally-around-logging', 'what': 'try/finally around an info log', 'edits': [
        ('data.py', "        logger.info('Height: %.1f', height)\n        logger.info('min_sep value: %.1f', min_sep)\n        return min_sep\n",
         "        try:\n            logger.info('Height: %.1f', height)\n        finally:\n            logger.info('min_sep value: %.1f', min_sep)\n        return min_sep\n")]},
    {'id': 'walrus-in-condition', 'what': 'assignment expression in an if test', 'edits': [
        ('utils/utils.py', "    n_latest_elements = vals[- int(len(vals) * lookback_perc / 100):]\n    if len(n_latest_elements) == 0:\n",
         "    n_latest_elements = vals[- int(len(vals) * lookback_perc / 100):]\n    if (n_latest := len(n_latest_elements)) == 0:\n        logger.debug('%i elements', n_latest)\n")]},
    {'id': 'generator-sum-in-max-hits', 'what': 'generator expression fed to sum()', 'edits': [
        ('data.py', "        out = [len(np.unique(self.data[self.data['ceilo'] == ceilo]['dt']))\n               for ceilo in self.ceilos]\n",
         "        out = list(len(np.unique(self.data[self.data['ceilo'] == ceilo]['dt']))\n                   for ceilo in self.ceilos)\n")]},
    {'id': 'chained-comparison-in-range-check', 'what': 'chained comparison not possible on arrays; uses np.logical_and', 'edits': [
        ('wmo.py', "    if not np.all((val >= 0) * (val <= 100)):", "    if not np.all(np.logical_and(val >= 0, val <= 100)):")]},
    {'id': 'ternary-in-okta2symb', 'what': 'conditional expression and early return merged', 'edits': [
        ('wmo.py', "    if val == 0:\n        return 'NCD'\n    if val in [1, 2]:\n        return 'FEW'\n",
         "    if val == 0:\n        return 'NCD'\n    if 1 <= val <= 2:\n        return 'FEW'\n")]},
    {'id': 'local-closure-in-significant-cloud', 'what': 'a nested function (closure over the accumulator) decides the flag', 'edits': [
        ('icao.py', "    for okta in oktas:\n", "    def n_flagged() -> int:\n        return sig.count(True)\n\n    for okta in oktas:\n"),
        ('icao.py', "        if okta > sig_level and sig.count(True) < 3:", "        if okta > sig_level and n_flagged() < 3:")]},
    {'id': 'starred-unpack-in-height2code', 'what': 'tuple packing / unpacking of locals', 'edits': [
        ('wmo.py', "    if val <= 10000:\n        out = np.floor(val/100)", "    lim, *_ = (10000, None)\n    if val <= lim:\n        out = np.floor(val/100)")]},
    {'id': 'dict-union-in-convert-kwargs', 'what': 'a throw-away dict merge with | next to the scaling code', 'edits': [
        ('scaler.py', "    # Some sanity checks\n    if len(steps) != len(scales)-1:",
         "    logger.debug('%s', {'n_steps': len(steps)} | {'n_scales': len(scales)})\n    # Some sanity checks\n    if len(steps) != len(scales)-1:")]},
    {'id': 'assert-added-in-calc-base-height', 'what': 'an assert on the type of an argument', 'edits': [
        ('utils/utils.py', "    n_latest_elements = vals[- int(len(vals) * lookback_perc / 100):]\n",
         "    assert lookback_perc is not None\n    n_latest_elements = vals[- int(len(vals) * lookback_perc / 100):]\n")]},
    {'id': 'del-temporary-in-find-layers', 'what': 'del of a temporary local', 'edits': [
        ('data.py', "        to_fill = self.data['layer_id'].isna()\n        self.data.loc[to_fill, 'layer_id'] = self.data.loc[to_fill, 'group_id']\n",
         "        to_fill = self.data['layer_id'].isna()\n        self.data.loc[to_fill, 'layer_id'] = self.data.loc[to_fill, 'group_id']\n        del to_fill\n")]},
    {'id': 'partial-in-metarize-call', 'what': 'functools.partial wrapping a module function before the call', 'edits': [
        ('data.py', "import copy\n", "import copy\nfrom functools import partial\n"),
        ('data.py', "        pdf.loc[:, 'significant'] = icao.significant_cloud(pdf['okta'].to_list())",
         "        flag = partial(icao.significant_cloud)\n        pdf.loc[:, 'significant'] = flag(pdf['okta'].to_list())")]},
    {'id': 'match-statement-in-apply-scaling', 'what': 'match statement dispatching on the scaling name', 'edits': [
        ('scaler.py', "    if fct == 'shift-and-scale':\n        return shift_and_scale(vals, **kwargs)\n\n    if fct == 'minmax-scale':\n        return minmax_scale(vals, **kwargs)\n\n    if fct == 'step-scale':\n        return step_scale(vals, **kwargs)\n\n",
         "    match fct:\n        case 'shift-and-scale':\n            return shift_and_scale(vals, **kwargs)\n        case 'minmax-scale':\n            return minmax_scale(vals, **kwargs)\n        case 'step-scale':\n            return step_scale(vals, **kwargs)\n\n")]},
    {'id': 'with-two-items-in-mplstyle', 'what': 'two context managers in one with', 'edits': [
        ('plots/tools.py', "import copy\n", "import copy\nimport contextlib\n"),
        ('plots/tools.py', "        with plt.style.context(prms):\n", "        with contextlib.nullcontext(), plt.style.context(prms):\n")]},
    {'id': 'enumerate-start-in-step-scale', 'what': 'zip(range, scales) instead of enumerate', 'edits': [
        ('scaler.py', "    for (sid, sval) in enumerate(scales):", "    for (sid, sval) in zip(range(len(scales)), scales):")]},
    {'id': 'fstring-debug-in-run', 'what': 'an extra debug line with an f-string and a conditional expression', 'edits': [
        ('core.py', "    chunk = CeiloChunk(data, prms=prms, geoloc=geoloc, ref_dt=ref_dt)\n",
         "    logger.debug(f\"Location: {geoloc if geoloc is not None else 'unknown'!s:>10}\")\n    chunk = CeiloChunk(data, prms=prms, geoloc=geoloc, ref_dt=ref_dt)\n")]},
    {'id': 'try-except-import-at-module-level', 'what': 'optional import guarded by try/except at module level', 'edits': [
        ('fluffer.py', "import numpy as np\n", "import numpy as np\ntry:\n    import cython  # noqa: F401 pylint: disable=unused-import\nexcept ImportError:\n    cython = None\n")]},
    {'id': 'staticmethod-helper-in-chunk', 'what': 'a static method helper used for a pure computation', 'edits': [
        ('data.py', "    def _get_min_sep_for_height(self, height: float) -> float:",
         "    @staticmethod\n    def _n_bins(lims: list) -> int:\n        \"\"\" Number of separation bins. \"\"\"\n        return len(lims) + 1\n\n    def _get_min_sep_for_height(self, height: float) -> float:"),
        ('data.py', "        if len(self.prms['MIN_SEP_LIMS']) != len(self.prms['MIN_SEP_VALS']) - 1:",
         "        if self._n_bins(self.prms['MIN_SEP_LIMS']) != len(self.prms['MIN_SEP_VALS']):")]},
    {'id': 'lambda-sort-key-free', 'what': 'lambda bound to a local and applied', 'edits': [
        ('utils/utils.py', "    return np.percentile(n_latest_elements, height_perc)",
         "    pick = lambda arr, q: np.percentile(arr, q)  # noqa: E731\n    return pick(n_latest_elements, height_perc)")]},
    {'id': 'nested-ifs-instead-of-and', 'what': 'a conjunction written as nested ifs', 'edits': [
        ('icao.py', "        if okta > sig_level and sig.count(True) < 3:\n            sig_level += 2\n            sig += [True]\n        else:\n            sig += [False]\n",
         "        flag = False\n        if okta > sig_level:\n            if sig.count(True) < 3:\n                flag = True\n        if flag:\n            sig_level += 2\n        sig += [flag]\n")]},
    {'id': 'augmented-okta-chain', 'what': 'okta chain with local variable and a pass branch', 'edits': [
        ('wmo.py', "    if val == 8:\n        return 'OVC'\n    if val == 9:\n        return None\n",
         "    if val == 8:\n        return 'OVC'\n    if val == 9:\n        pass\n    else:\n        raise AmpycloudError(f'okta value not understood: {val}')\n    return None\n")]},
    {'id': 'global-constant-for-msg', 'what': 'module-level string constant used in a raise', 'edits': [
        ('scaler.py', "# Instantiate the module logger\nlogger = logging.getLogger(__name__)\n",
         "# Instantiate the module logger\nlogger = logging.getLogger(__name__)\n\n_MODE_MSG = 'Mode unknown: %s'\n"),
        ('scaler.py', "    if mode == 'undo':\n        return vals * scale + shift\n\n    raise AmpycloudError(f'Mode unknown: {mode}')",
         "    if mode == 'undo':\n        return vals * scale + shift\n\n    raise AmpycloudError(_MODE_MSG % mode)")]},
    {'id': 'numpy-where-in-height2code', 'what': 'identical branches folded with a local divisor', 'edits': [
        ('wmo.py', "    if val <= 10000:\n        out = np.floor(val/100)\n    else:\n        out = np.floor(val/1000)*10\n",
         "    div, mult = (100, 1) if val <= 10000 else (1000, 10)\n    out = np.floor(val/div)*mult\n")]},
    {'id': 'list-extend-in-significant', 'what': 'extend / append instead of +=', 'edits': [
        ('icao.py', "            sig += [True]\n        else:\n            sig += [False]\n", "            sig.append(True)\n        else:\n            sig.extend([False])\n")]},
    {'id': 'kwargs-dict-call-in-layers', 'what': 'keyword arguments passed through a dict literal', 'edits': [
        ('data.py', "        self.metarize(which='layers',)", "        self.metarize(**{'which': 'layers'})")]},
    # ---- second batch: the central anchors
    {'id': 'msa-conditional-expression', 'what': 'if/else assignment written as a conditional expression', 'edits': [
        ('data.py', "        if self.msa is None:\n            msa_val = np.inf\n        else:\n            msa_val = self.msa\n",
         "        msa_val = np.inf if self.msa is None else self.msa\n")]},
    {'id': 'msg-join-generator', 'what': 'join over a generator expression instead of to_list()', 'edits': [
        ('data.py', "        msg = ' '.join(msg.to_list())\n", "        msg = ' '.join(code for code in msg.to_list())\n")]},
    {'id': 'msg-empty-test-not', 'what': 'emptiness tested by truthiness', 'edits': [
        ('data.py', "        if len(msg) == 0:\n            # first check", "        if not msg:\n            # first check")]},
    {'id': 'msg-getattr-local-first', 'what': 'walrus replaced by plain assignment', 'edits': [
        ('data.py', "        if (sligrolay := getattr(self, which)) is None:", "        sligrolay = getattr(self, which)\n        if sligrolay is None:")]},
    {'id': 'ncd-nsc-conditional-expression', 'what': 'two returns folded into one conditional expression', 'edits': [
        ('data.py', "        if self._clouds_above_msa_buffer:\n            return 'NSC'\n        return 'NCD'\n",
         "        return 'NSC' if self._clouds_above_msa_buffer else 'NCD'\n")]},
    {'id': 'adjust-dict-index-loop', 'what': 'loop over keys with explicit lookup instead of items()', 'edits': [
        ('utils/utils.py', "    for key, item in new_dict.items():\n        lvls += [key]\n",
         "    for key in new_dict:\n        item = new_dict[key]\n        lvls += [key]\n")]},
    {'id': 'adjust-dict-else-continue', 'what': 'continue replaced by an else branch', 'edits': [
        ('utils/utils.py', "            warnings.warn(f'Key unknown (and thus ignored): {\".\".join(lvls)}', AmpycloudWarning)\n            continue\n        if isinstance(item, dict):\n            ref_dict[key] = adjust_nested_dict(ref_dict[key], item, lvls=lvls)\n        else:\n            ref_dict[key] = item\n",
         "            warnings.warn(f'Key unknown (and thus ignored): {\".\".join(lvls)}', AmpycloudWarning)\n        elif isinstance(item, dict):\n            ref_dict[key] = adjust_nested_dict(ref_dict[key], item, lvls=lvls)\n        else:\n            ref_dict[key] = item\n")]},
    {'id': 'screening-superfluous-columns-listed-first', 'what': 'the superfluous columns are collected first, then dropped one by one', 'edits': [
        ('utils/utils.py', "    for key in data.columns:\n        if key not in req_cols.keys():\n            warnings.warn(f'Column {key} is not required by ampycloud.',\n                          AmpycloudWarning)\n            logger.warning('Dropping the superfluous %s column from the input data.', key)\n            data.drop(key, axis=1, inplace=True)\n",
         "    superfluous = [key for key in data.columns if key not in req_cols.keys()]\n    for key in superfluous:\n        warnings.warn(f'Column {key} is not required by ampycloud.',\n                      AmpycloudWarning)\n        logger.warning('Dropping the superfluous %s column from the input data.', key)\n        data.drop(key, axis=1, inplace=True)\n")]},
    {'id': 'screening-types-tuple', 'what': 'loop over a tuple constant bound to a local', 'edits': [
        ('utils/utils.py', "    for hit_type in [0, -1]:\n", "    exclusive_types = (0, -1)\n    for hit_type in exclusive_types:\n")]},
    {'id': 'screening-msgs-append', 'what': 'append instead of += on the warning list', 'edits': [
        ('utils/utils.py', "        msgs += ['Some hit heights are negative ?!']", "        msgs.append('Some hit heights are negative ?!')")]},
    {'id': 'cleanup-early-return-no-msa', 'what': 'guard clause: early return when no MSA is set', 'edits': [
        ('data.py', "        # Drop any hits that are too high and check if they exceed the threshold for 1 OKTA\n        # if yes, set the flag clouds_above_msa_buffer to True\n        if self.msa is not None:\n",
         "        if self.msa is None:\n            return data\n\n        # Drop any hits that are too high and check if they exceed the threshold for 1 OKTA\n        # if yes, set the flag clouds_above_msa_buffer to True\n        if True:\n")]},
    {'id': 'tmp-seed-local-alias', 'what': 'module alias bound to a local in the context manager', 'edits': [
        ('utils/utils.py', "    # Get the current seed\n    state = np.random.get_state()\n\n    # Reset it with the temporary one\n    np.random.seed(seed)\n",
         "    # Get the current seed\n    rng = np.random\n    state = rng.get_state()\n\n    # Reset it with the temporary one\n    rng.seed(seed)\n")]},
    {'id': 'init-keyword-call', 'what': 'keyword argument in a private call', 'edits': [
        ('data.py', "        self._prms = self._setup_prms(prms)", "        self._prms = self._setup_prms(prms=prms)")]},
    {'id': 'layers-range-enumerate', 'what': 'enumerate over the table index instead of range(len())', 'edits': [
        ('data.py', "        for ind in range(len(self.groups)):\n", "        for ind, _ in enumerate(range(len(self.groups))):\n")]},
    {'id': 'okta-chain-local-max', 'what': 'property value cached in a local before the chain', 'edits': [
        ('data.py', "            elif (\n                self.max_hits_per_layer - pdf.iloc[ind, pdf.columns.get_loc('n_hits')]\n            ) <= self.prms['MAX_HOLES_OKTA8']:",
         "            elif (\n                (max_hits := self.max_hits_per_layer) - pdf.iloc[ind, pdf.columns.get_loc('n_hits')]\n            ) <= self.prms['MAX_HOLES_OKTA8']:\n                logger.debug('%i', max_hits)")]},
]


def run_one(ed):
    import difflib
    name = ed['id']
    wt = Path(f'/tmp/stress_{name}')
    out = Path(f'/tmp/stress_out_{name}')
    shutil.rmtree(wt, ignore_errors=True)
    shutil.copytree('/repo', wt, ignore=shutil.ignore_patterns('.git', '__pycache__', '.pytest_cache', '*.egg-info', 'docs'))
    res = {'id': name, 'alarms': {}}
    try:
        patch = []
        for f in sorted({e[0] for e in ed['edits']}):
            p = wt / SRC / f
            before = p.read_text()
            s = before
            for ff, old, new in ed['edits']:
                if ff != f:
                    continue
                if s.count(old) != 1:
                    res['error'] = f'anchor of edit in {f} found {s.count(old)} times'
                    return res
                s = s.replace(old, new, 1)
            try:
                compile(s, f, 'exec')
            except SyntaxError as err:
                res['error'] = f'does not compile: {err}'
                return res
            p.write_text(s)
            patch += list(difflib.unified_diff(before.splitlines(True), s.splitlines(True), f'a/{SRC}{f}', f'b/{SRC}{f}'))
        res['patch'] = ''.join(patch)
        for i in range(1, 21):
            pid = f'C{i:02d}'
            e = dict(os.environ)
            e.update({'VERIF_REPO': str(wt), 'VERIF_OUT': str(out)})
            r = subprocess.run([PY, 'sa/check.py', pid, '--tier', 'quick'], cwd=VERIF, env=e, capture_output=True, text=True)
            if r.returncode != 0:
                o = r.stdout + r.stderr
                lines = [l.strip() for l in o.splitlines() if l.strip().startswith(pid + '-') or 'ANALYSIS-ERROR' in l]
                res['alarms'][pid] = {'exit': r.returncode, 'reports': lines[:2]}
        if '--suite' in sys.argv or '--save' in sys.argv:
            e = dict(os.environ)
            e.update({'PYTHONPATH': str(wt / 'src'), 'MPLBACKEND': 'Agg'})
            r = subprocess.run([PY, '-m', 'pytest', '-q', '-p', 'no:cacheprovider', '-x', '-n', '4', '--timeout=900'], cwd=wt,
                               env=e, capture_output=True, text=True)
            res['suite'] = r.returncode == 0
            res['suite_tail'] = (r.stdout.strip().splitlines() or [''])[-1]
    finally:
        shutil.rmtree(wt, ignore_errors=True)
        shutil.rmtree(out, ignore_errors=True)
    return res


def main():
    want = {a for a in sys.argv[1:] if not a.startswith('-')}
    eds = [e for e in EDITS if not want or e['id'] in want]
    with ProcessPoolExecutor(max_workers=4 if ('--suite' in sys.argv or '--save' in sys.argv) else 12) as pool:
        results = list(pool.map(run_one, eds))
    bad = 0
    for ed, r in zip(eds, results):
        st = 'ERROR ' + r['error'] if r.get('error') else ('silent' if not r['alarms'] else 'ALARMS')
        print(f"{r['id']:45} {st} {'suite ' + str(r.get('suite')) if 'suite' in r else ''}")
        for k, v in r['alarms'].items():
            print('      ', k, 'exit', v['exit'], (v['reports'][:1] or [''])[0][:220])
        bad += bool(r.get('error') or r['alarms'])
        if '--save' in sys.argv and not r.get('error') and r.get('suite'):
            d = VERIF / 'stress_equiv' / r['id']
            d.mkdir(parents=True, exist_ok=True)
            (d / 'patch.diff').write_text(r['patch'])
            (d / 'meta.json').write_text(json.dumps({
                'name': r['id'], 'kind': 'hand-written syntax stress (behaviour-preserving)', 'what': ed['what'],
                'suite_passes': True, 'suite_tail': r.get('suite_tail'), 'alarms': r['alarms'], 'silent': not r['alarms']}, indent=1))
    return 1 if bad else 0


if __name__ == '__main__':
    sys.exit(main())
