"""Regenerates /verif/MANIFEST.json from the registry below (kept in one place so that the manifest
is valid at all times: a property is listed under checks iff its module sa/props/<id>.py exists)."""
import json
import sys
from pathlib import Path

VERIF = Path(__file__).resolve().parent.parent
sys.path.insert(0, str(VERIF))
from tools.registry import REGISTRY, NOT_APPLICABLE  # noqa: E402

PY = '/venv/bin/python'


def main():
    checks, na = [], []
    for pid, meta in sorted(REGISTRY.items()):
        if not (VERIF / 'sa' / 'props' / f'{pid.lower()}.py').exists():
            na.append({'property_id': pid, 'reason': 'check not built yet (static rules designed '
                       'in DESIGN.md section 4; nothing is claimed until the rule exists)'})
            continue
        checks.append({
            'property_id': pid,
            'quick_cmd': f'{PY} sa/check.py {pid} --tier quick',
            'thorough_cmd': f'{PY} sa/check.py {pid} --tier thorough',
            'evidence_file': f'/verif/evidence/{pid}.json',
            'replay_cmd_template': f'{PY} sa/check.py {pid} --replay {{path}}',
            'engine': 'sa',
            'level_claimed': {'category': meta['level'], 'text': meta['text'],
                              'design_ref': f'DESIGN.md section 4, {pid}'},
            'level_note': meta['note'],
            'technique': meta['technique'],
        })
    for pid, reason in sorted(NOT_APPLICABLE.items()):
        na.append({'property_id': pid, 'reason': reason})
    manifest = {
        'version': 1,
        'setup_cmd': f'{PY} -c "import ast, sys; assert sys.version_info >= (3, 9)"',
        'hooks': {
            'guard': 'AMPYCLOUD_VERIF',
            'enable': 'no hooks: the checks parse /repo/src/ampycloud with the standard-library ast '
                      'module and never import or run the package',
            'baseline_off_cmd': 'cd /repo && /venv/bin/python -m pytest -ra -q -p no:cacheprovider '
                                '--timeout=900 --continue-on-collection-errors',
            'source_commits': [],
            'add_only': True,
        },
        'engines': [{
            'name': 'sa', 'path': '/verif/sa',
            'serves_properties': [c['property_id'] for c in checks],
            'kind_free_text': 'repository-specific static analyser (pure stdlib): resolver and call '
                              'graph, syntax-directed abstract executor producing guarded events and '
                              'provenance terms, predicate normaliser, finite-state fold extraction, '
                              'piecewise-affine numeric kernel analysis, effect/ownership analysis',
        }],
        'checks': checks,
        'not_applicable': na,
        'notes': 'Static analysis only. exit 0 = all obligations discharged (KNOWN-FINDING lines for '
                 'recorded defects), exit 1 + VIOLATION line = an obligation failed, exit 2 + '
                 'ANALYSIS-ERROR = the analysis could not be carried out (fail-closed).',
    }
    (VERIF / 'MANIFEST.json').write_text(json.dumps(manifest, indent=1) + '\n')
    print(f'{len(checks)} checks, {len(na)} not applicable')


if __name__ == '__main__':
    main()
