"""Runs every quick check against a behaviour-preserving refactoring (false-alarm test).

    python tools/refactor_verify.py <PROP> <name> <patch.diff> [demo.py] [notes.md]

Scratch worktree of /repo HEAD under /tmp (removed afterwards): demo output before / after the patch must
be identical, the suite must pass, and NO check may report anything (exit 0 everywhere).
"""
import json
import os
import shutil
import subprocess
import sys
from pathlib import Path

VERIF = Path(__file__).resolve().parent.parent
PY = '/venv/bin/python'


def run(cmd, cwd, env=None, timeout=900):
    e = dict(os.environ)
    e.update(env or {})
    r = subprocess.run(cmd, cwd=cwd, env=e, capture_output=True, text=True, timeout=timeout)
    return r.returncode, (r.stdout + r.stderr)


def main():
    prop, name, patch = sys.argv[1:4]
    demo = sys.argv[4] if len(sys.argv) > 4 else None
    notes = sys.argv[5] if len(sys.argv) > 5 else None
    wt = Path(f'/tmp/rv_{name}')
    out = Path(f'/tmp/rv_out_{name}')
    subprocess.run(['git', '-C', '/repo', 'worktree', 'remove', '--force', str(wt)], capture_output=True)
    subprocess.check_call(['git', '-C', '/repo', 'worktree', 'add', '-q', str(wt), 'HEAD'])
    meta = {'property': prop, 'name': name, 'kind': 'behaviour-preserving refactoring'}
    try:
        env = {'PYTHONPATH': str(wt / 'src'), 'MPLBACKEND': 'Agg'}
        o0 = None
        if demo and Path(demo).exists():
            shutil.copy(demo, wt / 'rf_demo.py')
            rc0, o0 = run([PY, 'rf_demo.py'], wt, env, 600)
        rc, o = run(['git', 'apply', str(Path(patch).resolve())], wt)
        if rc != 0:
            meta['error'] = 'patch does not apply: ' + o[-300:]
            print(json.dumps(meta, indent=1))
            return 2
        rcs, os_ = run([PY, '-m', 'pytest', '-q', '-p', 'no:cacheprovider', '-x', '-n', '8', '--timeout=900'], wt, env)
        meta['suite_passes'] = rcs == 0
        if o0 is not None:
            rc1, o1 = run([PY, 'rf_demo.py'], wt, env, 600)
            # stderr is compared too; the line number in the location prefix of a warning ("data.py:553: XWarning:")
            # moves with any edit above it and is not behaviour
            import re
            norm = lambda t: re.sub(r'(\.py):\d+:', r'\1:N:', t)     # noqa: E731
            meta['demo_output_identical'] = (norm(o0) == norm(o1))
        alarms = {}
        for i in range(1, 21):
            pid = f'C{i:02d}'
            rcq, oq = run([PY, 'sa/check.py', pid, '--tier', 'quick'], VERIF,
                          {'VERIF_REPO': str(wt), 'VERIF_OUT': str(out)}, 300)
            if rcq != 0:
                lines = [l.strip() for l in oq.splitlines() if l.strip().startswith(pid + '-') or 'ANALYSIS-ERROR' in l]
                alarms[pid] = {'exit': rcq, 'reports': lines[:3]}
        meta['alarms'] = alarms
        meta['silent'] = not alarms
    finally:
        subprocess.run(['git', '-C', '/repo', 'worktree', 'remove', '--force', str(wt)], capture_output=True)
        shutil.rmtree(out, ignore_errors=True)
    if meta.get('suite_passes') and meta.get('demo_output_identical', True):
        dest = VERIF / 'seeded_equiv' / name
        dest.mkdir(parents=True, exist_ok=True)
        shutil.copy(patch, dest / 'patch.diff')
        if notes and Path(notes).exists():
            shutil.copy(notes, dest / 'notes.md')
        if demo and Path(demo).exists():
            shutil.copy(demo, dest / 'demo.py')
        (dest / 'meta.json').write_text(json.dumps(meta, indent=1))
    print(json.dumps(meta, indent=1))
    return 0 if meta.get('silent') else 1


if __name__ == '__main__':
    sys.exit(main())
