#!/bin/sh
for P in "$@"; do
  for d in /tmp/rf_$P/refactors/r*.diff; do
    [ -f "$d" ] || continue
    n=$(basename $d .diff)
    /venv/bin/python tools/refactor_verify.py $P ${P}_$n $d /tmp/rf_$P/refactors/${n}_demo.py /tmp/rf_$P/refactors/${n}_notes.md 2>/dev/null | python3 -c "
import sys,json
d=json.load(sys.stdin)
print(d['name'], 'suite', d.get('suite_passes'), 'same-output', d.get('demo_output_identical'), 'SILENT' if d.get('silent') else 'ALARMS')
for k,v in d.get('alarms',{}).items(): print('     ',k, 'exit',v['exit'], (v['reports'][:1] or [''])[0][:260])
if d.get('error'): print('   error', d['error'])
"
  done
done
