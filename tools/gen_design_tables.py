"""Fills the generated tables of DESIGN.md (variant corpus, seeded changes)."""
import json
import sys
from pathlib import Path

V = Path(__file__).resolve().parent.parent
sys.path.insert(0, str(V))
from sa import selftest  # noqa: E402


def variant_table():
    rows = ['| property | break variants | equivalent variants | rules exercised |', '|---|---|---|---|']
    res = selftest.run_all(None)
    by = {}
    for r in res:
        by.setdefault(r['prop'], []).append(r)
    tot_b = tot_e = 0
    for pid in sorted(by):
        b = [r for r in by[pid] if r['kind'] == 'break']
        e = [r for r in by[pid] if r['kind'] == 'equiv']
        rules = sorted({x for r in b for x in (r.get('rules') or [])})
        okb = sum(r['result'] == 'caught' for r in b)
        oke = sum(r['result'] == 'silent' for r in e)
        tot_b += len(b)
        tot_e += len(e)
        rows.append(f'| {pid} | {okb}/{len(b)} caught | {oke}/{len(e)} silent | {", ".join(rules)} |')
    rows.append(f'| total | {tot_b} | {tot_e} | |')
    return '\n'.join(rows)


def seeded_table():
    d = V / 'seeded'
    rows = ['| id | change | needs, to manifest | reported by (own property in bold) |', '|---|---|---|---|']
    n = 0
    for m in sorted(d.glob('*/meta.json')):
        meta = json.loads(m.read_text())
        n += 1
        own = meta['property']
        rep = meta.get('checks_reporting', {})
        reps = '; '.join(f"{k}: {(v['reports'][0].split(':')[0] if v['reports'] else 'exit ' + str(v['exit']))}"
                         for k, v in sorted(rep.items())) or '**not reported**'
        chg = (meta.get('summary') or '').replace('|', '/')
        need = (meta.get('needs_short') or '').replace('|', '/')
        own_hit = '**' + own + '**' if own in rep and rep[own]['exit'] == 1 else own + ' (missed)'
        others = ', '.join(k for k in sorted(rep) if k != own)
        rows.append(f"| `{m.parent.name}` | {chg} | {need} | {own_hit}" + (f'; also {others}' if others else '') + ' |')
    return '\n'.join(rows), n


if __name__ == '__main__':
    p = V / 'DESIGN.md'
    s = p.read_text()
    import re
    vt = variant_table()
    s = re.sub(r'<!-- VT -->.*?<!-- /VT -->|@@VARIANT_TABLE@@', '<!-- VT -->\n' + vt + '\n<!-- /VT -->', s, flags=re.S)
    st, n = seeded_table()
    eq = sorted((V / 'seeded_equiv').glob('*/meta.json'))
    txt = (f'{n} changes were written by fresh sub-agents that saw only the text of one property and a scratch worktree '
           '(nothing from /verif). Each was confirmed here with `tools/seed_verify.py` in a scratch worktree of the '
           'current HEAD: the demonstration exits 0 on the unchanged tree, the change applies, the unedited suite still '
           'passes (76 tests), the demonstration exits 1 with the change; then every quick check was run against the '
           'changed tree (`VERIF_REPO`). Each is kept under `/verif/seeded/<id>/` (patch.diff, demo.py, notes.md, '
           'meta.json) and replayed by the self-validation of its property on every thorough run.\n\n' + st + '\n\n'
           f'{len(eq)} behaviour-preserving refactorings (helper extraction, idiom swaps, re-binding instead of in-place, '
           'hoisting, conditional expressions; suite passes and a digest of public behaviour is byte-identical before / '
           'after) were written the same way and confirmed with `tools/refactor_verify.py`; every check must stay '
           'silent on each of them (`/verif/seeded_equiv/<id>/`, replayed against every property by the '
           'self-validation).')
    s = re.sub(r'<!-- SD -->.*?<!-- /SD -->|@@SEEDED@@', lambda m_: '<!-- SD -->\n' + txt + '\n<!-- /SD -->', s, flags=re.S)
    p.write_text(s)
    print(vt)
