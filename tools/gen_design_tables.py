"""Fills the generated tables of DESIGN.md (variant corpus, seeded changes)."""
import json
import sys
from pathlib import Path

V = Path(__file__).resolve().parent.parent
sys.path.insert(0, str(V))
from sa import selftest  # noqa: E402


def variant_table():
    rows = ['| property | break variants | equivalent variants | rules exercised |', '|---|---|---|---|']
    res = selftest.run_all(None)
    by = {}
    for r in res:
        by.setdefault(r['prop'], []).append(r)
    tot_b = tot_e = 0
    for pid in sorted(by):
        b = [r for r in by[pid] if r['kind'] == 'break']
        e = [r for r in by[pid] if r['kind'] == 'equiv']
        rules = sorted({x for r in b for x in (r.get('rules') or [])})
        okb = sum(r['result'] == 'caught' for r in b)
        oke = sum(r['result'] == 'silent' for r in e)
        tot_b += len(b)
        tot_e += len(e)
        rows.append(f'| {pid} | {okb}/{len(b)} caught | {oke}/{len(e)} silent | {", ".join(rules)} |')
    rows.append(f'| total | {tot_b} | {tot_e} | |')
    return '\n'.join(rows)


def seeded_table():
    d = V / 'seeded'
    rows = ['| seeded change | property | needs, to manifest | reported by |', '|---|---|---|---|']
    n = 0
    for m in sorted(d.glob('*/meta.json')):
        meta = json.loads(m.read_text())
        n += 1
        own = meta['property']
        rep = meta.get('checks_reporting', {})
        reps = '; '.join(f"{k}: {(v['reports'][0].split(':')[0] if v['reports'] else 'exit ' + str(v['exit']))}"
                         for k, v in sorted(rep.items())) or '**not reported**'
        need = (meta.get('summary') or '').replace('|', '/')[:160]
        rows.append(f"| `{m.parent.name}` | {own} | {need} | {reps} |")
    return '\n'.join(rows), n


if __name__ == '__main__':
    p = V / 'DESIGN.md'
    s = p.read_text()
    import re
    vt = variant_table()
    s = re.sub(r'<!-- VT -->.*?<!-- /VT -->|@@VARIANT_TABLE@@', '<!-- VT -->\n' + vt + '\n<!-- /VT -->', s, flags=re.S)
    p.write_text(s)
    print(vt)
