"""Re-runs every registered quick check against every recorded change (seeded/ and seeded_equiv/) and refreshes the
`checks_reporting` / `alarms` fields of their meta.json.  The confirmation (suite, demonstration) is not repeated.
The first verdicts a change got are kept under `first_contact` (set once, never overwritten).

    python tools/seed_refresh.py [ID ...]
"""
import json
import os
import shutil
import subprocess
import sys
from concurrent.futures import ProcessPoolExecutor
from pathlib import Path

VERIF = Path(__file__).resolve().parent.parent
PY = '/venv/bin/python'


def run_checks(name, patch):
    wt = Path(f'/tmp/sr_{name}')
    out = Path(f'/tmp/sr_out_{name}')
    subprocess.run(['git', '-C', '/repo', 'worktree', 'remove', '--force', str(wt)], capture_output=True)
    subprocess.check_call(['git', '-C', '/repo', 'worktree', 'add', '-q', str(wt), 'HEAD'])
    res = {}
    try:
        r = subprocess.run(['git', 'apply', str(patch)], cwd=wt, capture_output=True, text=True)
        if r.returncode != 0:
            return {'error': 'patch does not apply: ' + r.stderr[-200:]}
        for i in range(1, 21):
            pid = f'C{i:02d}'
            e = dict(os.environ)
            e.update({'VERIF_REPO': str(wt), 'VERIF_OUT': str(out)})
            r = subprocess.run([PY, 'sa/check.py', pid, '--tier', 'quick'], cwd=VERIF, env=e, capture_output=True,
                               text=True, timeout=600)
            if r.returncode != 0:
                o = r.stdout + r.stderr
                lines = [l.strip() for l in o.splitlines() if l.strip().startswith(pid + '-') or 'ANALYSIS-ERROR' in l]
                res[pid] = {'exit': r.returncode, 'reports': lines[:4]}
    finally:
        subprocess.run(['git', '-C', '/repo', 'worktree', 'remove', '--force', str(wt)], capture_output=True)
        shutil.rmtree(out, ignore_errors=True)
    return res


def one(d):
    d = Path(d)
    meta = json.loads((d / 'meta.json').read_text())
    res = run_checks(d.name, d / 'patch.diff')
    if 'error' in res:
        return d.name, res['error']
    if d.parent.name == 'seeded':
        if 'first_contact' not in meta and not meta.get('refreshed') and d.name[-3:] not in ('_m1', '_m2'):
            meta['first_contact'] = meta.get('checks_reporting', {})     # round 2: verdicts before any strengthening
        meta['checks_reporting'] = res
        meta['caught_by_own_property_check'] = meta['property'] in res and res[meta['property']]['exit'] == 1
        verdict = 'own' if meta['caught_by_own_property_check'] else ('other' if res else 'MISSED')
    else:
        if 'first_contact' not in meta and not meta.get('refreshed'):
            meta['first_contact'] = meta.get('alarms', {})      # never refreshed: these are the verdicts of first contact
        meta['alarms'] = res
        meta['silent'] = not res
        verdict = 'silent' if not res else 'ALARMS ' + ','.join(sorted(res))
    meta['refreshed'] = True
    (d / 'meta.json').write_text(json.dumps(meta, indent=1))
    return d.name, verdict


def main():
    want = set(sys.argv[1:])
    dirs = [str(p.parent) for k in ('seeded', 'seeded_equiv') for p in sorted((VERIF / k).glob('*/meta.json'))
            if not want or p.parent.name in want]
    with ProcessPoolExecutor(max_workers=8) as pool:
        for name, verdict in pool.map(one, dirs):
            print(name, verdict)


if __name__ == '__main__':
    main()
