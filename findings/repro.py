"""One-off reproductions of the defects that the static rules of DESIGN.md section 6 point at.

NOT a check and not part of the verification machinery: this script *runs* ampycloud on concrete
inputs, only to show that each statically reported construct is a genuine defect of the pinned
tree (failing input against the real code), as required before a finding is recorded or repaired.

    /venv/bin/python /verif/findings/repro.py            # all
    /venv/bin/python /verif/findings/repro.py F-C10      # one

Each function prints 'DEFECT <id>: ...' when the defect shows and 'absent <id>' when it does not
(e.g. after a fix: commit).
"""
import sys
import warnings
from pathlib import Path
import numpy as np
import pandas as pd

warnings.simplefilter('ignore')
HERE = Path(__file__).parent


def _frame(rows):
    df = pd.DataFrame(rows, columns=['ceilo', 'dt', 'height', 'type'])
    df['ceilo'] = df['ceilo'].astype(str).astype(pd.StringDtype())
    df['dt'] = df['dt'].astype(float)
    df['height'] = df['height'].astype(float)
    df['type'] = df['type'].astype(int)
    return df


def _csv(name):
    df = pd.read_csv(HERE / name)
    return _frame(df[['ceilo', 'dt', 'height', 'type']].values.tolist())


def f_c10():
    """Repeated index labels (pd.concat of per-ceilometer frames) -> IndexError."""
    import ampycloud
    from ampycloud.utils import mocker
    d = mocker.canonical_demo_data()
    ref = ampycloud.run(d).metar_msg()
    dd = pd.concat([d[d.ceilo == c].reset_index(drop=True) for c in sorted(d.ceilo.unique())])
    try:
        msg = ampycloud.run(dd).metar_msg()
    except Exception as err:  # pylint: disable=broad-except
        return f'DEFECT F-C10: plain index gives {ref!r}, repeated labels raise {type(err).__name__}: {err}'
    return 'absent F-C10' if msg == ref else f'DEFECT F-C10: {ref!r} became {msg!r}'


def f_c14a():
    """find_groups() after find_layers() refuses only after having rewritten group_id."""
    import ampycloud
    from ampycloud.errors import AmpycloudError
    # two slices 220 ft apart: distinct slices (> 0.2 * 1000 ft) but merged into one group (< 250 ft)
    fake = [2500., 2720.] * 50
    df = _frame([('A', t, h, 1) for t, h in zip(range(-1000, 0, 10), fake)])
    ch = ampycloud.run(df)
    before = ch.data['group_id'].copy()
    try:
        ch.find_groups()
        return 'DEFECT F-C14a: find_groups after find_layers did not raise'
    except AmpycloudError:
        pass
    same = before.astype(float).equals(ch.data['group_id'].astype(float))
    if same:
        return 'absent F-C14a'
    msg0 = ch.metar_msg()
    ch.find_layers()
    return (f'DEFECT F-C14a: refused call changed group_id ({sorted(set(before))} -> '
            f'{sorted(set(ch.data["group_id"]))}); message {msg0!r} becomes {ch.metar_msg()!r} '
            'after a further find_layers()')


def f_c14b():
    """find_slices() after a full run silently resets slices.isolated."""
    import ampycloud
    from ampycloud.errors import AmpycloudError
    from ampycloud.utils import mocker
    ch = ampycloud.run(mocker.canonical_demo_data())
    ref = ch.slices.copy()
    try:
        ch.find_slices()
    except AmpycloudError:
        return 'absent F-C14b (refused)'
    return 'absent F-C14b' if ref.equals(ch.slices) else \
        f'DEFECT F-C14b: isolated {ref["isolated"].tolist()} -> {ch.slices["isolated"].tolist()}'


def f_c08():
    """A bundle reduced to one single-hit slice -> scikit-learn ValueError out of run()."""
    import ampycloud
    df = _csv('F-C08_one_hit_bundle.csv')
    try:
        ampycloud.run(df, prms={'SLICING_PRMS': {'distance_threshold': 0.002}})
    except ampycloud.errors.AmpycloudError as err:
        return f'absent F-C08 (AmpycloudError: {err})'
    except Exception as err:  # pylint: disable=broad-except
        return f'DEFECT F-C08: {type(err).__name__}: {str(err)[:90]}'
    return 'absent F-C08'


def f_c06b():
    """Exclusion filter skipped when a merged group base is recomputed -> groups closer than min sep."""
    from ampycloud.data import CeiloChunk
    rows, gids, t = [], [], -3000.
    for ceilo, h, n, g in (('A', 1000, 50, 1), ('A', 1100, 5, 2), ('B', 700, 50, 2), ('A', 1200, 50, 3)):
        for _ in range(n):
            rows.append((ceilo, t, h, 1))
            gids.append(g)
            t += 10
    ch = CeiloChunk(_frame(rows), prms={'EXCLUDE_FOR_BASE_HEIGHT_CALC': ['B'],
                                        'MIN_SEP_VALS': [250, 1000], 'MIN_SEP_LIMS': [10000]})
    ch.data['slice_id'] = gids
    ch.data['group_id'] = gids
    ch._merge_close_groups()  # pylint: disable=protected-access
    ch.metarize('groups')
    diffs = np.diff(ch.groups['height_base'].values)
    return f'DEFECT F-C06b: reported group bases {ch.groups["height_base"].tolist()} (min sep 250)' \
        if np.any(diffs < 250) else 'absent F-C06b'


def f_c06a():
    """Look-back < 100 and rows not time-ascending -> split layers closer than min sep."""
    import ampycloud
    df = _csv('F-C06a_shuffled_rows.csv')
    prms = {'BASE_LVL_LOOKBACK_PERC': 30, 'BASE_LVL_HEIGHT_PERC': 5}
    shuffled = ampycloud.run(df, prms=prms)
    ordered = ampycloud.run(df.sort_values('dt').reset_index(drop=True), prms=prms)
    bases = shuffled.layers['height_base'].values
    bad = len(bases) > 1 and np.any(np.diff(bases) < 250)
    return (f'DEFECT F-C06a: shuffled rows give layers at {bases.round(1).tolist()} '
            f'({shuffled.metar_msg()}), time-ordered rows give {ordered.metar_msg()}') if bad \
        else 'absent F-C06a'


def f_c05():
    """More than 100 slices: generated layer ids 100/101 collide with slice labels 100/101."""
    import ampycloud
    rng = np.random.default_rng(0)
    rows, levels, k = [], [2000. + 300 * i for i in range(110)], 0
    for j, t in enumerate(np.arange(-600, 0, 15.)):
        rows.append(('A', t, (1000. if j % 2 == 0 else 1050.) + float(rng.integers(-3, 4)), 1))
        for typ in (2, 3, 4):
            if k < len(levels):
                rows.append(('A', t, levels[k], typ))
                k += 1
    ch = ampycloud.run(_frame(rows), prms={'SLICING_PRMS': {'distance_threshold': 0.002, 'dt_scale': 1e9},
                                           'MIN_SEP_VALS': [40, 40]})
    dat = ch.data[ch.data.layer_id >= 0]
    span = dat.groupby('layer_id')['group_id'].nunique()
    bad = span[span > 1]
    return f'DEFECT F-C05: layers {bad.to_dict()} span several groups; n_groups={ch.n_groups} ' \
           f'n_layers={ch.n_layers}' if len(bad) else 'absent F-C05'


def f_c20():
    """More than 10 ceilometers with show_ceilos=True -> IndexError in the legend."""
    import matplotlib
    matplotlib.use('Agg')
    import ampycloud
    from ampycloud.plots import diagnostic
    df = _frame([(str(c), t, 1000. + c, 1) for c in range(11) for t in range(-300, 0, 30)])
    ch = ampycloud.run(df)
    try:
        diagnostic(ch, upto='raw_data', show_ceilos=True, show=False)
    except Exception as err:  # pylint: disable=broad-except
        return f'DEFECT F-C20: {type(err).__name__}: {err}'
    return 'absent F-C20'


def f_c08b():
    """Only type >= 2 hits, all above MSA + buffer: cropped to an empty frame -> pandas ValueError."""
    import ampycloud
    df = _frame([('A', float(t), 9000.0, 2) for t in range(-300, 0, 30)])
    try:
        ch = ampycloud.run(df, prms={'MSA': 5000, 'MSA_HIT_BUFFER': 1000})
    except ampycloud.errors.AmpycloudError as err:
        return f'absent F-C08b (AmpycloudError: {err})'
    except Exception as err:  # pylint: disable=broad-except
        return f'DEFECT F-C08b: {type(err).__name__}: {str(err)[:90]}'
    return f'absent F-C08b ({ch.metar_msg()})'


def f_c10b():
    """A caller index that is merely named like a column: pandas refuses the merge of the coincidence test."""
    import ampycloud
    from ampycloud.utils import mocker
    df = mocker.canonical_demo_data()
    ref = ampycloud.run(df).metar_msg()
    df2 = df.copy()
    df2.index.name = 'ceilo'
    try:
        got = ampycloud.run(df2).metar_msg()
    except Exception as err:  # pylint: disable=broad-except
        return f'DEFECT F-C10b: {type(err).__name__}: {str(err)[:90]}'
    return 'absent F-C10b' if got == ref else f'DEFECT F-C10b: {got} != {ref}'


def f_c05c():
    """Identical heights and a minimum range of 0 for the slicing: min-max scaling over an empty range."""
    import numpy as np
    import pandas as pd
    import ampycloud
    n = 40
    df = pd.DataFrame({'ceilo': ['A'] * n, 'dt': np.arange(-n, 0) * 15., 'height': [1000.] * n, 'type': [1] * n})
    chunk = ampycloud.run(df, prms={'SLICING_PRMS': {'height_scale_kwargs': {'min_range': 0}}})
    msg, ids = chunk.metar_msg(), sorted(set(chunk.data['slice_id']))
    return 'absent F-C05c' if msg == 'OVC010' and ids == [0] else f'DEFECT F-C05c: {n} hits at 1000 ft reported as {msg}, slice ids {ids}'


ALL = {'F-C05c': f_c05c, 'F-C10b': f_c10b, 'F-C08b': f_c08b, 'F-C10': f_c10, 'F-C14a': f_c14a, 'F-C14b': f_c14b, 'F-C08': f_c08, 'F-C06b': f_c06b,
       'F-C06a': f_c06a, 'F-C05': f_c05, 'F-C20': f_c20}

if __name__ == '__main__':
    for name in (sys.argv[1:] or ALL):
        print(ALL[name]())
